#![no_main]
//! Generic libFuzzer target: the property is chosen by the environment variable EGVERIF_FUZZ_PROP
//! (e.g. C01); the fuzzer's bytes are turned into a choice tape and fed to the tape sub-checks of
//! that property (first byte selects the sub-check), i.e. the same decoders and oracles as the
//! proptest driver.
use libfuzzer_sys::fuzz_target;
use std::sync::OnceLock;

static STATE: OnceLock<(egverif::engine::Prop, Vec<egverif::engine::Known>)> = OnceLock::new();

fuzz_target!(|data: &[u8]| {
    let (prop, known) = STATE.get_or_init(|| {
        egverif::engine::install_panic_hook();
        let root = std::env::var("VERIF_ROOT").unwrap_or_else(|_| "/verif".to_string());
        let id = std::env::var("EGVERIF_FUZZ_PROP").expect("EGVERIF_FUZZ_PROP not set");
        let prop = egverif::props::all().into_iter().find(|p| p.id == id).expect("unknown property");
        (prop, egverif::engine::load_known(&root))
    });
    egverif::fuzz::fuzz_one(prop, known, data);
});
