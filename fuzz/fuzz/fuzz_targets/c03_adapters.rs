#![no_main]
//! libFuzzer target for C03: the fuzzer's bytes are turned into a choice tape and fed to the same
//! decode/check functions the proptest driver uses (semantic oracle inside the target).
use libfuzzer_sys::fuzz_target;
use std::sync::OnceLock;

static STATE: OnceLock<(egverif::engine::Prop, Vec<egverif::engine::Known>)> = OnceLock::new();

fuzz_target!(|data: &[u8]| {
    let (prop, known) = STATE.get_or_init(|| {
        egverif::engine::install_panic_hook();
        let root = std::env::var("VERIF_ROOT").unwrap_or_else(|_| "/verif".to_string());
        let prop = egverif::props::all().into_iter().find(|p| p.id == "C03").unwrap();
        (prop, egverif::engine::load_known(&root))
    });
    egverif::fuzz::fuzz_one(prop, known, data);
});
