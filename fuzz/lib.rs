// placeholder: cargo-fuzz needs a parent package
