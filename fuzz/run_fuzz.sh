#!/bin/bash
# Thorough-tier libFuzzer campaign for the properties that have a fuzz target.
#   run_fuzz.sh <Cxx>      (called by ./check <Cxx> thorough after the proptest/enumeration part passed)
# The targets feed the fuzzer's bytes as a choice tape into the same decoders and oracles as the
# proptest driver (overflow checks and debug assertions on). A crash input is re-run through the plain
# driver (egverif fuzz-replay), which writes the replay file and prints the VIOLATION line.
set -u
ID="$1"
case "$ID" in
  C03) T=c03_adapters ;;
  C08) T=c08_total ;;
  C09) T=c09_image ;;
  C10) T=c10_framebuffer ;;
  C15) T=c15_text ;;
  C12|C13) exit 0 ;;            # enumerations only: nothing to fuzz
  C[0-9][0-9]) T=generic ;;     # every other property: the generic target on its tape sub-checks
  *) exit 0 ;;
esac
export EGVERIF_FUZZ_PROP="$ID"
ROOT="$(cd "$(dirname "$0")/.." && pwd)"
export VERIF_ROOT="$ROOT"
export CARGO_NET_OFFLINE=true
unset CARGO_TARGET_DIR CARGO_BUILD_TARGET_DIR RUSTFLAGS CARGO_ENCODED_RUSTFLAGS
SEED="${VERIF_SEED:-1}"
# fixed work per job, scaled to the cost of one case of the property
case "$ID" in
  C11|C16) DEF_RUNS=2000000 ;;
  C04|C14|C17) DEF_RUNS=400000 ;;
  *) if [ "$T" = generic ]; then DEF_RUNS=60000; else DEF_RUNS=400000; fi ;;
esac
RUNS="${VERIF_FUZZ_RUNS:-$DEF_RUNS}"
JOBS="${VERIF_FUZZ_JOBS:-8}"
cd "$ROOT/fuzz" || exit 2
if ! cargo +nightly fuzz build --sanitizer none "$T" > "$ROOT/fuzz/build-$T.log" 2>&1; then
  echo "note: libFuzzer target $T could not be built offline (see fuzz/build-$T.log); the thorough tier of $ID ran without the coverage-guided campaign"
  "$ROOT/harness/target/release/egverif" fuzz-evidence "$ID" "$T(not built)" 0 0 0 0
  exit 0
fi
CORP="$ROOT/fuzz/corpus-run/$T-$ID"; ART="$ROOT/fuzz/artifacts/$T-$ID"
rm -rf "$CORP" "$ART"; mkdir -p "$CORP" "$ART"
# deterministic starting corpus: 48 pseudo-random inputs of full length (libFuzzer ramps length slowly from an empty corpus)
python3 - "$CORP" "$SEED" <<'PY'
import sys, random
d, seed = sys.argv[1], int(sys.argv[2])
r = random.Random(seed * 7919 + 13)
for i in range(48):
    n = r.choice([16, 64, 200, 600, 1100])
    open(f"{d}/seed{i:02d}", "wb").write(bytes(r.getrandbits(8) if r.random() < 0.7 else 0 for _ in range(n)))
PY
T0=$(date +%s)
( cd "$ART" && "$ROOT/fuzz/fuzz/target/x86_64-unknown-linux-gnu/release/$T" "$CORP" -runs="$RUNS" -seed="$SEED" -max_len=1100 -len_control=0 -artifact_prefix="$ART/" -jobs="$JOBS" -workers="$JOBS" -max_total_time="${VERIF_FUZZ_MAX_S:-900}" -print_final_stats=1 > "$ART/driver.log" 2>&1 )
T1=$(date +%s)
CRASHES=$(ls "$ART" | grep -c "^crash-\|^oom-\|^timeout-")
NCORP=$(ls "$CORP" | wc -l)
DONE=$(grep -h "stat::number_of_executed_units" "$ART"/fuzz-*.log 2>/dev/null | awk '{s+=$2} END {print s+0}')
TOTAL=$DONE
echo "[${ID} thorough libfuzzer] target $T: $JOBS jobs x up to $RUNS runs (cap ${VERIF_FUZZ_MAX_S:-900}s each), $DONE executed, corpus $NCORP files, $CRASHES crash file(s), $((T1 - T0))s"
RC=0
for f in "$ART"/crash-*; do
  [ -e "$f" ] || continue
  "$ROOT/harness/target/release/egverif" fuzz-replay "$ID" "$f"; R=$?
  if [ $R -eq 1 ]; then RC=1; fi
done
if ls "$ART" | grep -q "^timeout-\|^oom-"; then echo "INCONCLUSIVE: libFuzzer reported a timeout/oom input (kept under $ART)"; [ $RC -eq 0 ] && RC=2; fi
"$ROOT/harness/target/release/egverif" fuzz-evidence "$ID" "$T" "$TOTAL" "$NCORP" "$CRASHES" "$((T1 - T0))"
exit $RC
