#!/usr/bin/env python3
"""Regenerates /verif/seeded/SUMMARY.md from the meta.json files written by tools_seed.sh."""
import json, glob, os, re

HEAD = open('/verif/seeded/SUMMARY.head.md').read() if os.path.exists('/verif/seeded/SUMMARY.head.md') else ''
rows = []
ood = []
det = 0
# last complete re-run of everything against the current harness
regress = {}
if os.path.exists('/verif/seeded/REGRESS.txt'):
    for l in open('/verif/seeded/REGRESS.txt'):
        f = l.split(None, 3)
        if len(f) >= 3 and f[2] == 'DETECTED':
            regress[f[0]] = f[3].strip() if len(f) > 3 else '' 
missed_first = []
for d in sorted(glob.glob('/verif/seeded/*/')):
    f = os.path.join(d, 'meta.json')
    if not os.path.exists(f):
        continue
    m = json.load(open(f))
    clip = lambda s, n=230: re.sub(r'\s+', ' ', str(s)).replace('|', '/')[:n]
    sig = ''
    for p, l in m.get('violation_signatures', {}).items():
        if l:
            sig = l[0].split(': ', 1)[-1]
            break
    if not m.get('detected_by') and m['name'] in regress:
        # reverted fixes are only run by tools_seed_regress.sh
        m['detected_by'] = [m['property']]
        sig = regress[m['name']].split(': ', 1)[-1]
    if m.get('out_of_domain'):
        ood.append((m['name'], m['out_of_domain']))
        continue
    if m['property'] in m.get('detected_by', []):
        det += 1
    rows.append('| %s | %s | %s | %s | %s | %s | %s | `%s` |' % (
        m['name'], m['property'], clip(m.get('summary', '')), clip(m.get('needs', '')), ' '.join(m.get('files', [])),
        ' '.join(m.get('detected_by', [])), ' '.join(m.get('not_detected_by', [])), sig))
out = HEAD.replace('@N@', str(len(rows))).replace('@DET@', str(det))
out += '\n| name | property | change | needs | file(s) | detected by | not detected by (also run) | first signature |\n|---|---|---|---|---|---|---|---|\n'
out += '\n'.join(rows) + '\n'
if ood:
    out += '\nConfirmed changes that are outside the domain of the property they were written for (kept for the record, not counted):\n\n'
    for n, why in ood:
        out += '- %s: %s\n' % (n, why)
open('/verif/seeded/SUMMARY.md', 'w').write(out)
print(len(rows), 'changes,', det, 'detected by the targeted property')
