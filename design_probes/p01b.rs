use egx::*;
use egx::fonts::FONTS;
use embedded_graphics::image::{Image, ImageRaw, ImageDrawableExt};
use embedded_graphics::mono_font::MonoTextStyleBuilder;
use embedded_graphics::text::{Text, Alignment, Baseline, TextStyleBuilder};
use std::collections::BTreeMap;
type Map = BTreeMap<(i32, i32), Rgb888>;

fn both<F: Fn(&mut dyn FnMut(&mut Rec<Rgb888>), &mut dyn FnMut(&mut IterOnly<Rgb888>))>(_f: F) {}

macro_rules! cmp { ($name:expr, $st:expr, $shown:expr, $clip:expr, |$t:ident| $draw:expr, $bb:expr, $desc:expr) => {{
    let clip: Option<Rectangle> = $clip;
    let mut a = IterOnly(Rec::new(false));
    let mut b = Rec::new(true);
    match clip {
        None => { { let $t = &mut a; $draw; } { let $t = &mut b; $draw; } }
        Some(c) => { { let mut ca = a.clipped(&c); let $t = &mut ca; $draw; } { let mut cb = b.clipped(&c); let $t = &mut cb; $draw; } }
    }
    $st.0 += 1;
    let mut m = String::new();
    if a.0.map != b.map { $st.1 += 1; m += "native!=iter "; }
    if let Some(c) = clip { if b.map.keys().chain(a.0.map.keys()).any(|k| !c.contains(Point::new(k.0, k.1))) { $st.2 += 1; m += "leak "; } }
    else { let bb: Rectangle = $bb; if b.map.keys().any(|k| !bb.contains(Point::new(k.0, k.1))) { $st.3 += 1; m += "bbox "; } }
    if !m.is_empty() && $shown < 8 { $shown += 1; println!("{} [{}] {}", $name, m, $desc); }
}}}

fn main() {
    let mut rng = Rng(101);
    let mut st = (0, 0, 0, 0); let mut shown = 0;
    for it in 0..6000 {
        let clip = if it % 2 == 0 { None } else { Some(Rectangle::new(Point::new(rng.range(-6, 6), rng.range(-6, 6)), Size::new(rng.range(1, 12) as u32, rng.range(1, 12) as u32))) };
        // polyline
        let k = rng.range(0, 6) as usize;
        let v: Vec<Point> = (0..k).map(|_| Point::new(rng.range(-12, 12), rng.range(-12, 12))).collect();
        let style = styles(&mut rng, 9);
        let tr = Point::new(rng.range(-3, 3), rng.range(-3, 3));
        let pl = Polyline::new(&v).translate(tr).into_styled(style);
        cmp!("polyline", st, shown, clip, |t| pl.draw(t).unwrap(), pl.bounding_box(), format!("{:?} {:?} sw={}", v, tr, style.stroke_width));
        let pix: Vec<_> = pl.pixels().collect();
        let mut c = IterOnly(Rec::new(false)); c.draw_iter(pix).unwrap();
        let mut b = Rec::new(true); pl.draw(&mut b).unwrap();
        if c.0.map != b.map { st.1 += 1; if shown < 8 { shown += 1; println!("polyline pixels!=draw {:?} sw={} stroke={}", v, style.stroke_width, style.stroke_color.is_some()); } }
        // thick triangle bbox at larger range
        let mut q = |rng: &mut Rng| Point::new(rng.range(-30, 30), rng.range(-30, 30));
        let tri = Triangle::new(q(&mut rng), q(&mut rng), q(&mut rng)).into_styled(styles(&mut rng, 14));
        cmp!("tri", st, shown, clip, |t| tri.draw(t).unwrap(), tri.bounding_box(), format!("{:?}", tri));
        let ln = Line::new(q(&mut rng), q(&mut rng)).into_styled(styles(&mut rng, 14));
        cmp!("line", st, shown, clip, |t| ln.draw(t).unwrap(), ln.bounding_box(), format!("{:?}", ln));
        // image
        let (w, h) = (rng.range(0, 9) as u32, rng.range(0, 7) as u32);
        let data: Vec<u8> = (0..w * h * 3).map(|_| rng.next() as u8).collect();
        let img = ImageRaw::<Rgb888>::new(&data, Size::new(w, h)).unwrap();
        let o = Point::new(rng.range(-6, 6), rng.range(-6, 6));
        let im = Image::new(&img, o);
        cmp!("image", st, shown, clip, |t| im.draw(t).unwrap(), im.bounding_box(), format!("{}x{} at {:?} clip {:?}", w, h, o, clip));
        let sub = img.sub_image(&Rectangle::new(Point::new(rng.range(-2, 5), rng.range(-2, 4)), Size::new(rng.range(0, 8) as u32, rng.range(0, 6) as u32)));
        let im2 = Image::new(&sub, o);
        cmp!("subimage", st, shown, clip, |t| im2.draw(t).unwrap(), im2.bounding_box(), format!("sub of {}x{} at {:?} clip {:?}", w, h, o, clip));
        // text
        let (name, font, mapping) = FONTS[(rng.next() % FONTS.len() as u64) as usize];
        let chars: Vec<char> = mapping.chars().collect();
        let s: String = (0..rng.range(0, 7)).map(|_| if rng.next() % 7 == 0 { '\n' } else { chars[(rng.next() % chars.len() as u64) as usize] }).collect();
        let mut bld = MonoTextStyleBuilder::new().font(font);
        if rng.next() % 4 != 0 { bld = bld.text_color(Rgb888::WHITE); }
        if rng.next() % 2 == 0 { bld = bld.background_color(Rgb888::BLUE); }
        if rng.next() % 3 == 0 { bld = bld.underline_with_color(Rgb888::RED); }
        if rng.next() % 3 == 0 { bld = bld.strikethrough(); }
        let ts = TextStyleBuilder::new().alignment(rng.pick(&[Alignment::Left, Alignment::Center, Alignment::Right])).baseline(rng.pick(&[Baseline::Top, Baseline::Middle, Baseline::Alphabetic, Baseline::Bottom])).build();
        let tx = Text::with_text_style(&s, o, bld.build(), ts);
        // bbox for text known to fail (F-4): use a huge box to skip
        cmp!("text", st, shown, clip, |t| { tx.draw(t).unwrap(); }, Rectangle::new(Point::new(-1000, -1000), Size::new(2000, 2000)), format!("{} {:?}", name, s));
    }
    println!("== C01b n={} native!=iter={} clip-leak={} bbox={}", st.0, st.1, st.2, st.3);
    let _ = both::<fn(&mut dyn FnMut(&mut Rec<Rgb888>), &mut dyn FnMut(&mut IterOnly<Rgb888>))>;
}
