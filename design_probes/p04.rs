use egx::*;
use egx::fonts::FONTS;
use embedded_graphics::image::{Image, ImageRaw, ImageDrawableExt};
use embedded_graphics::mono_font::MonoTextStyleBuilder;
use embedded_graphics::text::{Text, Alignment};

// log-only target
#[derive(Default)]
struct Log { calls: Vec<String>, fail_at: Option<usize>, after_fail: usize, failed: bool, native: bool }
impl Log {
    fn tick(&mut self, s: String) -> Result<(), u32> {
        if self.failed { self.after_fail += 1; }
        let n = self.calls.len();
        self.calls.push(s);
        if self.fail_at == Some(n) { self.failed = true; Err(1000 + n as u32) } else { Ok(()) }
    }
}
struct T(Log);
impl Dimensions for T { fn bounding_box(&self) -> Rectangle { Rectangle::new(Point::new(-50, -50), Size::new(100, 100)) } }
impl DrawTarget for T {
    type Color = Rgb888; type Error = u32;
    fn draw_iter<I: IntoIterator<Item = Pixel<Rgb888>>>(&mut self, p: I) -> Result<(), u32> {
        // consume lazily: error is reported before consuming (like a bus error at start) 
        let v: Vec<_> = p.into_iter().map(|Pixel(p, c)| (p.x, p.y, c.into_storage())).collect();
        self.0.tick(format!("iter {:?}", v))
    }
    fn fill_contiguous<I: IntoIterator<Item = Rgb888>>(&mut self, a: &Rectangle, c: I) -> Result<(), u32> {
        if !self.0.native { return self.draw_iter(a.points().zip(c).map(|(p, c)| Pixel(p, c))); }
        let v: Vec<_> = c.into_iter().take(100000).map(|c| c.into_storage()).collect();
        self.0.tick(format!("contig {:?} {:?}", a, v))
    }
    fn fill_solid(&mut self, a: &Rectangle, c: Rgb888) -> Result<(), u32> {
        if !self.0.native { return self.fill_contiguous(a, core::iter::repeat(c)); }
        self.0.tick(format!("solid {:?} {:?}", a, c))
    }
    fn clear(&mut self, c: Rgb888) -> Result<(), u32> { let bb = self.bounding_box(); self.fill_solid(&bb, c) }
}

fn check<F: Fn(&mut T) -> Result<(), u32>>(name: &str, f: F, st: &mut (usize, usize, usize), shown: &mut usize) {
    for native in [true, false] {
        let mut t = T(Log { native, ..Default::default() });
        f(&mut t).unwrap();
        let base = t.0.calls;
        for k in 0..base.len() {
            let mut t = T(Log { native, fail_at: Some(k), ..Default::default() });
            let r = f(&mut t);
            st.0 += 1;
            let ok = r == Err(1000 + k as u32) && t.0.after_fail == 0 && t.0.calls.len() == k + 1 && t.0.calls[..] == base[..k + 1];
            if !ok { st.1 += 1; if *shown < 6 { *shown += 1; println!("C04 FAIL {} native={} k={}/{} r={:?} after={} ncalls={}", name, native, k, base.len(), r, t.0.after_fail, t.0.calls.len()); } }
        }
        st.2 += 1;
    }
}

fn main() {
    let mut rng = Rng(4);
    let mut st = (0, 0, 0); let mut shown = 0;
    for _ in 0..400 {
        let style = styles(&mut rng, 5);
        let tl = Point::new(rng.range(-5, 5), rng.range(-5, 5));
        let sz = Size::new(rng.range(0, 9) as u32, rng.range(0, 9) as u32);
        let r = Rectangle::new(tl, sz);
        check("rect", |t| r.into_styled(style).draw(t), &mut st, &mut shown);
        let mut ds = style; ds.stroke_style = StrokeStyle::Dotted;
        check("rect-dotted", |t| r.into_styled(ds).draw(t), &mut st, &mut shown);
        check("circle", |t| Circle::new(tl, sz.width).into_styled(style).draw(t), &mut st, &mut shown);
        check("ellipse", |t| Ellipse::new(tl, sz).into_styled(style).draw(t), &mut st, &mut shown);
        check("rrect", |t| RoundedRectangle::with_equal_corners(r, Size::new(2, 3)).into_styled(style).draw(t), &mut st, &mut shown);
        let mut q = |rng: &mut Rng| Point::new(rng.range(-7, 7), rng.range(-7, 7));
        let (a, b, c, d) = (q(&mut rng), q(&mut rng), q(&mut rng), q(&mut rng));
        check("tri", |t| Triangle::new(a, b, c).into_styled(style).draw(t), &mut st, &mut shown);
        check("line", |t| Line::new(a, b).into_styled(style).draw(t), &mut st, &mut shown);
        let v = [a, b, c, d];
        check("polyline", |t| Polyline::new(&v).into_styled(style).draw(t), &mut st, &mut shown);
        check("polyline-tr", |t| Polyline::new(&v).translate(Point::new(2, 1)).into_styled(style).draw(t), &mut st, &mut shown);
        check("arc", |t| Arc::new(tl, sz.width, 10.0.deg(), 200.0.deg()).into_styled(style).draw(t), &mut st, &mut shown);
        check("sector", |t| Sector::new(tl, sz.width, 10.0.deg(), 200.0.deg()).into_styled(style).draw(t), &mut st, &mut shown);
        // image + sub image
        let data: Vec<u8> = (0..(3 * 5 * 4)).map(|_| rng.next() as u8).collect();
        let img = ImageRaw::<Rgb888>::new(&data, Size::new(5, 4)).unwrap();
        check("image", |t| Image::new(&img, tl).draw(t), &mut st, &mut shown);
        let sub = img.sub_image(&Rectangle::new(Point::new(1, 1), Size::new(3, 2)));
        check("subimage", |t| Image::new(&sub, tl).draw(t), &mut st, &mut shown);
        check("image-clipped", |t| Image::new(&img, tl).draw(&mut t.clipped(&Rectangle::new(Point::new(-2, -2), Size::new(5, 5)))), &mut st, &mut shown);
        check("image-cropped-translated", |t| Image::new(&img, tl).draw(&mut t.cropped(&Rectangle::new(Point::new(-2, -2), Size::new(5, 5))).translated(Point::new(1, 1))), &mut st, &mut shown);
        // text
        let (_, font, _) = FONTS[(rng.next() % FONTS.len() as u64) as usize];
        let mut bld = MonoTextStyleBuilder::new().font(font);
        if rng.next() % 3 != 0 { bld = bld.text_color(Rgb888::WHITE); }
        if rng.next() % 2 == 0 { bld = bld.background_color(Rgb888::BLUE); }
        if rng.next() % 2 == 0 { bld = bld.underline_with_color(Rgb888::RED); }
        if rng.next() % 2 == 0 { bld = bld.strikethrough(); }
        let ts = bld.build();
        check("text", |t| Text::with_alignment("Ab\ncd e\n", tl, ts, Alignment::Center).draw(t).map(|_| ()), &mut st, &mut shown);
        check("text-clipped", |t| Text::new("Ab\ncd", tl, ts).draw(&mut t.clipped(&Rectangle::new(Point::new(-2, -2), Size::new(9, 9)))).map(|_| ()), &mut st, &mut shown);
    }
    println!("== C04 fault runs={} failures={} drawables={}", st.0, st.1, st.2);
}
