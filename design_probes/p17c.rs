use egx::*;
fn main() {
    let mut rng = Rng(171);
    let mut by_w = vec![(f64::MIN, f64::MAX, String::new()); 130];
    for it in 0..200000 {
        let r = [8, 20, 60, 200][it % 4];
        let s = Point::new(rng.range(-r, r), rng.range(-r, r)); let e = Point::new(rng.range(-r, r), rng.range(-r, r));
        let w = rng.range(1, 128) as u32;
        let (dx, dy) = ((e.x - s.x) as f64, (e.y - s.y) as f64); let len = (dx * dx + dy * dy).sqrt();
        if len < 1.0 { continue; }
        let l = Line::new(s, e);
        let mut lo = f64::MAX; let mut hi = f64::MIN;
        for Pixel(q, _) in l.into_styled(PrimitiveStyle::with_stroke(Rgb888::RED, w)).pixels() {
            let d = ((q.x - s.x) as f64 * dy - (q.y - s.y) as f64 * dx) / len;
            lo = lo.min(d); hi = hi.max(d);
        }
        let dev = hi.max(-lo) - w as f64 / 2.0;
        let e = &mut by_w[w as usize];
        if dev > e.0 { e.0 = dev; e.2 = format!("{:?}", l); }
        let width = hi - lo + 1.0 - w as f64;
        if width < e.1 { e.1 = width; }
    }
    for w in [1, 2, 3, 4, 5, 6, 8, 10, 12, 16, 20, 24, 32, 40, 48, 64, 80, 100, 128] { println!("w={:3} max(dev - w/2)={:.3} min(total extent+1-w)={:.3}  {}", w, by_w[w].0, by_w[w].1, by_w[w].2); }
}
