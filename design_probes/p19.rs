use egx::*;
use std::collections::{BTreeMap, BTreeSet};
type S = BTreeSet<(i32, i32)>;
fn set<I: Iterator<Item = Point>>(i: I) -> S { i.map(|p| (p.x, p.y)).collect() }
fn orient(a: Point, b: Point, c: Point) -> i64 { (b.x - a.x) as i64 * (c.y - a.y) as i64 - (c.x - a.x) as i64 * (b.y - a.y) as i64 }
fn seg_dist(p: (i32, i32), a: Point, b: Point) -> f64 {
    let (px, py) = (p.0 as f64, p.1 as f64); let (ax, ay, bx, by) = (a.x as f64, a.y as f64, b.x as f64, b.y as f64);
    let (dx, dy) = (bx - ax, by - ay); let l2 = dx * dx + dy * dy;
    let t = if l2 == 0.0 { 0.0 } else { (((px - ax) * dx + (py - ay) * dy) / l2).clamp(0.0, 1.0) };
    ((px - ax - t * dx).powi(2) + (py - ay - t * dy).powi(2)).sqrt()
}
fn main() {
    let mut rng = Rng(19);
    let (mut f_cover, mut f_near, mut f_order, mut f_outline, mut f_gap, mut f_edge, mut n) = (0, 0, 0, 0, 0, 0, 0);
    let mut worst: f64 = 0.0; let mut shown = 0;
    for it in 0..60000 {
        let r = if it % 3 == 0 { 30 } else { 7 };
        let mut q = |rng: &mut Rng| Point::new(rng.range(-r, r), rng.range(-r, r));
        let (a, b, c) = (q(&mut rng), q(&mut rng), q(&mut rng));
        let t = Triangle::new(a, b, c);
        let s = set(t.points());
        n += 1;
        let o = orient(a, b, c);
        // cover interior
        let bb = t.bounding_box();
        for p in bb.points() {
            let (o1, o2, o3) = (orient(a, b, p), orient(b, c, p), orient(c, a, p));
            let inside = if o > 0 { o1 >= 0 && o2 >= 0 && o3 >= 0 } else if o < 0 { o1 <= 0 && o2 <= 0 && o3 <= 0 } else { false };
            if inside && !s.contains(&(p.x, p.y)) { f_cover += 1; if shown < 4 { shown += 1; println!("COVER {:?} missing {:?}", t, p); } break; }
        }
        for &p in &s {
            let pp = Point::new(p.0, p.1);
            let (o1, o2, o3) = (orient(a, b, pp), orient(b, c, pp), orient(c, a, pp));
            let inside = if o > 0 { o1 >= 0 && o2 >= 0 && o3 >= 0 } else if o < 0 { o1 <= 0 && o2 <= 0 && o3 <= 0 } else { false };
            if !inside { let d = seg_dist(p, a, b).min(seg_dist(p, b, c)).min(seg_dist(p, c, a)); worst = worst.max(d); if d > 1.0 { f_near += 1; if shown < 8 { shown += 1; println!("NEAR {:?} p={:?} d={:.3}", t, p, d); } break; } }
        }
        // order independence
        for perm in [[a, c, b], [b, a, c], [b, c, a], [c, a, b], [c, b, a]] {
            if set(Triangle::new(perm[0], perm[1], perm[2]).points()) != s { f_order += 1; if shown < 10 { shown += 1; println!("ORDER {:?} vs {:?}", t, perm); } break; }
        }
        // outline 1px == three lines
        let outl: S = t.into_styled(PrimitiveStyle::with_stroke(Rgb888::RED, 1)).pixels().map(|p| (p.0.x, p.0.y)).collect();
        let lines: S = set(Line::new(a, b).points().chain(Line::new(b, c).points()).chain(Line::new(c, a).points()));
        let lines_sorted: S = { let mut v = [a, b, c]; v.sort_by_key(|p| (p.y, p.x)); set(Line::new(v[0], v[1]).points().chain(Line::new(v[0], v[2]).points()).chain(Line::new(v[1], v[2]).points())) };
        if outl != lines && outl != lines_sorted { f_outline += 1; if shown < 12 { shown += 1; println!("OUTLINE {:?} a={} b={}", t, outl == lines, outl == lines_sorted); } }
        // shared edge: triangle a,b,c and a,b,d with d on other side
        let d = q(&mut rng);
        if o != 0 && orient(a, b, d) != 0 && (orient(a, b, d) > 0) != (o > 0) {
            let t2 = Triangle::new(a, b, d); let s2 = set(t2.points());
            // quad interior points must be covered by union
            let bbq = bb.envelope(&t2.bounding_box());
            for p in bbq.points() {
                let in1 = { let (o1, o2, o3) = (orient(a, b, p), orient(b, c, p), orient(c, a, p)); if o > 0 { o1 >= 0 && o2 >= 0 && o3 >= 0 } else { o1 <= 0 && o2 <= 0 && o3 <= 0 } };
                let od = orient(a, b, d);
                let in2 = { let (o1, o2, o3) = (orient(a, b, p), orient(b, d, p), orient(d, a, p)); if od > 0 { o1 >= 0 && o2 >= 0 && o3 >= 0 } else { o1 <= 0 && o2 <= 0 && o3 <= 0 } };
                if (in1 || in2) && !s.contains(&(p.x, p.y)) && !s2.contains(&(p.x, p.y)) { f_gap += 1; break; }
            }
            // same pixels along the shared edge: the Bresenham line of the shared edge (sorted) is in both
            let mut v = [a, b]; v.sort_by_key(|p| (p.y, p.x));
            let e = set(Line::new(v[0], v[1]).points());
            if !e.is_subset(&s) || !e.is_subset(&s2) { f_edge += 1; if shown < 14 { shown += 1; println!("EDGE {:?} {:?}", t, t2); } }
        }
    }
    println!("== C19 tri n={} cover={} near={} (worst {:.3}) order={} outline={} gap={} edge={}", n, f_cover, f_near, worst, f_order, f_outline, f_gap, f_edge);

    // polylines
    let (mut f_seq, mut f_draw, mut n) = (0, 0, 0);
    for _ in 0..30000 {
        let k = rng.range(0, 6) as usize;
        let mut v: Vec<Point> = (0..k).map(|_| Point::new(rng.range(-6, 6), rng.range(-6, 6))).collect();
        if k >= 2 && rng.next() % 3 == 0 { let i = rng.range(1, k as i32 - 1) as usize; v[i] = v[i - 1]; }
        if k >= 3 && rng.next() % 3 == 0 { let i = rng.range(2, k as i32 - 1) as usize; v[i] = v[i - 2]; }
        let tr = Point::new(rng.range(-3, 3), rng.range(-3, 3));
        let pl = Polyline::new(&v).translate(tr);
        let got: Vec<Point> = pl.points().collect();
        let mut exp: Vec<Point> = vec![];
        if k >= 2 { for (i, w) in v.windows(2).enumerate() { let pts: Vec<Point> = Line::new(w[0] + tr, w[1] + tr).points().collect(); exp.extend(pts.into_iter().skip(if i == 0 { 0 } else { 1 })); } }
        n += 1;
        if got != exp { f_seq += 1; if shown < 18 { shown += 1; println!("POLY {:?} got {} exp {}", v, got.len(), exp.len()); } }
        let mut r = Rec::new(true);
        pl.into_styled(PrimitiveStyle::with_stroke(Rgb888::RED, 1)).draw(&mut r).unwrap();
        let m: S = r.map.keys().copied().collect();
        if m != set(exp.iter().copied()) { f_draw += 1; }
    }
    println!("== C19 polyline n={} seq={} draw={}", n, f_seq, f_draw);
    let _: BTreeMap<i32, i32> = BTreeMap::new();
}
