use egx::*;
use embedded_graphics::geometry::{AnchorX, AnchorY};
use std::collections::BTreeSet;

fn pts(r: &Rectangle) -> BTreeSet<(i32, i32)> { r.points().map(|p| (p.x, p.y)).collect() }

fn main() {
    // ---- C16 exhaustive small grid
    let mut rects = vec![];
    for x in -2..=3 { for y in -2..=3 { for w in 0..=4u32 { for h in 0..=4u32 { rects.push(Rectangle::new(Point::new(x, y), Size::new(w, h))); }}}}
    println!("rects {}", rects.len());
    let (mut f_int, mut f_comm, mut f_env, mut n) = (0, 0, 0, 0u64);
    let mut shown = 0;
    let sets: Vec<_> = rects.iter().map(pts).collect();
    for (i, a) in rects.iter().enumerate() { for (j, b) in rects.iter().enumerate() {
        n += 1;
        let r = a.intersection(b);
        let exp: BTreeSet<_> = sets[i].intersection(&sets[j]).copied().collect();
        let got = pts(&r);
        if got != exp || (exp.is_empty() && !r.is_zero_sized()) { f_int += 1; if shown < 5 { shown += 1; println!("INT {:?} {:?} -> {:?}", a, b, r); } }
        if pts(&b.intersection(a)) != got { f_comm += 1; }
        // envelope (zero treated as 1)
        let e = a.envelope(b);
        let fix = |r: &Rectangle| Rectangle::new(r.top_left, Size::new(r.size.width.max(1), r.size.height.max(1)));
        let (fa, fb) = (fix(a), fix(b));
        let minx = fa.top_left.x.min(fb.top_left.x); let miny = fa.top_left.y.min(fb.top_left.y);
        let maxx = (fa.top_left.x + fa.size.width as i32).max(fb.top_left.x + fb.size.width as i32);
        let maxy = (fa.top_left.y + fa.size.height as i32).max(fb.top_left.y + fb.size.height as i32);
        let exp_e = Rectangle::new(Point::new(minx, miny), Size::new((maxx - minx) as u32, (maxy - miny) as u32));
        if e != exp_e { f_env += 1; if shown < 8 { shown += 1; println!("ENV {:?} {:?} -> {:?} exp {:?}", a, b, e, exp_e); } }
    }}
    println!("== C16 pairs {} int={} comm={} env={}", n, f_int, f_comm, f_env);
    // single-rect ops
    let (mut f_br, mut f_center, mut f_wc, mut f_corners, mut f_anchor, mut f_resize, mut f_offset, mut f_rows) = (0, 0, 0, 0, 0, 0, 0, 0);
    let anchors = [AnchorPoint::TopLeft, AnchorPoint::TopCenter, AnchorPoint::TopRight, AnchorPoint::CenterLeft, AnchorPoint::Center, AnchorPoint::CenterRight, AnchorPoint::BottomLeft, AnchorPoint::BottomCenter, AnchorPoint::BottomRight];
    let mut rng = Rng(5);
    let mut more = rects.clone();
    for _ in 0..5000 { more.push(Rectangle::new(Point::new(rng.range(-1 << 20, 1 << 20), rng.range(-1 << 20, 1 << 20)), Size::new(rng.range(0, 1 << 20) as u32, rng.range(0, 1 << 20) as u32))); }
    for r in &more {
        let (x0, y0, w, h) = (r.top_left.x as i64, r.top_left.y as i64, r.size.width as i64, r.size.height as i64);
        let br = r.bottom_right();
        let expbr = if w > 0 && h > 0 { Some(Point::new((x0 + w - 1) as i32, (y0 + h - 1) as i32)) } else { None };
        if br != expbr { f_br += 1; }
        let c = r.center();
        let expc = Point::new((x0 + (w - 1).max(0) / 2) as i32, (y0 + (h - 1).max(0) / 2) as i32);
        if c != expc { f_center += 1; }
        if Rectangle::with_center(r.center(), r.size) != *r { f_wc += 1; }
        if let Some(br) = br { if Rectangle::with_corners(r.top_left, br) != *r || Rectangle::with_corners(br, r.top_left) != *r { f_corners += 1; } }
        if r.rows() != (y0 as i32..(y0 + h) as i32) || r.columns() != (x0 as i32..(x0 + w) as i32) { f_rows += 1; }
        for a in anchors {
            let p = r.anchor_point(a);
            let ex = match a.x() { AnchorX::Left => x0, AnchorX::Center => x0 + (w.max(1) - 1) / 2, AnchorX::Right => x0 + w.max(1) - 1 };
            let ey = match a.y() { AnchorY::Top => y0, AnchorY::Center => y0 + (h.max(1) - 1) / 2, AnchorY::Bottom => y0 + h.max(1) - 1 };
            if (p.x as i64, p.y as i64) != (ex, ey) { f_anchor += 1; }
            let ns = Size::new(rng.range(0, 40) as u32, rng.range(0, 40) as u32);
            let rs = r.resized(ns, a);
            let q = rs.anchor_point(a);
            let tol_x = if a.x() == AnchorX::Center { 1 } else { 0 }; let tol_y = if a.y() == AnchorY::Center { 1 } else { 0 };
            if rs.size != ns || (q.x - p.x).abs() > tol_x || (q.y - p.y).abs() > tol_y { f_resize += 1; if shown < 12 { shown += 1; println!("RESIZE {:?} {:?} {:?} -> {:?} anchor {:?} -> {:?}", r, ns, a, rs, p, q); } }
        }
        for o in -5..=5i32 {
            let q = r.offset(o);
            // each side moves by o (when not collapsing)
            if w as i32 + 2 * o > 0 && h as i32 + 2 * o > 0 && w > 0 && h > 0 {
                let exp = Rectangle::new(Point::new(x0 as i32 - o, y0 as i32 - o), Size::new((w as i32 + 2 * o) as u32, (h as i32 + 2 * o) as u32));
                if q != exp { f_offset += 1; if shown < 14 { shown += 1; println!("OFFSET {:?} {} -> {:?} exp {:?}", r, o, q, exp); } }
            }
        }
    }
    println!("== C16 single n={} br={} center={} with_center={} corners={} anchor={} resize={} offset={} rows={}", more.len(), f_br, f_center, f_wc, f_corners, f_anchor, f_resize, f_offset, f_rows);

    // ---- C17 lines
    let (mut f_thin, mut f_thick, mut n) = (0, 0, 0);
    let mut maxdev: f64 = 0.0; let mut max_end: f64 = 0.0; let mut min_width_def: f64 = 10.0; let mut shown = 0;
    let r = 7;
    for x0 in [-2, 0, 3] { for y0 in [-1, 0] { for x1 in -r..=r { for y1 in -r..=r {
        let (s, e) = (Point::new(x0, y0), Point::new(x0 + x1, y0 + y1));
        let l = Line::new(s, e);
        let p: Vec<Point> = l.points().collect();
        n += 1;
        let (dx, dy) = (x1 as f64, y1 as f64); let len = (dx * dx + dy * dy).sqrt();
        let mut ok = p.first() == Some(&s) && p.last() == Some(&e) && p.len() as i32 == x1.abs().max(y1.abs()) + 1;
        for w in p.windows(2) { let d = w[1] - w[0]; let (maj, min) = if x1.abs() >= y1.abs() { (d.x, d.y) } else { (d.y, d.x) }; if maj.abs() != 1 || min.abs() > 1 { ok = false; } }
        for q in &p { if len > 0.0 { let dist = ((q.x - s.x) as f64 * dy - (q.y - s.y) as f64 * dx).abs() / len; let vd = if x1.abs() >= y1.abs() { dist * len / dx.abs() } else { dist * len / dy.abs() }; if vd > 0.5 + 1e-9 { ok = false; } } }
        if !ok { f_thin += 1; if shown < 4 { shown += 1; println!("THIN {:?} {:?}", l, p); } }
        for w in 1..=9u32 {
            let px: Vec<Point> = l.into_styled(PrimitiveStyle::with_stroke(Rgb888::RED, w)).pixels().map(|p| p.0).collect();
            let set: BTreeSet<(i32, i32)> = px.iter().map(|p| (p.x, p.y)).collect();
            let mut ok = set.len() == px.len();
            if !p.iter().all(|q| set.contains(&(q.x, q.y))) { ok = false; }
            if w == 1 && px != p { ok = false; }
            for q in &px {
                if len > 0.0 {
                    let dist = ((q.x - s.x) as f64 * dy - (q.y - s.y) as f64 * dx).abs() / len;
                    maxdev = maxdev.max(dist - w as f64 / 2.0);
                    let t = ((q.x - s.x) as f64 * dx + (q.y - s.y) as f64 * dy) / len; // along
                    let over = (-t).max(t - len);
                    max_end = max_end.max(over);
                } else {
                    // zero length
                }
            }
            // width at the middle: count pixels along the perpendicular through midpoint? approximate: count distinct perpendicular offsets near middle
            if len >= 4.0 {
                let mid = (len / 2.0).floor();
                let offs: Vec<f64> = px.iter().filter_map(|q| { let t = ((q.x - s.x) as f64 * dx + (q.y - s.y) as f64 * dy) / len; if (t - mid).abs() <= 0.75 { Some(((q.x - s.x) as f64 * dy - (q.y - s.y) as f64 * dx) / len) } else { None } }).collect();
                if !offs.is_empty() { let wd = offs.iter().cloned().fold(f64::MIN, f64::max) - offs.iter().cloned().fold(f64::MAX, f64::min) + 1.0; min_width_def = min_width_def.min(wd - (w as f64 - 1.0)); }
            }
            if !ok { f_thick += 1; if shown < 8 { shown += 1; println!("THICK {:?} w={} dup={} ", l, w, set.len() != px.len()); } }
        }
    }}}}
    println!("== C17 n={} thin={} thick={} max(dist - w/2)={:.3} max_end_overshoot={:.3} min(width_mid-(w-1))={:.3}", n, f_thin, f_thick, maxdev, max_end, min_width_def);
}
