use egx::*;
use std::collections::BTreeMap;
use std::panic::{catch_unwind, AssertUnwindSafe};

type Map = BTreeMap<(i32, i32), Rgb888>;

fn three<S>(s: &S, pix: Option<Vec<Pixel<Rgb888>>>) -> (Map, Map, Option<Map>)
where S: Drawable<Color = Rgb888> {
    let mut a = IterOnly(Rec::new(false));
    let _ = s.draw(&mut a);
    let mut b = Rec::new(true);
    let _ = s.draw(&mut b);
    let c = pix.map(|v| { let mut c = IterOnly(Rec::new(false)); c.draw_iter(v).unwrap(); c.0.map });
    (a.0.map, b.map, c)
}

struct Stat { n: usize, f_native: usize, f_pixels: usize, f_bb: usize, f_transp: usize, f_trans: usize, panics: usize, shown: usize }

macro_rules! run { ($name:expr, $st:expr, $p:expr, $style:expr, $d:expr) => {{
    let name = $name; let st: &mut Stat = $st; let p = $p; let style = $style; let d = $d;
    st.n += 1;
    let r = catch_unwind(AssertUnwindSafe(|| {
        let s = p.into_styled(style);
        let pix: Vec<_> = s.pixels().take(3_000_000).collect();
        let (a, b, c) = three(&s, Some(pix));
        let bb = s.bounding_box();
        let t = p.translate(d).into_styled(style);
        let (ta, _, _) = three(&t, None);
        let shifted: Map = a.iter().map(|(k, v)| ((k.0 + d.x, k.1 + d.y), *v)).collect();
        (a.clone() == b, Some(a.clone()) == c, a.keys().all(|k| bb.contains(Point::new(k.0, k.1))), !(style.is_transparent() && !a.is_empty()), shifted == ta)
    }));
    match r {
        Err(_) => { st.panics += 1; if st.shown < 8 { st.shown += 1; println!("{} PANIC {:?} {:?}", name, p, style); } }
        Ok((n, px, bb, tr, tl)) => {
            let mut m = String::new();
            if !n { st.f_native += 1; m += "native "; }
            if !px { st.f_pixels += 1; m += "pixels "; }
            if !bb { st.f_bb += 1; m += "bbox "; }
            if !tr { st.f_transp += 1; m += "transp "; }
            if !tl { st.f_trans += 1; m += "translate "; }
            if !m.is_empty() && st.shown < 8 { st.shown += 1; println!("{} FAIL[{}] {:?} sw={} al={:?} fill={} stroke={} d={:?}", name, m, p, style.stroke_width, style.stroke_alignment, style.fill_color.is_some(), style.stroke_color.is_some(), d); }
        }
    }
}}}
fn report(name: &str, st: &Stat) {
    println!("== {}: n={} native={} pixels={} bbox={} transp={} translate={} panics={}", name, st.n, st.f_native, st.f_pixels, st.f_bb, st.f_transp, st.f_trans, st.panics);
}
fn new() -> Stat { Stat { n: 0, f_native: 0, f_pixels: 0, f_bb: 0, f_transp: 0, f_trans: 0, panics: 0, shown: 0 } }

fn main() {
    std::panic::set_hook(Box::new(|_| {}));
    let mut rng = Rng(777);
    let n = 6000;
    let mut st = new();
    for _ in 0..n {
        let p = Rectangle::new(Point::new(rng.range(-6, 6), rng.range(-6, 6)), Size::new(rng.range(0, 12) as u32, rng.range(0, 12) as u32));
        let s = styles(&mut rng, 8); let d = Point::new(rng.range(-9, 9), rng.range(-9, 9));
        run!("rect", &mut st, p, s, d);
    }
    report("rect", &st);
    let mut st = new();
    for _ in 0..n {
        let p = Circle::new(Point::new(rng.range(-6, 6), rng.range(-6, 6)), rng.range(0, 20) as u32);
        let s = styles(&mut rng, 8); let d = Point::new(rng.range(-9, 9), rng.range(-9, 9));
        run!("circle", &mut st, p, s, d);
    }
    report("circle", &st);
    let mut st = new();
    for _ in 0..n {
        let p = Ellipse::new(Point::new(rng.range(-6, 6), rng.range(-6, 6)), Size::new(rng.range(0, 20) as u32, rng.range(0, 20) as u32));
        let s = styles(&mut rng, 8); let d = Point::new(rng.range(-9, 9), rng.range(-9, 9));
        run!("ellipse", &mut st, p, s, d);
    }
    report("ellipse", &st);
    let mut st = new();
    for _ in 0..n {
        let mut r = |rng: &mut Rng| Size::new(rng.range(0, 8) as u32, rng.range(0, 8) as u32);
        let radii = if rng.next() % 2 == 0 { CornerRadii::new(r(&mut rng)) } else { CornerRadii { top_left: r(&mut rng), top_right: r(&mut rng), bottom_right: r(&mut rng), bottom_left: r(&mut rng) } };
        let p = RoundedRectangle::new(Rectangle::new(Point::new(rng.range(-6, 6), rng.range(-6, 6)), Size::new(rng.range(0, 20) as u32, rng.range(0, 20) as u32)), radii);
        let s = styles(&mut rng, 8); let d = Point::new(rng.range(-9, 9), rng.range(-9, 9));
        run!("rrect", &mut st, p, s, d);
    }
    report("rrect", &st);
    let mut st = new();
    for _ in 0..n {
        let mut q = |rng: &mut Rng| Point::new(rng.range(-10, 10), rng.range(-10, 10));
        let p = Triangle::new(q(&mut rng), q(&mut rng), q(&mut rng));
        let s = styles(&mut rng, 8); let d = Point::new(rng.range(-9, 9), rng.range(-9, 9));
        run!("tri", &mut st, p, s, d);
    }
    report("tri", &st);
    let mut st = new();
    for _ in 0..n {
        let mut q = |rng: &mut Rng| Point::new(rng.range(-10, 10), rng.range(-10, 10));
        let p = Line::new(q(&mut rng), q(&mut rng));
        let s = styles(&mut rng, 8); let d = Point::new(rng.range(-9, 9), rng.range(-9, 9));
        run!("line", &mut st, p, s, d);
    }
    report("line", &st);
    let mut st = new();
    for _ in 0..n {
        let p = Arc::new(Point::new(rng.range(-6, 6), rng.range(-6, 6)), rng.range(0, 20) as u32, (rng.range(-400, 400) as f32).deg(), (rng.range(-400, 400) as f32).deg());
        let s = styles(&mut rng, 8); let d = Point::new(rng.range(-9, 9), rng.range(-9, 9));
        run!("arc", &mut st, p, s, d);
    }
    report("arc", &st);
    let mut st = new();
    for _ in 0..n {
        let p = Sector::new(Point::new(rng.range(-6, 6), rng.range(-6, 6)), rng.range(0, 20) as u32, (rng.range(-400, 400) as f32).deg(), (rng.range(-400, 400) as f32).deg());
        let s = styles(&mut rng, 8); let d = Point::new(rng.range(-9, 9), rng.range(-9, 9));
        run!("sector", &mut st, p, s, d);
    }
    report("sector", &st);
}
