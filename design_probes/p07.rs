use egx::*;
use std::collections::BTreeMap;
type Map = BTreeMap<(i32, i32), Rgb888>;
fn main() {
    let mut rng = Rng(7);
    let (mut n, mut f_t, mut f_p, mut f_p2, mut f_bb) = (0, 0, 0, 0, 0); let mut shown = 0;
    let mut by_w = [0usize; 12]; let mut by_al = [0usize; 3];
    for _ in 0..30000 {
        let mut q = |rng: &mut Rng| Point::new(rng.range(-10, 10), rng.range(-10, 10));
        let t = Triangle::new(q(&mut rng), q(&mut rng), q(&mut rng));
        let w = rng.range(0, 10) as u32; let al = rng.range(0, 2) as usize;
        let style = PrimitiveStyleBuilder::new().stroke_color(Rgb888::RED).fill_color(Rgb888::GREEN).stroke_width(w).stroke_alignment([StrokeAlignment::Inside, StrokeAlignment::Center, StrokeAlignment::Outside][al]).build();
        let d = Point::new(rng.range(-25, 25), rng.range(-25, 25));
        let mut a = Rec::new(true); t.into_styled(style).draw(&mut a).unwrap();
        let mut b = Rec::new(true); t.translate(d).into_styled(style).draw(&mut b).unwrap();
        let sh: Map = a.map.iter().map(|(k, v)| ((k.0 + d.x, k.1 + d.y), *v)).collect();
        n += 1;
        if sh != b.map { f_t += 1; by_w[w as usize] += 1; by_al[al] += 1; if shown < 5 { shown += 1; println!("TRI {:?} w={} al={} d={:?} diff={}", t, w, al, d, sh.iter().filter(|(k, v)| b.map.get(k) != Some(v)).count() + b.map.keys().filter(|k| !sh.contains_key(k)).count()); } }
        if t.into_styled(style).bounding_box().translate(d) != t.translate(d).into_styled(style).bounding_box() { f_bb += 1; }
        // polyline
        let k = rng.range(0, 6) as usize;
        let v: Vec<Point> = (0..k).map(|_| q(&mut rng)).collect();
        let v2: Vec<Point> = v.iter().map(|p| *p + d).collect();
        let st = PrimitiveStyle::with_stroke(Rgb888::RED, w);
        let mut a = Rec::new(true); Polyline::new(&v).into_styled(st).draw(&mut a).unwrap();
        let mut b = Rec::new(true); Polyline::new(&v).translate(d).into_styled(st).draw(&mut b).unwrap();
        let mut c = Rec::new(true); Polyline::new(&v2).into_styled(st).draw(&mut c).unwrap();
        let sh: Map = a.map.iter().map(|(k, v)| ((k.0 + d.x, k.1 + d.y), *v)).collect();
        if sh != b.map { f_p += 1; }
        if sh != c.map { f_p2 += 1; if shown < 10 { shown += 1; println!("POLY-moved-vertices {:?} w={} d={:?}", v, w, d); } }
    }
    println!("== C07 n={} tri={} tri_bbox={} poly_translate={} poly_moved_vertices={} by_w={:?} by_al={:?}", n, f_t, f_bb, f_p, f_p2, by_w, by_al);
}
