use egx::*;
use embedded_graphics::image::ImageRaw;
use embedded_graphics::mono_font::{mapping::StrGlyphMapping, DecorationDimensions, MonoFont, MonoTextStyleBuilder};
use embedded_graphics::text::{renderer::TextRenderer, Baseline, Text};
fn main() {
    let data = [0xAAu8; 6 * 4]; // 16x12 px atlas: 2 bytes per row
    let mapping = StrGlyphMapping::new("\0ah", 0);
    for spacing in [0u32, 1, 3] {
        let font = MonoFont { image: ImageRaw::new(&data[..24], Size::new(16, 12)).unwrap(), character_size: Size::new(4, 6), character_spacing: spacing, baseline: 4, strikethrough: DecorationDimensions::new(3, 1), underline: DecorationDimensions::new(6, 1), glyph_mapping: &mapping };
        for (fg, bg, ul) in [(true, false, false), (false, true, false), (false, false, false), (false, false, true), (true, true, true)] {
            let mut b = MonoTextStyleBuilder::<Rgb888>::new().font(&font);
            if fg { b = b.text_color(Rgb888::WHITE); } if bg { b = b.background_color(Rgb888::BLUE); } if ul { b = b.underline_with_color(Rgb888::RED); }
            let st = b.build();
            for s in ["", "a", "abc"] {
                let mut r = Rec::new(true);
                let p = Text::with_baseline(s, Point::new(2, 3), st, Baseline::Top).draw(&mut r).unwrap();
                let m = st.measure_string(s, Point::new(2, 3), Baseline::Top);
                let bb = Text::with_baseline(s, Point::new(2, 3), st, Baseline::Top).bounding_box();
                let inside = r.map.keys().all(|k| bb.contains(Point::new(k.0, k.1)));
                if p != m.next_position || !inside { println!("spacing={} fg={} bg={} ul={} s={:?}: draw->{:?} measure->{:?} bbox_ok={}", spacing, fg, bg, ul, s, p, m.next_position, inside); }
            }
        }
    }
    println!("done");
}
