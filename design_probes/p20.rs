use egx::*;
use embedded_graphics::mock_display::MockDisplay;
use std::collections::BTreeMap;
use std::panic::{catch_unwind, AssertUnwindSafe};
fn main() {
    std::panic::set_hook(Box::new(|_| {}));
    let mut rng = Rng(20);
    let (mut n, mut f_panic, mut f_state, mut f_area, mut f_rt, mut f_eq) = (0, 0, 0, 0, 0, 0);
    for _ in 0..3000 {
        let (ao, ab) = (rng.next() % 2 == 0, rng.next() % 2 == 0);
        let mut d = MockDisplay::<Gray4>::new(); d.set_allow_overdraw(ao); d.set_allow_out_of_bounds_drawing(ab);
        let mut model: BTreeMap<(i32, i32), Gray4> = BTreeMap::new();
        let steps = rng.range(0, 30);
        for _ in 0..steps {
            let p = match rng.next() % 8 { 0 => Point::new(rng.range(-3, 67), rng.range(-3, 67)), 1 => *model.keys().next().map(|k| Point::new(k.0, k.1)).as_ref().unwrap_or(&Point::new(1, 1)), _ => Point::new(rng.range(0, 63), rng.range(0, 63)) };
            let c = Gray4::new(rng.next() as u8);
            let inside = p.x >= 0 && p.y >= 0 && p.x < 64 && p.y < 64;
            let should_panic = (!inside && !ab) || (inside && !ao && model.contains_key(&(p.x, p.y)));
            let mut d2 = d.clone();
            let r = catch_unwind(AssertUnwindSafe(|| { Pixel(p, c).draw(&mut d2).unwrap(); d2 }));
            n += 1;
            match r { Ok(nd) => { if should_panic { f_panic += 1; } d = nd; if inside { model.insert((p.x, p.y), c); } }, Err(_) => { if !should_panic { f_panic += 1; } } }
            for y in 0..64 { for x in 0..64 { if d.get_pixel(Point::new(x, y)) != model.get(&(x, y)).copied() { f_state += 1; } } }
        }
        let exp_area = if model.is_empty() { Rectangle::zero() } else { let (x0, x1, y0, y1) = model.keys().fold((99, -1, 99, -1), |a, k| (a.0.min(k.0), a.1.max(k.0), a.2.min(k.1), a.3.max(k.1))); Rectangle::new(Point::new(x0, y0), Size::new((x1 - x0 + 1) as u32, (y1 - y0 + 1) as u32)) };
        if d.affected_area() != exp_area { f_area += 1; }
        // debug roundtrip
        let s = format!("{:?}", d);
        let lines: Vec<&str> = s.lines().filter(|l| !l.starts_with("MockDisplay[") && !l.starts_with("]") && !l.starts_with("(")).collect();
        let d3 = MockDisplay::<Gray4>::from_pattern(&lines);
        if d3 != d { f_rt += 1; }
        let mut d4 = d.clone(); d4.set_allow_overdraw(true);
        let q = Point::new(rng.range(0, 63), rng.range(0, 63));
        Pixel(q, Gray4::new(rng.next() as u8)).draw(&mut d4).unwrap();
        let same = (0..64).all(|y| (0..64).all(|x| d4.get_pixel(Point::new(x, y)) == d.get_pixel(Point::new(x, y))));
        if (d4 == d) != same { f_eq += 1; }
        let diff = d4.diff(&d);
        let diff_empty = diff.affected_area().is_zero_sized();
        if diff_empty != same { f_eq += 1; }
    }
    println!("== C20 steps={} panic_mismatch={} state={} area={} roundtrip={} eq/diff={}", n, f_panic, f_state, f_area, f_rt, f_eq);
}
