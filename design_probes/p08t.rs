use egx::*;
use egx::fonts::FONTS;
use embedded_graphics::image::{GetPixel, Image, ImageRaw, ImageDrawableExt};
use embedded_graphics::mono_font::{mapping::StrGlyphMapping, DecorationDimensions, MonoFont, MonoTextStyleBuilder};
use embedded_graphics::text::{Alignment, Baseline, LineHeight, Text, TextStyleBuilder};
use std::alloc::{GlobalAlloc, Layout, System};
use std::cell::Cell;
use std::panic::{catch_unwind, AssertUnwindSafe};
use std::sync::Mutex;
use std::collections::BTreeMap;

struct Counting;
thread_local! { static ARMED: Cell<bool> = const { Cell::new(false) }; static COUNT: Cell<usize> = const { Cell::new(0) }; }
unsafe impl GlobalAlloc for Counting {
    unsafe fn alloc(&self, l: Layout) -> *mut u8 { let _ = ARMED.try_with(|a| if a.get() { let _ = COUNT.try_with(|c| c.set(c.get() + 1)); }); System.alloc(l) }
    unsafe fn dealloc(&self, p: *mut u8, l: Layout) { System.dealloc(p, l) }
}
#[global_allocator] static A: Counting = Counting;

struct Null(Rectangle, u64);
impl Dimensions for Null { fn bounding_box(&self) -> Rectangle { self.0 } }
impl DrawTarget for Null {
    type Color = Rgb888; type Error = core::convert::Infallible;
    fn draw_iter<I: IntoIterator<Item = Pixel<Rgb888>>>(&mut self, p: I) -> Result<(), Self::Error> { for Pixel(q, _) in p { self.1 = self.1.wrapping_add(q.x as u64); } Ok(()) }
    fn fill_solid(&mut self, a: &Rectangle, _c: Rgb888) -> Result<(), Self::Error> { self.1 += a.size.width as u64; Ok(()) }
}
static LOCS: Mutex<BTreeMap<String, (usize, String)>> = Mutex::new(BTreeMap::new());
static CUR: Mutex<String> = Mutex::new(String::new());
fn b(rng: &mut Rng) -> i32 { match rng.next() % 3 { 0 => rng.pick(&[0, 1, 2, 63, 64, 65, 255, 256, 257, 1024, -1, -64, -1024]), 1 => rng.range(-1024, 1024), _ => rng.range(-40, 40) } }

fn main() {
    std::panic::set_hook(Box::new(|info| {
        let loc = info.location().map(|l| format!("{}:{}", l.file().rsplit("/repo/").next().unwrap_or(""), l.line())).unwrap_or_default();
        let msg = if let Some(s) = info.payload().downcast_ref::<&str>() { s.to_string() } else if let Some(s) = info.payload().downcast_ref::<String>() { s.clone() } else { "?".into() };
        let cur = CUR.lock().unwrap().clone();
        let mut l = LOCS.lock().unwrap(); let e = l.entry(format!("{} :: {}", loc, msg)).or_insert((0, cur)); e.0 += 1;
    }));
    let mut rng = Rng(808);
    let mut allocs = 0usize; let mut n = 0; let mut panics = 0;
    let data = vec![0x5Au8; 64 * 64];
    let map2 = StrGlyphMapping::new("\0az", 3);
    for it in 0..20000 {
        let strings = ["", "a", "Hello\nWorld", "\n\n", "x\r\ny\u{1F600}\u{0}", "AAAAAAAAAAAAAAAAAAAAAAAAAAAAAAAAAAAAAAAAAAAAAAAAAAAAAAAA"];
        let s = strings[(rng.next() % strings.len() as u64) as usize];
        // fonts: built-in or degenerate custom
        let cw = rng.range(0, 9) as u32; let ch = rng.range(0, 9) as u32; let iw = rng.range(0, 17) as u32; let ih = rng.range(0, 9) as u32;
        let bytes = ((iw as usize + 7) / 8) * ih as usize;
        let custom = MonoFont { image: ImageRaw::new(&data[..bytes], Size::new(iw, ih)).unwrap(), character_size: Size::new(cw, ch), character_spacing: rng.range(0, 1030) as u32 * (rng.next() % 2) as u32, baseline: rng.range(0, 20) as u32, strikethrough: DecorationDimensions::new(rng.range(0, 1024) as u32, rng.range(0, 1024) as u32), underline: DecorationDimensions::new(rng.range(0, 20) as u32, rng.range(0, 3) as u32), glyph_mapping: &map2 };
        let font: &MonoFont = if it % 3 == 0 { &custom } else { FONTS[(rng.next() % FONTS.len() as u64) as usize].1 };
        let mut bld = MonoTextStyleBuilder::new().font(font);
        if rng.next() % 4 != 0 { bld = bld.text_color(Rgb888::WHITE); }
        if rng.next() % 2 == 0 { bld = bld.background_color(Rgb888::BLUE); }
        if rng.next() % 2 == 0 { bld = bld.underline_with_color(Rgb888::RED); }
        if rng.next() % 2 == 0 { bld = bld.strikethrough(); }
        let lh = if rng.next() % 2 == 0 { LineHeight::Pixels(rng.range(0, 1024) as u32) } else { LineHeight::Percent(rng.range(0, 400) as u32) };
        let ts = TextStyleBuilder::new().alignment(rng.pick(&[Alignment::Left, Alignment::Center, Alignment::Right])).baseline(rng.pick(&[Baseline::Top, Baseline::Middle, Baseline::Alphabetic, Baseline::Bottom])).line_height(lh).build();
        let pos = Point::new(b(&mut rng), b(&mut rng));
        let tx = Text::with_text_style(s, pos, bld.build(), ts);
        // image
        let bpp_img = ImageRaw::<Rgb888>::new(&data[..(iw * ih * 3) as usize], Size::new(iw, ih)).unwrap();
        let area = Rectangle::new(Point::new(b(&mut rng), b(&mut rng)), Size::new(b(&mut rng).unsigned_abs(), b(&mut rng).unsigned_abs()));
        let clip = Rectangle::new(Point::new(b(&mut rng), b(&mut rng)), Size::new(rng.range(1, 1024) as u32, rng.range(1, 1024) as u32));
        *CUR.lock().unwrap() = format!("text {:?} custom={} font cs={:?} img={:?} pos={:?} {:?} | area {:?}", s, it % 3 == 0, font.character_size, font.image.size(), pos, ts, area);
        n += 1;
        let mut t = Null(Rectangle::new(Point::new(-2000, -2000), Size::new(4000, 4000)), 0);
        ARMED.with(|a| a.set(true));
        let r = catch_unwind(AssertUnwindSafe(|| {
            let _ = tx.bounding_box();
            let _ = tx.draw(&mut t);
            let _ = tx.draw(&mut t.clipped(&clip));
            let _ = tx.draw(&mut t.cropped(&clip).translated(pos));
            let im = Image::new(&bpp_img, pos); let _ = im.bounding_box(); let _ = im.draw(&mut t); let _ = im.draw(&mut t.clipped(&clip));
            let sub = bpp_img.sub_image(&area); let _ = Image::new(&sub, pos).draw(&mut t); let sub2 = sub.sub_image(&clip); let _ = Image::with_center(&sub2, pos).draw(&mut t);
            let _ = bpp_img.pixel(pos); let _ = bpp_img.pixel(area.top_left);
        }));
        ARMED.with(|a| a.set(false));
        if r.is_err() { panics += 1; COUNT.with(|c| c.set(0)); } else { allocs += COUNT.with(|c| c.replace(0)); }
    }
    println!("== C08 text/image n={} panics={} allocations={}", n, panics, allocs);
    for (k, (n, ex)) in LOCS.lock().unwrap().iter() { println!("{:6} {}\n        e.g. {}", n, k, &ex[..ex.len().min(400)]); }
}
