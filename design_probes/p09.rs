use egx::*;
use embedded_graphics::image::{GetPixel, Image, ImageDrawableExt, ImageRaw};
use embedded_graphics::iterator::raw::RawDataSlice;
use embedded_graphics::pixelcolor::raw::*;
use embedded_graphics::framebuffer::{buffer_size, Framebuffer};
use std::collections::BTreeMap;

fn img_probe<C, O>(name: &str, rng: &mut Rng)
where C: PixelColor + core::fmt::Debug, O: DataOrder,
      for<'a> RawDataSlice<'a, C::Raw, O>: IntoIterator<Item = C::Raw>,
{
    let bpp = C::Raw::BITS_PER_PIXEL;
    let mut f_new = 0; let mut f_draw = 0; let mut f_sub = 0; let mut f_cnt = 0; let mut f_subcnt = 0; let mut n = 0; let mut shown = 0;
    for _ in 0..3000 {
        let w = rng.range(0, 11) as u32; let h = rng.range(0, 7) as u32;
        let len = ((w as usize * bpp + 7) / 8) * h as usize;
        let data: Vec<u8> = (0..len).map(|_| rng.next() as u8).collect();
        // wrong lengths rejected
        if len > 0 { if ImageRaw::<C, O>::new(&data[..len - 1], Size::new(w, h)).is_ok() { f_new += 1; } }
        let mut d2 = data.clone(); d2.push(0);
        if ImageRaw::<C, O>::new(&d2, Size::new(w, h)).is_ok() { f_new += 1; }
        let img = match ImageRaw::<C, O>::new(&data, Size::new(w, h)) { Ok(i) => i, Err(_) => { f_new += 1; continue; } };
        n += 1;
        let o = Point::new(rng.range(-5, 5), rng.range(-5, 5));
        let mut t = Rec::<C>::new(true);
        Image::new(&img, o).draw(&mut t).unwrap();
        let mut exp = BTreeMap::new();
        for y in 0..h as i32 { for x in 0..w as i32 { exp.insert((x + o.x, y + o.y), img.pixel(Point::new(x, y)).unwrap()); } }
        if exp != t.map { f_draw += 1; }
        if t.pulled.iter().any(|&p| p != (w * h) as usize) { f_cnt += 1; if shown < 3 { shown += 1; println!("{} full image {}x{} pulled {:?}", name, w, h, t.pulled); } }
        // sub image
        let a = Rectangle::new(Point::new(rng.range(-3, 8), rng.range(-3, 6)), Size::new(rng.range(0, 9) as u32, rng.range(0, 7) as u32));
        let sub = img.sub_image(&a);
        let eff = a.intersection(&Rectangle::new(Point::zero(), Size::new(w, h)));
        let mut t = Rec::<C>::new(true);
        Image::new(&sub, o).draw(&mut t).unwrap();
        let mut exp = BTreeMap::new();
        for p in Rectangle::new(Point::zero(), eff.size).points() { exp.insert((p.x + o.x, p.y + o.y), img.pixel(p + eff.top_left).unwrap()); }
        if exp != t.map { f_sub += 1; if shown < 6 { shown += 1; println!("{} sub mismatch img {}x{} area {:?}", name, w, h, a); } }
        if t.pulled.iter().any(|&p| p != (eff.size.width * eff.size.height) as usize) { f_subcnt += 1; if shown < 6 { shown += 1; println!("{} sub {}x{} area {:?} pulled {:?} expected {}", name, w, h, a, t.pulled, eff.size.width * eff.size.height); } }
    }
    println!("== img {}: n={} new={} draw={} sub={} cnt={} subcnt={}", name, n, f_new, f_draw, f_sub, f_cnt, f_subcnt);
}

fn ls_probe<R: RawData + Copy + PartialEq + core::fmt::Debug, O: DataOrder>(name: &str, rng: &mut Rng) where R::Storage: Into<u64> + Copy {
    let bpp = R::BITS_PER_PIXEL;
    let mut f_rt = 0; let mut f_other = 0; let mut f_oob = 0; let mut f_iter = 0; let mut f_hint = 0; let mut n = 0; let mut shown = 0;
    for _ in 0..4000 {
        let len = rng.range(0, 9) as usize;
        let buf: Vec<u8> = (0..len).map(|_| rng.next() as u8).collect();
        let npix = len * 8 / bpp;
        let i = rng.range(0, npix as i32 + 3) as usize;
        let v = R::from_u32(rng.next() as u32);
        let mut b2 = buf.clone();
        let r = v.store::<O>(&mut b2, i);
        n += 1;
        if i < npix {
            if r.is_err() { f_oob += 1; continue; }
            let back = R::load::<O>(&b2, i);
            if back != Some(v) { f_rt += 1; if shown < 2 { shown += 1; println!("{} store/load idx {} v {:?} back {:?} buf {:x?}->{:x?}", name, i, v, back, buf, b2); } }
            // other pixels unchanged
            for j in 0..npix { if j != i && R::load::<O>(&b2, j) != R::load::<O>(&buf, j) { f_other += 1; break; } }
        } else {
            if r.is_ok() || b2 != buf || R::load::<O>(&buf, i).is_some() { f_oob += 1; if shown < 4 { shown += 1; println!("{} oob idx {} npix {} len {} r {:?}", name, i, npix, len, r); } }
        }
        let items: Vec<R> = RawDataSlice::<R, O>::new(&buf).into_iter().collect();
        let exp: Vec<R> = (0..).map_while(|j| R::load::<O>(&buf, j)).collect();
        if items != exp { f_iter += 1; }
        let it = RawDataSlice::<R, O>::new(&buf).into_iter();
        let (lo, hi) = it.size_hint();
        if lo > items.len() || hi.map_or(false, |h| h < items.len()) { f_hint += 1; if shown < 6 { shown += 1; println!("{} size_hint {:?} actual {}", name, (lo, hi), items.len()); } }
    }
    println!("== raw {}: n={} roundtrip={} other={} oob={} iter={} hint={}", name, n, f_rt, f_other, f_oob, f_iter, f_hint);
}

macro_rules! fb_probe { ($name:expr, $c:ty, $o:ty, $w:expr, $h:expr, $rng:expr, $mk:expr) => {{
    const N: usize = buffer_size::<$c>($w, $h) + 3;
    let mut fb = Framebuffer::<$c, <$c as PixelColor>::Raw, $o, $w, $h, N>::new();
    let mut model: BTreeMap<(i32, i32), $c> = BTreeMap::new();
    let mut f = 0; let mut f_tail = 0;
    for _ in 0..400 {
        let p = Point::new($rng.range(-2, $w + 1), $rng.range(-2, $h + 1));
        let c: $c = $mk($rng.next() as u32);
        fb.set_pixel(p, c);
        if p.x >= 0 && p.y >= 0 && p.x < $w && p.y < $h { model.insert((p.x, p.y), c); }
        for y in -1..=$h { for x in -1..=$w {
            let inside = x >= 0 && y >= 0 && x < $w && y < $h;
            let got = fb.pixel(Point::new(x, y));
            let exp = if inside { Some(model.get(&(x, y)).copied().unwrap_or($mk(0))) } else { None };
            if got != exp { f += 1; }
        }}
        if fb.data()[N - 3..] != [0, 0, 0] { f_tail += 1; }
    }
    println!("== fb {}: mismatches={} tail={}", $name, f, f_tail);
}}}

fn main() {
    let mut rng = Rng(99);
    img_probe::<BinaryColor, LittleEndianMsb0>("bin/le", &mut rng);
    img_probe::<BinaryColor, BigEndianLsb0>("bin/be", &mut rng);
    img_probe::<Gray2, LittleEndianMsb0>("gray2/le", &mut rng);
    img_probe::<Gray4, BigEndianLsb0>("gray4/be", &mut rng);
    img_probe::<Gray8, LittleEndianMsb0>("gray8/le", &mut rng);
    img_probe::<Rgb565, LittleEndianMsb0>("rgb565/le", &mut rng);
    img_probe::<Rgb565, BigEndianLsb0>("rgb565/be", &mut rng);
    img_probe::<Rgb888, BigEndianLsb0>("rgb888/be", &mut rng);
    ls_probe::<RawU1, LittleEndianMsb0>("u1/le", &mut rng);
    ls_probe::<RawU1, BigEndianLsb0>("u1/be", &mut rng);
    ls_probe::<RawU2, LittleEndianMsb0>("u2/le", &mut rng);
    ls_probe::<RawU2, BigEndianLsb0>("u2/be", &mut rng);
    ls_probe::<RawU4, LittleEndianMsb0>("u4/le", &mut rng);
    ls_probe::<RawU4, BigEndianLsb0>("u4/be", &mut rng);
    ls_probe::<RawU8, LittleEndianMsb0>("u8/le", &mut rng);
    ls_probe::<RawU8, BigEndianLsb0>("u8/be", &mut rng);
    ls_probe::<RawU16, LittleEndianMsb0>("u16/le", &mut rng);
    ls_probe::<RawU16, BigEndianLsb0>("u16/be", &mut rng);
    ls_probe::<RawU24, LittleEndianMsb0>("u24/le", &mut rng);
    ls_probe::<RawU24, BigEndianLsb0>("u24/be", &mut rng);
    ls_probe::<RawU32, LittleEndianMsb0>("u32/le", &mut rng);
    ls_probe::<RawU32, BigEndianLsb0>("u32/be", &mut rng);
    fb_probe!("bin/le 9x3", BinaryColor, LittleEndianMsb0, 9, 3, rng, |v: u32| if v & 1 == 1 { BinaryColor::On } else { BinaryColor::Off });
    fb_probe!("bin/be 9x3", BinaryColor, BigEndianLsb0, 9, 3, rng, |v: u32| if v & 1 == 1 { BinaryColor::On } else { BinaryColor::Off });
    fb_probe!("gray2/le 5x3", Gray2, LittleEndianMsb0, 5, 3, rng, |v: u32| Gray2::new(v as u8));
    fb_probe!("gray2/be 5x3", Gray2, BigEndianLsb0, 5, 3, rng, |v: u32| Gray2::new(v as u8));
    fb_probe!("gray4/be 5x3", Gray4, BigEndianLsb0, 5, 3, rng, |v: u32| Gray4::new(v as u8));
    fb_probe!("gray8/be 5x3", Gray8, BigEndianLsb0, 5, 3, rng, |v: u32| Gray8::new(v as u8));
    fb_probe!("rgb565/le 5x3", Rgb565, LittleEndianMsb0, 5, 3, rng, |v: u32| Rgb565::from(RawU16::new(v as u16)));
    fb_probe!("rgb565/be 5x3", Rgb565, BigEndianLsb0, 5, 3, rng, |v: u32| Rgb565::from(RawU16::new(v as u16)));
    fb_probe!("rgb888/le 5x3", Rgb888, LittleEndianMsb0, 5, 3, rng, |v: u32| Rgb888::from(RawU24::new(v)));
    fb_probe!("rgb888/be 5x3", Rgb888, BigEndianLsb0, 5, 3, rng, |v: u32| Rgb888::from(RawU24::new(v)));
}
