use egx::*;
use std::collections::BTreeSet;

fn check<P: PointsIter + ContainsPoint + Dimensions + core::fmt::Debug>(name: &str, p: &P, fails: &mut usize) {
    let bb = p.bounding_box();
    let pts: Vec<Point> = p.points().take(2_000_000).collect();
    let set: BTreeSet<(i32, i32)> = pts.iter().map(|p| (p.x, p.y)).collect();
    let mut msg = String::new();
    if set.len() != pts.len() { msg += "dup "; }
    let sorted = pts.windows(2).all(|w| (w[0].y, w[0].x) < (w[1].y, w[1].x));
    if !sorted { msg += "order "; }
    if pts.iter().any(|q| !bb.contains(*q)) { msg += "outside-bb "; }
    let m = 3;
    let area = Rectangle::new(bb.top_left - Point::new(m, m), bb.size + Size::new(2 * m as u32, 2 * m as u32));
    let mut c_not_p = 0; let mut p_not_c = 0; let mut c_outside = 0;
    let mut ex = None;
    for q in area.points() {
        let c = p.contains(q);
        let inp = set.contains(&(q.x, q.y));
        if c && !inp { c_not_p += 1; ex.get_or_insert((q, "c&!p")); }
        if !c && inp { p_not_c += 1; ex.get_or_insert((q, "p&!c")); }
        if c && !bb.contains(q) { c_outside += 1; }
    }
    if c_not_p + p_not_c + c_outside > 0 { msg += &format!("c_not_p={} p_not_c={} c_outside={} ex={:?}", c_not_p, p_not_c, c_outside, ex); }
    if !msg.is_empty() {
        *fails += 1;
        if *fails <= 6 { println!("{} FAIL {:?}: {}", name, p, msg); }
    }
}

fn main() {
    let mut f = 0;
    for w in 0..14u32 { for h in 0..14u32 { for x in [-3, 0, 2] {
        check("rect", &Rectangle::new(Point::new(x, -x), Size::new(w, h)), &mut f);
    }}}
    println!("rect fails {}", f);
    let mut f = 0;
    for d in 0..40u32 { check("circle", &Circle::new(Point::new(-5, 3), d), &mut f); }
    println!("circle fails {}", f);
    let mut f = 0; let mut n = 0;
    for w in 0..40u32 { for h in 0..40u32 { n += 1; check("ellipse", &Ellipse::new(Point::new(-5, 3), Size::new(w, h)), &mut f); }}
    println!("ellipse fails {}/{}", f, n);
    let mut f = 0; let mut n = 0;
    let mut rng = Rng(12345);
    for _ in 0..20000 {
        let w = rng.range(0, 16) as u32; let h = rng.range(0, 16) as u32;
        let mut r = || Size::new(rng.range(0, 12) as u32, rng.range(0, 12) as u32);
        let radii = CornerRadii { top_left: r(), top_right: r(), bottom_right: r(), bottom_left: r() };
        n += 1;
        check("rrect", &RoundedRectangle::new(Rectangle::new(Point::new(-2, 1), Size::new(w, h)), radii), &mut f);
    }
    println!("rrect fails {}/{}", f, n);
    let mut f = 0; let mut n = 0;
    for w in 0..14u32 { for h in 0..14u32 { for rx in 0..9u32 { for ry in 0..9u32 {
        n += 1;
        check("rrect-eq", &RoundedRectangle::with_equal_corners(Rectangle::new(Point::new(-2, 1), Size::new(w, h)), Size::new(rx, ry)), &mut f);
    }}}}
    println!("rrect-eq fails {}/{}", f, n);
    let mut f = 0; let mut n = 0;
    for _ in 0..40000 {
        let mut p = || Point::new(rng.range(-8, 8), rng.range(-8, 8));
        let t = Triangle::new(p(), p(), p());
        let [a, b, c] = t.vertices;
        let area = (b.x - a.x) * (c.y - a.y) - (c.x - a.x) * (b.y - a.y);
        if area == 0 { continue; }
        n += 1;
        check("tri", &t, &mut f);
    }
    println!("tri fails {}/{}", f, n);
    let mut f = 0; let mut n = 0;
    for _ in 0..5000 {
        let d = rng.range(0, 30) as u32;
        let s = rng.range(-400, 400) as f32; let sw = rng.range(-400, 400) as f32;
        n += 1;
        check("sector", &Sector::new(Point::new(-3, 2), d, s.deg(), sw.deg()), &mut f);
    }
    println!("sector fails {}/{}", f, n);
}
