use egx::*;
use std::panic::{catch_unwind, AssertUnwindSafe};
fn main() {
    std::panic::set_hook(Box::new(|i| { eprintln!("panic at {:?}", i.location().map(|l| (l.file().to_string(), l.line()))); }));
    let mut rng = Rng(88);
    let (mut n, mut p, mut bbf) = (0, 0, 0); let mut shown = 0;
    for it in 0..4000 {
        let m = if it % 4 == 0 { 600 } else { 30 };
        let r = Rectangle::new(Point::new(rng.range(-20, 20), rng.range(-20, 20)), Size::new(rng.range(0, m) as u32, rng.range(0, m) as u32));
        let mut s = styles(&mut rng, if it % 4 == 0 { 128 } else { 12 }); s.stroke_style = StrokeStyle::Dotted;
        n += 1;
        let res = catch_unwind(AssertUnwindSafe(|| { let st = r.into_styled(s); let mut t = Rec::new(true); st.draw(&mut t).unwrap(); let bb = st.bounding_box(); let px: Vec<_> = st.pixels().collect(); (t.map.keys().all(|k| bb.contains(Point::new(k.0, k.1))), px.len()) }));
        match res { Err(_) => { p += 1; if shown < 5 { shown += 1; println!("PANIC {:?} {:?}", r, s); } }, Ok((ok, _)) => if !ok { bbf += 1; if shown < 5 { shown += 1; println!("BBOX {:?} {:?}", r, s); } } }
    }
    println!("== dotted n={} panics={} bbox={}", n, p, bbf);
}
