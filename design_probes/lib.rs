#![allow(dead_code)]
pub use embedded_graphics::{
    draw_target::{DrawTarget, DrawTargetExt},
    geometry::{AnchorPoint, Dimensions, OriginDimensions, Point, Size},
    pixelcolor::*,
    prelude::*,
    primitives::*,
    Pixel,
};
use std::collections::BTreeMap;

pub struct Rng(pub u64);
impl Rng {
    pub fn next(&mut self) -> u64 {
        self.0 ^= self.0 << 13;
        self.0 ^= self.0 >> 7;
        self.0 ^= self.0 << 17;
        self.0
    }
    pub fn range(&mut self, lo: i32, hi: i32) -> i32 {
        lo + (self.next() % ((hi - lo + 1) as u64)) as i32
    }
    pub fn pick<T: Copy>(&mut self, v: &[T]) -> T {
        v[(self.next() % v.len() as u64) as usize]
    }
}

#[derive(Debug, Clone, PartialEq, Eq)]
pub enum Call {
    DrawIter(usize),
    FillContiguous(Rectangle, usize),
    FillSolid(Rectangle),
    Clear,
}

/// Recording target. `native`: implements fill_* natively.
#[derive(Clone)]
pub struct Rec<C: PixelColor> {
    pub map: BTreeMap<(i32, i32), C>,
    pub bbox: Rectangle,
    pub native: bool,
    pub drain: bool,
    pub calls: Vec<Call>,
    pub fail_at: Option<usize>,
    pub ncalls: usize,
    pub pulled: Vec<usize>,
}

impl<C: PixelColor> Rec<C> {
    pub fn new(native: bool) -> Self {
        Self {
            map: BTreeMap::new(),
            bbox: Rectangle::new(Point::new(-4000, -4000), Size::new(8000, 8000)),
            native,
            drain: true,
            calls: vec![],
            fail_at: None,
            ncalls: 0,
            pulled: vec![],
        }
    }
    pub fn with_bbox(mut self, b: Rectangle) -> Self {
        self.bbox = b;
        self
    }
    fn tick(&mut self) -> Result<(), usize> {
        let n = self.ncalls;
        self.ncalls += 1;
        if self.fail_at == Some(n) {
            Err(n)
        } else {
            Ok(())
        }
    }
}

impl<C: PixelColor> Dimensions for Rec<C> {
    fn bounding_box(&self) -> Rectangle {
        self.bbox
    }
}

pub struct IterOnly<C: PixelColor>(pub Rec<C>);
impl<C: PixelColor> Dimensions for IterOnly<C> {
    fn bounding_box(&self) -> Rectangle {
        self.0.bbox
    }
}
impl<C: PixelColor> DrawTarget for IterOnly<C> {
    type Color = C;
    type Error = usize;
    fn draw_iter<I>(&mut self, pixels: I) -> Result<(), usize>
    where
        I: IntoIterator<Item = Pixel<C>>,
    {
        self.0.tick()?;
        let mut n = 0;
        for Pixel(p, c) in pixels {
            self.0.map.insert((p.x, p.y), c);
            n += 1;
        }
        self.0.calls.push(Call::DrawIter(n));
        Ok(())
    }
}

impl<C: PixelColor> DrawTarget for Rec<C> {
    type Color = C;
    type Error = usize;
    fn draw_iter<I>(&mut self, pixels: I) -> Result<(), usize>
    where
        I: IntoIterator<Item = Pixel<C>>,
    {
        self.tick()?;
        let mut n = 0;
        for Pixel(p, c) in pixels {
            self.map.insert((p.x, p.y), c);
            n += 1;
        }
        self.calls.push(Call::DrawIter(n));
        Ok(())
    }
    fn fill_contiguous<I>(&mut self, area: &Rectangle, colors: I) -> Result<(), usize>
    where
        I: IntoIterator<Item = C>,
    {
        self.tick()?;
        let mut it = colors.into_iter();
        let mut n = 0;
        for p in area.points() {
            if let Some(c) = it.next() {
                self.map.insert((p.x, p.y), c);
                n += 1;
            } else {
                break;
            }
        }
        // drain (bounded)
        let mut extra = 0;
        if self.drain {
            while extra < 100000 {
                if it.next().is_none() {
                    break;
                }
                extra += 1;
            }
        }
        self.pulled.push(n + extra);
        self.calls.push(Call::FillContiguous(*area, n + extra));
        Ok(())
    }
    fn fill_solid(&mut self, area: &Rectangle, color: C) -> Result<(), usize> {
        self.tick()?;
        for p in area.points() {
            self.map.insert((p.x, p.y), color);
        }
        self.calls.push(Call::FillSolid(*area));
        Ok(())
    }
    fn clear(&mut self, color: C) -> Result<(), usize> {
        self.tick()?;
        for p in self.bbox.points() {
            self.map.insert((p.x, p.y), color);
        }
        self.calls.push(Call::Clear);
        Ok(())
    }
}

pub fn styles(rng: &mut Rng, maxw: u32) -> PrimitiveStyle<Rgb888> {
    let mut b = PrimitiveStyleBuilder::new();
    if rng.next() % 3 != 0 {
        b = b.fill_color(Rgb888::new(0, 255, 0));
    }
    if rng.next() % 3 != 0 {
        b = b.stroke_color(Rgb888::new(255, 0, 0));
    }
    b = b.stroke_width(rng.range(0, maxw as i32) as u32);
    b = b.stroke_alignment(rng.pick(&[
        StrokeAlignment::Inside,
        StrokeAlignment::Center,
        StrokeAlignment::Outside,
    ]));
    b.build()
}
pub mod fonts;
