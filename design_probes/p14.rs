use egx::*;
use egx::fonts::FONTS;
use embedded_graphics::image::GetPixel;
use embedded_graphics::mono_font::{mapping::GlyphMapping, MonoTextStyle, MonoTextStyleBuilder, MonoFont};
use embedded_graphics::text::{Alignment, Baseline, LineHeight, Text, TextStyleBuilder, renderer::TextRenderer};
use std::collections::{BTreeMap, BTreeSet};

type Map = BTreeMap<(i32, i32), Rgb888>;
const FG: Rgb888 = Rgb888::new(255, 255, 255);
const BG: Rgb888 = Rgb888::new(0, 0, 255);
const UL: Rgb888 = Rgb888::new(255, 0, 0);
const ST: Rgb888 = Rgb888::new(0, 255, 0);

fn draw<'a>(t: &Text<'a, MonoTextStyle<'a, Rgb888>>) -> (Map, Point) {
    let mut r = Rec::new(true);
    let p = t.draw(&mut r).unwrap();
    (r.map, p)
}

fn main() {
    // --- font data: each mapped char has its own index, cell inside image
    let mut bad_fonts = 0; let mut total_chars = 0;
    for (name, font, mapping) in FONTS.iter() {
        let mut seen = BTreeSet::new();
        let per_row = font.image.size().width / font.character_size.width;
        let rows = font.image.size().height / font.character_size.height;
        let mut bad = false;
        for c in mapping.chars() {
            total_chars += 1;
            let idx = font.glyph_mapping.index(c);
            if idx != mapping.index(c) { bad = true; println!("{} mapping mismatch {:?}", name, c); }
            if !seen.insert(idx) { bad = true; println!("{} dup index {} for {:?}", name, idx, c); }
            if idx as u32 >= per_row * rows { bad = true; println!("{} char {:?} idx {} outside atlas {}x{}", name, c, idx, per_row, rows); }
        }
        let rep = font.glyph_mapping.index('\u{10FFFF}');
        if rep as u32 >= per_row * rows { bad = true; println!("{} replacement outside", name); }
        if bad { bad_fonts += 1; }
    }
    println!("== fonts {} chars {} bad_fonts {}", FONTS.len(), total_chars, bad_fonts);

    // --- glyph rendering vs atlas; bounding box; draw vs measure
    let mut rng = Rng(31337);
    let (mut f_glyph, mut f_bb, mut f_pos, mut f_chain, mut f_crlf, mut f_lines, mut f_align, mut n) = (0, 0, 0, 0, 0, 0, 0, 0);
    let mut shown = 0;
    for iter in 0..6000 {
        let (name, font, mapping) = FONTS[(rng.next() % FONTS.len() as u64) as usize];
        let chars: Vec<char> = mapping.chars().collect();
        let mut mk = |rng: &mut Rng, maxlen: i32, nl: bool| -> String {
            let len = rng.range(0, maxlen);
            (0..len).map(|_| match rng.next() % 12 { 0 if nl => '\n', 1 => '\u{7}', 2 => '\u{1F600}', _ => chars[(rng.next() % chars.len() as u64) as usize] }).collect()
        };
        let mut b = MonoTextStyleBuilder::new().font(font);
        let has_fg = rng.next() % 4 != 0; let has_bg = rng.next() % 2 == 0;
        if has_fg { b = b.text_color(FG); }
        if has_bg { b = b.background_color(BG); }
        match rng.next() % 3 { 0 => {}, 1 => b = b.underline(), _ => b = b.underline_with_color(UL) }
        match rng.next() % 3 { 0 => {}, 1 => b = b.strikethrough(), _ => b = b.strikethrough_with_color(ST) }
        let style = b.build();
        let baseline = rng.pick(&[Baseline::Top, Baseline::Bottom, Baseline::Middle, Baseline::Alphabetic]);
        let alignment = rng.pick(&[Alignment::Left, Alignment::Center, Alignment::Right]);
        let lh = match rng.next() % 3 { 0 => LineHeight::Percent(100), 1 => LineHeight::Percent(rng.range(0, 400) as u32), _ => LineHeight::Pixels(rng.range(0, 40) as u32) };
        let ts = TextStyleBuilder::new().baseline(baseline).alignment(alignment).line_height(lh).build();
        let pos = Point::new(rng.range(-20, 20), rng.range(-20, 20));
        n += 1;
        // bounding box
        let s = mk(&mut rng, 8, true);
        let t = Text::with_text_style(&s, pos, style, ts);
        let (m, ret) = draw(&t);
        let bb = t.bounding_box();
        if m.keys().any(|k| !bb.contains(Point::new(k.0, k.1))) { f_bb += 1; if shown < 4 { shown += 1; println!("BBOX {} {:?} {:?} bb={:?} style ul={:?} bg={} fg={}", name, s, ts, bb, style.underline_color, has_bg, has_fg); } }
        // returned pos vs measure_string of last line
        let last = s.split('\n').last().unwrap();
        let _ = (last, ret);
        // single line: glyph check (Left, Top)
        let s1: String = mk(&mut rng, 6, false);
        let t1 = Text::with_baseline(&s1, pos, style, Baseline::Top);
        let (m1, ret1) = draw(&t1);
        let metrics = style.measure_string(&s1, pos, Baseline::Top);
        if ret1 != metrics.next_position { f_pos += 1; }
        let cw = font.character_size.width as i32; let ch = font.character_size.height as i32;
        let per_row = (font.image.size().width / font.character_size.width) as i32;
        let mut exp: Map = BTreeMap::new();
        for (i, c) in s1.chars().enumerate() {
            let idx = font.glyph_mapping.index(c) as i32;
            let (gx, gy) = ((idx % per_row) * cw, (idx / per_row) * ch);
            for y in 0..ch { for x in 0..cw {
                let on = font.image.pixel(Point::new(gx + x, gy + y)).unwrap().is_on();
                let col = if on { style.text_color } else { style.background_color };
                if let Some(col) = col { exp.insert((pos.x + i as i32 * cw + x, pos.y + y), col); }
            }}
        }
        let wtot = s1.chars().count() as i32 * cw;
        if wtot > 0 {
            if let Some(c) = style.strikethrough_color.is_custom().then(|| ST).or(if style.strikethrough_color.is_text_color() { style.text_color } else { None }) {
                for y in 0..font.strikethrough.height as i32 { for x in 0..wtot { exp.insert((pos.x + x, pos.y + font.strikethrough.offset as i32 + y), c); } }
            }
            if let Some(c) = style.underline_color.is_custom().then(|| UL).or(if style.underline_color.is_text_color() { style.text_color } else { None }) {
                for y in 0..font.underline.height as i32 { for x in 0..wtot { exp.insert((pos.x + x, pos.y + font.underline.offset as i32 + y), c); } }
            }
        }
        if exp != m1 { f_glyph += 1; if shown < 8 { shown += 1; println!("GLYPH {} {:?}", name, s1); } }
        // chaining
        let s2 = mk(&mut rng, 5, false);
        let mut r = Rec::new(true);
        let p1 = Text::with_text_style(&s1, pos, style, TextStyleBuilder::new().baseline(baseline).build()).draw(&mut r).unwrap();
        let p2 = Text::with_text_style(&s2, p1, style, TextStyleBuilder::new().baseline(baseline).build()).draw(&mut r).unwrap();
        let s12 = format!("{}{}", s1, s2);
        let mut r2 = Rec::new(true);
        let p12 = Text::with_text_style(&s12, pos, style, TextStyleBuilder::new().baseline(baseline).build()).draw(&mut r2).unwrap();
        if r.map != r2.map || p2 != p12 { f_chain += 1; }
        // CRLF == LF
        let s_lf = mk(&mut rng, 10, true);
        let s_crlf = s_lf.replace('\n', "\r\n");
        let (ma, pa) = draw(&Text::with_text_style(&s_lf, pos, style, ts));
        let (mb, pb) = draw(&Text::with_text_style(&s_crlf, pos, style, ts));
        let bba = Text::with_text_style(&s_lf, pos, style, ts).bounding_box();
        let bbb = Text::with_text_style(&s_crlf, pos, style, ts).bounding_box();
        if ma != mb || pa != pb || bba != bbb { f_crlf += 1; if shown < 12 && iter % 3 == 0 { shown += 1; println!("CRLF {} {:?} al={:?} maps_eq={} pos {:?}/{:?} bb_eq={}", name, s_lf, alignment, ma == mb, pa, pb, bba == bbb); } }
        // multi-line == separate lines line_height apart
        let lhpx = lh.to_absolute(font.character_size.height) as i32;
        let mut r3 = Rec::new(true);
        let mut lastp = pos;
        for (i, line) in s_lf.split('\n').enumerate() {
            lastp = Text::with_text_style(line, pos + Point::new(0, i as i32 * lhpx), style, ts).draw(&mut r3).unwrap();
        }
        if r3.map != ma || lastp != pa { f_lines += 1; }
        // alignment
        for (i, line) in s_lf.split('\n').enumerate() {
            let t = Text::with_text_style(line, pos + Point::new(0, i as i32 * lhpx), style, ts);
            let bb = t.bounding_box();
            if let Some(br) = bb.bottom_right() {
                let ok = match alignment { Alignment::Left => bb.top_left.x == pos.x, Alignment::Right => br.x == pos.x, Alignment::Center => ((bb.top_left.x + br.x) - 2 * pos.x).abs() <= 1 };
                if !ok { f_align += 1; }
            }
        }
    }
    println!("== text n={} glyph={} bbox={} pos={} chain={} crlf={} lines={} align={}", n, f_glyph, f_bb, f_pos, f_chain, f_crlf, f_lines, f_align);
    let _ : Option<&MonoFont> = None;
}
