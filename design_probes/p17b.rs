use egx::*;
fn main() {
    let mut rng = Rng(17);
    let mut worst = (10.0f64, String::new()); let mut worst2 = (10.0f64, String::new());
    let mut maxdev = (0.0f64, String::new()); let mut maxend = (0.0f64, String::new());
    for it in 0..40000 {
        let r = if it % 2 == 0 { 12 } else { 60 };
        let s = Point::new(rng.range(-r, r), rng.range(-r, r)); let e = Point::new(rng.range(-r, r), rng.range(-r, r));
        let w = rng.range(1, if it % 3 == 0 { 40 } else { 12 }) as u32;
        let (dx, dy) = ((e.x - s.x) as f64, (e.y - s.y) as f64); let len = (dx * dx + dy * dy).sqrt();
        if len < 1.0 { continue; }
        let l = Line::new(s, e);
        let px: Vec<Point> = l.into_styled(PrimitiveStyle::with_stroke(Rgb888::RED, w)).pixels().map(|p| p.0).collect();
        let mid = len / 2.0;
        let mut lo = f64::MAX; let mut hi = f64::MIN; let mut cnt = 0;
        for q in &px {
            let t = ((q.x - s.x) as f64 * dx + (q.y - s.y) as f64 * dy) / len;
            let d = ((q.x - s.x) as f64 * dy - (q.y - s.y) as f64 * dx) / len;
            if d.abs() - w as f64 / 2.0 > maxdev.0 { maxdev = (d.abs() - w as f64 / 2.0, format!("{:?} w={}", l, w)); }
            let over = (-t).max(t - len); if over > maxend.0 { maxend = (over, format!("{:?} w={}", l, w)); }
            if (t - mid).abs() <= 0.75 { lo = lo.min(d); hi = hi.max(d); cnt += 1; }
        }
        let wd = if cnt > 0 { hi - lo + 1.0 } else { 0.0 };
        let slack = wd - (w as f64 - 1.0);
        if slack < worst.0 { worst = (slack, format!("{:?} w={} wd={:.3} cnt={}", l, w, wd, cnt)); }
        // alternative: count of pixels in the major-axis-perpendicular scan through the midpoint pixel (column or row), projected
        let m = Point::new((s.x + e.x).div_euclid(2), (s.y + e.y).div_euclid(2));
        let xmajor = dx.abs() >= dy.abs();
        let c2 = px.iter().filter(|q| if xmajor { q.x == m.x } else { q.y == m.y }).count() as f64;
        let proj = c2 * (if xmajor { dx.abs() } else { dy.abs() }) / len;
        let slack2 = proj - (w as f64 - 1.0);
        if slack2 < worst2.0 { worst2 = (slack2, format!("{:?} w={} c2={} proj={:.3}", l, w, c2, proj)); }
    }
    println!("worst width slack (extent+1) {:?}\nworst width slack (scan count * cos) {:?}\nmaxdev-w/2 {:?}\nmaxend {:?}", worst, worst2, maxdev, maxend);
}
