use egx::*;
use std::collections::BTreeSet;
type S = BTreeSet<(i32, i32)>;
fn set<I: Iterator<Item = Point>>(i: I) -> S { i.map(|p| (p.x, p.y)).collect() }

fn runs_contiguous(s: &S) -> bool {
    use std::collections::BTreeMap;
    let mut rows: BTreeMap<i32, Vec<i32>> = BTreeMap::new(); let mut cols: BTreeMap<i32, Vec<i32>> = BTreeMap::new();
    for &(x, y) in s { rows.entry(y).or_default().push(x); cols.entry(x).or_default().push(y); }
    rows.values_mut().chain(cols.values_mut()).all(|v| { v.sort(); v.windows(2).all(|w| w[1] == w[0] + 1) })
}

fn main() {
    let tl = Point::new(-7, 4);
    // circles / ellipses vs ideal
    let (mut f_band, mut f_sym, mut f_runs, mut f_touch, mut f_ce, mut n) = (0, 0, 0, 0, 0, 0);
    let mut shown = 0; let mut worst_in: f64 = 0.0; let mut worst_out: f64 = 0.0;
    for w in 0..=48u32 { for h in 0..=48u32 {
        n += 1;
        let e = Ellipse::new(tl, Size::new(w, h));
        let s = set(e.points());
        let sc: S = e.bounding_box().points().filter(|p| e.contains(*p)).map(|p| (p.x, p.y)).collect();
        let use_s = &sc; // contains-based (points() has the thin bug)
        let (cx, cy) = (tl.x as f64 + (w as f64 - 1.0) / 2.0, tl.y as f64 + (h as f64 - 1.0) / 2.0);
        let (a, b) = (w as f64 / 2.0, h as f64 / 2.0);
        // band check: point included iff centre inside ideal curve, up to half pixel band:
        for p in Rectangle::new(tl - Point::new(2, 2), Size::new(w + 4, h + 4)).points() {
            let inn = use_s.contains(&(p.x, p.y));
            let (dx, dy) = ((p.x as f64 - cx).abs(), (p.y as f64 - cy).abs());
            // inside ellipse shrunk by .5 -> must be in ; outside ellipse grown by .5 -> must be out
            let inside_shrunk = a > 0.5 && b > 0.5 && (dx / (a - 0.5)).powi(2) + (dy / (b - 0.5)).powi(2) < 1.0 - 1e-9;
            let outside_grown = w == 0 || h == 0 || (dx / (a + 0.5)).powi(2) + (dy / (b + 0.5)).powi(2) > 1.0 + 1e-9;
            if inside_shrunk && !inn { f_band += 1; if shown < 5 { shown += 1; println!("BAND missing {:?} in {}x{}", p, w, h); } }
            if outside_grown && inn { f_band += 1; if shown < 5 { shown += 1; println!("BAND extra {:?} in {}x{}", p, w, h); } }
            let _ = (&mut worst_in, &mut worst_out);
        }
        // symmetry
        let ok = use_s.iter().all(|&(x, y)| use_s.contains(&(2 * tl.x + w as i32 - 1 - x, y)) && use_s.contains(&(x, 2 * tl.y + h as i32 - 1 - y)));
        if !ok { f_sym += 1; }
        if !runs_contiguous(use_s) { f_runs += 1; if shown < 8 { shown += 1; println!("RUNS {}x{}", w, h); } }
        if w == h {
            let c = Circle::new(tl, w);
            let cs = set(c.points());
            if cs != s { f_ce += 1; }
            if w > 0 { let bb = c.bounding_box(); let br = bb.bottom_right().unwrap();
                let t = cs.iter().any(|p| p.0 == bb.top_left.x) && cs.iter().any(|p| p.0 == br.x) && cs.iter().any(|p| p.1 == bb.top_left.y) && cs.iter().any(|p| p.1 == br.y);
                if !t { f_touch += 1; } }
        }
    }}
    println!("== C18 ellipses n={} band={} sym={} runs={} touch={} circle!=ellipse={}", n, f_band, f_sym, f_runs, f_touch, f_ce);

    // rounded rect equivalences + confine
    let mut rng = Rng(18);
    let (mut f_zero, mut f_ell, mut f_conf, mut f_rr_runs, mut f_rr_band, mut n) = (0, 0, 0, 0, 0, 0);
    let mut shown = 0;
    for w in 0..=24u32 { for h in 0..=24u32 {
        let r = Rectangle::new(tl, Size::new(w, h));
        let rr = RoundedRectangle::with_equal_corners(r, Size::zero());
        let sc: S = r.points().filter(|p| rr.contains(*p)).map(|p| (p.x, p.y)).collect();
        if set(rr.points()) != set(r.points()) || sc != set(r.points()) { f_zero += 1; }
        if w % 2 == 0 && h % 2 == 0 {
            let rr = RoundedRectangle::with_equal_corners(r, Size::new(w / 2, h / 2));
            let e = Ellipse::new(tl, Size::new(w, h));
            let se: S = r.points().filter(|p| e.contains(*p)).map(|p| (p.x, p.y)).collect();
            let sr: S = r.points().filter(|p| rr.contains(*p)).map(|p| (p.x, p.y)).collect();
            if se != sr { f_ell += 1; if shown < 3 { shown += 1; println!("RR!=ELL {}x{} diff {:?}", w, h, se.symmetric_difference(&sr).take(4).collect::<Vec<_>>()); } }
        }
    }}
    for _ in 0..200000 {
        n += 1;
        let big = rng.next() % 4 == 0;
        let m = if big { 300 } else { 14 };
        let (w, h) = (rng.range(0, m) as u32, rng.range(0, m) as u32);
        let mut r = |rng: &mut Rng| Size::new(rng.range(0, m) as u32, rng.range(0, m) as u32);
        let radii = CornerRadii { top_left: r(&mut rng), top_right: r(&mut rng), bottom_right: r(&mut rng), bottom_left: r(&mut rng) };
        let rr = RoundedRectangle::new(Rectangle::new(tl, Size::new(w, h)), radii);
        let c = rr.confine_radii().corners;
        let ok = c.top_left.width + c.top_right.width <= w && c.bottom_left.width + c.bottom_right.width <= w && c.top_left.height + c.bottom_left.height <= h && c.top_right.height + c.bottom_right.height <= h;
        if !ok { f_conf += 1; if shown < 8 { shown += 1; println!("CONFINE {}x{} {:?} -> {:?}", w, h, radii, c); } }
        if !big {
            let sc: S = rr.bounding_box().points().filter(|p| rr.contains(*p)).map(|p| (p.x, p.y)).collect();
            if !runs_contiguous(&sc) { f_rr_runs += 1; if shown < 12 { shown += 1; println!("RR-RUNS {:?}", rr); } }
        }
    }
    let _ = &mut f_rr_band;
    println!("== C18 rrect n={} zero_radii={} ellipse_equiv={} confine={} runs={}", n, f_zero, f_ell, f_conf, f_rr_runs);

    // sectors / arcs
    let (mut f_full_s, mut f_full_a, mut f_sub, mut f_ang_extra, mut f_ang_missing, mut n) = (0, 0, 0, 0, 0, 0);
    let mut worst_extra: f64 = 0.0; let mut worst_missing: f64 = 0.0; let mut shown = 0;
    for it in 0..30000 {
        let d = rng.range(0, 128) as u32;
        let (start, sweep) = if it % 2 == 0 { (rng.range(-720, 720) as f32, rng.range(-720, 720) as f32) } else { (rng.range(-72000, 72000) as f32 / 100.0, rng.range(-72000, 72000) as f32 / 100.0) };
        let c = Circle::new(tl, d); let cs = set(c.points());
        let sec = Sector::new(tl, d, start.deg(), sweep.deg()); let ss = set(sec.points());
        let arc = Arc::new(tl, d, start.deg(), sweep.deg()); let ars = set(arc.points());
        n += 1;
        if !ss.is_subset(&cs) || !ars.is_subset(&cs) { f_sub += 1; }
        if sweep.abs() >= 360.0 {
            if ss != cs { f_full_s += 1; }
            let ring: S = cs.difference(&set(c.offset(-1).points())).copied().collect();
            if ars != ring { f_full_a += 1; if shown < 3 { shown += 1; println!("ARC360 d={} {} {}", d, ars.len(), ring.len()); } }
        } else {
            // angular check, exact in f64. angle convention: 0 deg = +x, positive = counter clockwise on screen (y up)?
            let (cx, cy) = (tl.x as f64 + (d as f64 - 1.0) / 2.0, tl.y as f64 + (d as f64 - 1.0) / 2.0);
            let (a0, a1) = if sweep >= 0.0 { (start as f64, (start + sweep) as f64) } else { ((start + sweep) as f64, start as f64) };
            let span = a1 - a0;
            for &(x, y) in &cs {
                let (dx, dy) = (x as f64 - cx, y as f64 - cy);
                let r = (dx * dx + dy * dy).sqrt();
                let ang = dy.atan2(dx).to_degrees();
                let rel = (ang - a0).rem_euclid(360.0);
                // signed angular distance to sector interior: negative inside
                let inside = rel <= span;
                // distance (in px) to nearest radial boundary
                let to_b0 = { let t = (ang - a0).to_radians(); r * t.sin().abs().min(1.0) };
                let to_b1 = { let t = (ang - a1).to_radians(); r * t.sin().abs().min(1.0) };
                let db = { let d0 = (ang - a0).rem_euclid(360.0).min((a0 - ang).rem_euclid(360.0)); let d1 = (ang - a1).rem_euclid(360.0).min((a1 - ang).rem_euclid(360.0));
                    let p0 = if d0 < 90.0 { to_b0 } else { r }; let p1 = if d1 < 90.0 { to_b1 } else { r }; p0.min(p1) };
                let in_s = ss.contains(&(x, y));
                if in_s && !inside { worst_extra = worst_extra.max(db); if db > 1.5 { f_ang_extra += 1; if shown < 8 { shown += 1; println!("SECTOR extra d={} start={} sweep={} p=({}, {}) db={:.2}", d, start, sweep, x, y, db); } } }
                if !in_s && inside { worst_missing = worst_missing.max(db); if db > 1.5 { f_ang_missing += 1; if shown < 8 { shown += 1; println!("SECTOR missing d={} start={} sweep={} p=({}, {}) db={:.2}", d, start, sweep, x, y, db); } } }
            }
        }
    }
    println!("== C18 sectors n={} subset={} full_sector={} full_arc={} ang_extra={} ang_missing={} worst_extra={:.3} worst_missing={:.3}", n, f_sub, f_full_s, f_full_a, f_ang_extra, f_ang_missing, worst_extra, worst_missing);
}
