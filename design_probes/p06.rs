use egx::*;
use std::collections::BTreeMap;
type Map = BTreeMap<(i32, i32), Rgb888>;
const F: Rgb888 = Rgb888::new(0, 255, 0);
const S: Rgb888 = Rgb888::new(255, 0, 0);

macro_rules! chk { ($name:expr, $p:expr, $style:expr, $st:expr, $shown:expr, $geom:expr) => {{
    let p = $p; let style: PrimitiveStyle<Rgb888> = $style;
    let s = p.into_styled(style);
    let fa = s.fill_area(); let sa = s.stroke_area();
    let mut r = Rec::new(true); s.draw(&mut r).unwrap();
    let mut r2 = IterOnly(Rec::new(false)); r2.draw_iter(s.pixels()).unwrap();
    let bb = s.bounding_box(); let bbp = p.bounding_box();
    let area = Rectangle::new(bb.top_left.component_min(bbp.top_left) - Point::new(2, 2), bb.size.component_max(bbp.size) + Size::new(24, 24));
    let mut exp: Map = BTreeMap::new();
    for q in area.points() {
        if fa.contains(q) { if let Some(c) = style.fill_color { exp.insert((q.x, q.y), c); } }
        else if sa.contains(q) && style.stroke_width > 0 { if let Some(c) = style.stroke_color { exp.insert((q.x, q.y), c); } }
    }
    $st.0 += 1;
    let mut m = String::new();
    if exp != r.map { $st.1 += 1; m += "draw "; }
    if exp != r2.0.map { $st.2 += 1; m += "pixels "; }
    // geometric meaning for non-degenerate shapes
    let g: Option<(Rectangle, Rectangle)> = $geom(&p, &fa, &sa);
    if let Some((fbb, sbb)) = g {
        let (i, o) = match style.stroke_alignment { StrokeAlignment::Inside => (style.stroke_width, 0), StrokeAlignment::Outside => (0, style.stroke_width), StrokeAlignment::Center => ((style.stroke_width + 1) / 2, style.stroke_width / 2) };
        let pb = p.bounding_box();
        if pb.size.width > 0 && pb.size.height > 0 {
            let exp_s = Rectangle::new(pb.top_left - Point::new(o as i32, o as i32), pb.size + Size::new(2 * o, 2 * o));
            if sbb != exp_s { $st.3 += 1; m += "stroke-geom "; }
            if pb.size.width > 2 * i && pb.size.height > 2 * i {
                let exp_f = Rectangle::new(pb.top_left + Point::new(i as i32, i as i32), pb.size - Size::new(2 * i, 2 * i));
                if fbb != exp_f { $st.3 += 1; m += "fill-geom "; }
            } else if !fbb.is_zero_sized() { $st.3 += 1; m += "fill-not-collapsed "; }
        }
    }
    if !m.is_empty() && $shown < 6 { $shown += 1; println!("{} [{}] {:?} sw={} al={:?} fill={} stroke={}", $name, m, p, style.stroke_width, style.stroke_alignment, style.fill_color.is_some(), style.stroke_color.is_some()); }
}}}

fn styles2(rng: &mut Rng) -> PrimitiveStyle<Rgb888> {
    let mut b = PrimitiveStyleBuilder::new();
    if rng.next() % 4 != 0 { b = b.fill_color(F); }
    if rng.next() % 4 != 0 { b = b.stroke_color(S); }
    b.stroke_width(rng.range(0, 9) as u32).stroke_alignment(rng.pick(&[StrokeAlignment::Inside, StrokeAlignment::Center, StrokeAlignment::Outside])).build()
}

fn main() {
    let mut rng = Rng(6);
    let n = 8000;
    let mut st = (0, 0, 0, 0); let mut shown = 0;
    for _ in 0..n { chk!("rect", Rectangle::new(Point::new(rng.range(-4, 4), rng.range(-4, 4)), Size::new(rng.range(0, 14) as u32, rng.range(0, 14) as u32)), styles2(&mut rng), st, shown, |_p: &Rectangle, f: &Rectangle, s: &Rectangle| Some((*f, *s))); }
    println!("== C06 rect n={} draw={} pixels={} geom={}", st.0, st.1, st.2, st.3);
    let mut st = (0, 0, 0, 0); let mut shown = 0;
    for _ in 0..n { chk!("circle", Circle::new(Point::new(rng.range(-4, 4), rng.range(-4, 4)), rng.range(0, 20) as u32), styles2(&mut rng), st, shown, |_p: &Circle, f: &Circle, s: &Circle| Some((f.bounding_box(), s.bounding_box()))); }
    println!("== C06 circle n={} draw={} pixels={} geom={}", st.0, st.1, st.2, st.3);
    let mut st = (0, 0, 0, 0); let mut shown = 0;
    for _ in 0..n { chk!("ellipse", Ellipse::new(Point::new(rng.range(-4, 4), rng.range(-4, 4)), Size::new(rng.range(0, 20) as u32, rng.range(0, 20) as u32)), styles2(&mut rng), st, shown, |_p: &Ellipse, f: &Ellipse, s: &Ellipse| Some((f.bounding_box(), s.bounding_box()))); }
    println!("== C06 ellipse n={} draw={} pixels={} geom={}", st.0, st.1, st.2, st.3);
    let mut st = (0, 0, 0, 0); let mut shown = 0;
    for _ in 0..n {
        let mut r = |rng: &mut Rng| Size::new(rng.range(0, 8) as u32, rng.range(0, 8) as u32);
        let radii = if rng.next() % 2 == 0 { CornerRadii::new(r(&mut rng)) } else { CornerRadii { top_left: r(&mut rng), top_right: r(&mut rng), bottom_right: r(&mut rng), bottom_left: r(&mut rng) } };
        chk!("rrect", RoundedRectangle::new(Rectangle::new(Point::new(rng.range(-4, 4), rng.range(-4, 4)), Size::new(rng.range(0, 20) as u32, rng.range(0, 20) as u32)), radii), styles2(&mut rng), st, shown, |_p: &RoundedRectangle, f: &RoundedRectangle, s: &RoundedRectangle| Some((f.bounding_box(), s.bounding_box())));
    }
    println!("== C06 rrect n={} draw={} pixels={} geom={}", st.0, st.1, st.2, st.3);
}
