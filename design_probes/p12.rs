use egx::*;
use embedded_graphics::pixelcolor::raw::*;

macro_rules! rgb_rt { ($t:ident, $raw:ident, $bits:expr, $rb:expr, $gb:expr, $bb:expr, $order_rgb:expr) => {{
    let mut f = 0u64; let mut n = 0u64;
    let maxraw: u64 = if $bits == 24 { 1 << 24 } else { 1u64 << $bits };
    let storage_bits = if $bits == 24 { 32 } else { $bits };
    let mut v: u64 = 0;
    while v < (1u64 << storage_bits).min(1 << 26) {
        let raw = $raw::new(v as _);
        let c = $t::from(raw);
        let back: $raw = c.into();
        let b2: u64 = back.into_inner() as u64;
        n += 1;
        if b2 >= maxraw { f += 1; }
        // idempotent
        let c2 = $t::from(back); let back2: $raw = c2.into();
        if back2 != back || c2 != c { f += 1; }
        // channels
        let (r, g, b) = (c.r(), c.g(), c.b());
        let c3 = $t::new(r, g, b);
        if c3 != c { f += 1; }
        let exp = if $order_rgb { ((r as u64) << ($gb + $bb)) | ((g as u64) << $bb) | b as u64 } else { ((b as u64) << ($gb + $rb)) | ((g as u64) << $rb) | r as u64 };
        if b2 != exp { f += 1; }
        if c.into_storage() as u64 != b2 { f += 1; }
        let be = back.to_be_bytes(); let le = back.to_le_bytes();
        let mut acc = 0u64; for x in be.as_ref() { acc = acc << 8 | *x as u64; } if acc != b2 { f += 1; }
        let mut acc = 0u64; for x in le.as_ref().iter().rev() { acc = acc << 8 | *x as u64; } if acc != b2 { f += 1; }
        v += if storage_bits > 16 { 1 } else { 1 };
    }
    // new masks channels
    for r in 0..=255u8 { for g in [0u8, 1, 7, 8, 31, 32, 63, 64, 128, 255] { for b in [0u8, 3, 4, 31, 32, 255] {
        let c = $t::new(r, g, b);
        if c.r() != r & $t::MAX_R || c.g() != g & $t::MAX_G || c.b() != b & $t::MAX_B { f += 1; }
    }}}
    println!("== C12 {} n={} failures={}", stringify!($t), n, f);
}}}

fn nearest(v: u32, from: u32, to: u32) -> bool { true && { let _ = (v, from, to); true } }

macro_rules! conv { ($from:ident => $($to:ident),+) => {{ $(
    {
        let mut f = 0u64; let mut n = 0u64; let mut worst = 0u64;
        for r in 0..=$from::MAX_R { for g in 0..=$from::MAX_G { for b in 0..=$from::MAX_B {
            let c = $from::new(r, g, b);
            let d = $to::from(c);
            n += 1;
            for (i, o, fm, tm) in [(r, d.r(), $from::MAX_R, $to::MAX_R), (g, d.g(), $from::MAX_G, $to::MAX_G), (b, d.b(), $from::MAX_B, $to::MAX_B)] {
                let err = ((o as i64 * fm as i64) - (i as i64 * tm as i64)).unsigned_abs() * 2; // compare to fm (half step of target in units of 1/(fm*tm)... )
                if err > fm as u64 { f += 1; }
                worst = worst.max(err * 1000 / fm as u64);
            }
        }}}
        let _ = nearest;
        if f > 0 || false { println!("C13 {}->{} n={} fail={} worst(half-steps x1000)={}", stringify!($from), stringify!($to), n, f, worst); }
        TOTAL.with(|t| { let mut t = t.borrow_mut(); t.0 += n; t.1 += f; });
    }
)+ }}}
thread_local! { static TOTAL: std::cell::RefCell<(u64, u64)> = std::cell::RefCell::new((0, 0)); }

fn main() {
    rgb_rt!(Rgb332, RawU8, 8, 3, 3, 2, true);
    rgb_rt!(Rgb444, RawU16, 16, 4, 4, 4, true);
    rgb_rt!(Rgb555, RawU16, 16, 5, 5, 5, true);
    rgb_rt!(Bgr555, RawU16, 16, 5, 5, 5, false);
    rgb_rt!(Rgb565, RawU16, 16, 5, 6, 5, true);
    rgb_rt!(Bgr565, RawU16, 16, 5, 6, 5, false);
    rgb_rt!(Rgb666, RawU24, 24, 6, 6, 6, true);
    rgb_rt!(Bgr666, RawU24, 24, 6, 6, 6, false);
    rgb_rt!(Rgb888, RawU24, 24, 8, 8, 8, true);
    rgb_rt!(Bgr888, RawU24, 24, 8, 8, 8, false);
    conv!(Rgb332 => Rgb444, Rgb555, Bgr555, Rgb565, Bgr565, Rgb666, Bgr666, Rgb888, Bgr888);
    conv!(Rgb444 => Rgb332, Rgb555, Bgr555, Rgb565, Bgr565, Rgb666, Bgr666, Rgb888, Bgr888);
    conv!(Rgb555 => Rgb332, Rgb444, Bgr555, Rgb565, Bgr565, Rgb666, Bgr666, Rgb888, Bgr888);
    conv!(Rgb565 => Rgb332, Rgb444, Rgb555, Bgr555, Bgr565, Rgb666, Bgr666, Rgb888, Bgr888);
    conv!(Rgb666 => Rgb332, Rgb444, Rgb555, Bgr555, Rgb565, Bgr666, Bgr565, Bgr888, Rgb888);
    conv!(Rgb888 => Rgb332, Rgb444, Rgb555, Bgr555, Rgb565, Rgb666, Bgr666, Bgr565, Bgr888);
    TOTAL.with(|t| println!("== C13 rgb->rgb total {:?}", t.borrow()));
    // gray
    let mut f = 0; let mut worst: f64 = 0.0;
    for r in 0..=255u8 { for g in 0..=255u8 { for b in (0..=255u8).step_by(3) {
        let y = Gray8::from(Rgb888::new(r, g, b)).luma() as f64;
        let ideal = 0.299 * r as f64 + 0.587 * g as f64 + 0.114 * b as f64;
        worst = worst.max((y - ideal).abs());
        let on = BinaryColor::from(Rgb888::new(r, g, b));
        if on.is_on() != (y >= 128.0) { f += 1; }
    }}}
    println!("== C13 luma worst deviation from BT.601 = {:.3}; binary threshold failures = {}", worst, f);
    let mut f = 0;
    for l in 0..=255u8 { let c = Rgb888::from(Gray8::new(l)); if (c.r(), c.g(), c.b()) != (l, l, l) || Gray8::from(c).luma() != l { f += 1; } }
    for l in 0..16u8 { for_each_rgb(l, &mut f); }
    println!("== C13 gray failures {}", f);
}
fn for_each_rgb(l: u8, f: &mut i32) {
    let g = Gray4::new(l);
    macro_rules! t { ($($t:ident),+) => { $( { let c = $t::from(g); if $t::MAX_R >= 15 && $t::MAX_G >= 15 && $t::MAX_B >= 15 { if Gray4::from(c) != g { *f += 1; println!("gray4 {} via {} -> {:?}", l, stringify!($t), Gray4::from(c)); } } } )+ } }
    t!(Rgb332, Rgb444, Rgb555, Bgr555, Rgb565, Bgr565, Rgb666, Bgr666, Rgb888, Bgr888);
}
