use egx::*;
use std::collections::BTreeMap;
type Map = BTreeMap<(i32, i32), Gray8>;

#[derive(Debug, Clone)]
enum Op { Iter(Vec<(Point, u8)>), Contig(Rectangle, Vec<u8>), Solid(Rectangle, u8), Clear(u8) }
#[derive(Debug, Clone, Copy)]
enum Ad { Clip(Rectangle), Crop(Rectangle), Trans(Point) }

fn rrect(rng: &mut Rng) -> Rectangle { Rectangle::new(Point::new(rng.range(-6, 10), rng.range(-6, 10)), Size::new(rng.range(0, 9) as u32, rng.range(0, 9) as u32)) }

fn apply<T: DrawTarget<Color = Gray8, Error = usize>>(t: &mut T, op: &Op) {
    match op {
        Op::Iter(v) => t.draw_iter(v.iter().map(|(p, c)| Pixel(*p, Gray8::new(*c)))).unwrap(),
        Op::Contig(a, v) => t.fill_contiguous(a, v.iter().map(|c| Gray8::new(*c))).unwrap(),
        Op::Solid(a, c) => t.fill_solid(a, Gray8::new(*c)).unwrap(),
        Op::Clear(c) => t.clear(Gray8::new(*c)).unwrap(),
    }
}
trait Erased {
    fn e_bb(&self) -> Rectangle;
    fn e_iter(&mut self, it: &mut dyn Iterator<Item = Pixel<Gray8>>) -> Result<(), usize>;
    fn e_contig(&mut self, a: &Rectangle, it: &mut dyn Iterator<Item = Gray8>) -> Result<(), usize>;
    fn e_solid(&mut self, a: &Rectangle, c: Gray8) -> Result<(), usize>;
    fn e_clear(&mut self, c: Gray8) -> Result<(), usize>;
}
impl<T: DrawTarget<Color = Gray8, Error = usize>> Erased for T {
    fn e_bb(&self) -> Rectangle { self.bounding_box() }
    fn e_iter(&mut self, it: &mut dyn Iterator<Item = Pixel<Gray8>>) -> Result<(), usize> { self.draw_iter(it) }
    fn e_contig(&mut self, a: &Rectangle, it: &mut dyn Iterator<Item = Gray8>) -> Result<(), usize> { self.fill_contiguous(a, it) }
    fn e_solid(&mut self, a: &Rectangle, c: Gray8) -> Result<(), usize> { self.fill_solid(a, c) }
    fn e_clear(&mut self, c: Gray8) -> Result<(), usize> { self.clear(c) }
}
struct Dyn<'a>(&'a mut dyn Erased);
impl Dimensions for Dyn<'_> { fn bounding_box(&self) -> Rectangle { self.0.e_bb() } }
impl DrawTarget for Dyn<'_> {
    type Color = Gray8; type Error = usize;
    fn draw_iter<I: IntoIterator<Item = Pixel<Gray8>>>(&mut self, p: I) -> Result<(), usize> { self.0.e_iter(&mut p.into_iter()) }
    fn fill_contiguous<I: IntoIterator<Item = Gray8>>(&mut self, a: &Rectangle, c: I) -> Result<(), usize> { self.0.e_contig(a, &mut c.into_iter()) }
    fn fill_solid(&mut self, a: &Rectangle, c: Gray8) -> Result<(), usize> { self.0.e_solid(a, c) }
    fn clear(&mut self, c: Gray8) -> Result<(), usize> { self.0.e_clear(c) }
}
fn through(t: &mut dyn Erased, ads: &[Ad], op: &Op) {
    let mut d = Dyn(t);
    match ads.split_first() {
        None => apply(&mut d, op),
        Some((Ad::Clip(r), rest)) => through(&mut d.clipped(r), rest, op),
        Some((Ad::Crop(r), rest)) => through(&mut d.cropped(r), rest, op),
        Some((Ad::Trans(p), rest)) => through(&mut d.translated(*p), rest, op),
    }
}
// reference model: returns (shift to parent coords, clip region in parent coords or None = unclipped, bbox in adapter coords)
fn model(pb: Rectangle, ads: &[Ad]) -> (Point, Option<Rectangle>, Rectangle) {
    let mut shift = Point::zero(); let mut clip: Option<Rectangle> = None; let mut bb = pb; // bb in current coords
    for a in ads {
        match a {
            Ad::Clip(r) => { let c = r.intersection(&bb); bb = c; let cp = c.translate(shift); clip = Some(match clip { None => cp, Some(o) => if cp.is_zero_sized() { cp } else { o.intersection(&cp) } }); if cp.is_zero_sized() { clip = Some(Rectangle::zero()); } }
            Ad::Crop(r) => { let c = r.intersection(&bb); shift = shift + c.top_left; bb = Rectangle::new(Point::zero(), c.size); }
            Ad::Trans(p) => { shift = shift + *p; bb = bb.translate(-*p); }
        }
    }
    (shift, clip, bb)
}
fn expected(parent_bb: Rectangle, ads: &[Ad], op: &Op, m: &mut Map) {
    let (shift, clip, bb) = model(parent_bb, ads);
    let put = |m: &mut Map, p: Point, c: u8| { let q = p + shift; if clip.map_or(true, |c| c.contains(q)) { m.insert((q.x, q.y), Gray8::new(c)); } };
    match op {
        Op::Iter(v) => for (p, c) in v { put(m, *p, *c); },
        Op::Contig(a, v) => for (p, c) in a.points().zip(v.iter()) { put(m, p, *c); },
        Op::Solid(a, c) => for p in a.points() { put(m, p, *c); },
        Op::Clear(c) => {
            // clear fills the adapter's bounding box... except translated forwards to parent.clear
            // model: area = bb of the innermost adapter; but Translated::clear -> parent.clear => parent's bbox (same set). 
            for p in bb.points() { put(m, p, *c); }
        }
    }
}
fn main() {
    let mut rng = Rng(3);
    let (mut n, mut f, mut f_bb) = (0, 0, 0); let mut shown = 0; let mut panics = 0; let mut pshown = 0; std::panic::set_hook(Box::new(|_| {}));
    for it in 0..60000 {
        let parent_bb = if it % 5 == 0 { Rectangle::new(Point::new(rng.range(-3, 3), rng.range(-3, 3)), Size::new(rng.range(0, 3) as u32, rng.range(0, 12) as u32)) } else { Rectangle::new(Point::new(rng.range(-3, 3), rng.range(-3, 3)), Size::new(rng.range(4, 12) as u32, rng.range(4, 12) as u32)) };
        let depth = rng.range(1, 3) as usize;
        let ads: Vec<Ad> = (0..depth).map(|_| match rng.next() % 3 { 0 => Ad::Clip(rrect(&mut rng)), 1 => Ad::Crop(rrect(&mut rng)), _ => Ad::Trans(Point::new(rng.range(-4, 4), rng.range(-4, 4))) }).collect();
        let op = match rng.next() % 4 {
            0 => Op::Iter((0..rng.range(0, 12)).map(|_| (Point::new(rng.range(-8, 14), rng.range(-8, 14)), rng.next() as u8)).collect()),
            1 => { let a = rrect(&mut rng); let full = (a.size.width * a.size.height) as i32; let len = if rng.next() % 2 == 0 { full } else { rng.range(0, full + 3) }; Op::Contig(a, (0..len).map(|_| rng.next() as u8).collect()) }
            2 => Op::Solid(rrect(&mut rng), rng.next() as u8),
            _ => Op::Clear(rng.next() as u8),
        };
        for native in [false, true] {
            n += 1;
            let mut exp = Map::new(); expected(parent_bb, &ads, &op, &mut exp);
            let got = std::panic::catch_unwind(std::panic::AssertUnwindSafe(|| if native { let mut t = Rec::<Gray8>::new(true).with_bbox(parent_bb); through(&mut t, &ads, &op); t.map } else { let mut t = IterOnly(Rec::<Gray8>::new(false).with_bbox(parent_bb)); through(&mut t, &ads, &op); t.0.map }));
            let got = match got { Ok(g) => g, Err(_) => { panics += 1; if pshown < 3 { pshown += 1; println!("PANIC parent={:?} ads={:?} op={:?}", parent_bb, ads, op); } continue; } };
            if got != exp { f += 1; if shown < 8 { shown += 1; println!("MISMATCH native={} parent={:?} ads={:?} op={:?}\n   got {} exp {}", native, parent_bb, ads, op, got.len(), exp.len()); } }
        }
        let _ = &mut f_bb;
    }
    println!("== C03 n={} mismatches={} panics={}", n, f, panics);
}
