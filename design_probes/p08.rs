use egx::*;
use std::panic::{catch_unwind, AssertUnwindSafe};
use std::sync::Mutex;
use std::collections::BTreeMap;

static LOCS: Mutex<BTreeMap<String, (usize, String)>> = Mutex::new(BTreeMap::new());
static CUR: Mutex<String> = Mutex::new(String::new());

struct Null(Rectangle, u64);
impl Dimensions for Null { fn bounding_box(&self) -> Rectangle { self.0 } }
impl DrawTarget for Null {
    type Color = Rgb888; type Error = core::convert::Infallible;
    fn draw_iter<I: IntoIterator<Item = Pixel<Rgb888>>>(&mut self, p: I) -> Result<(), Self::Error> { for Pixel(q, _) in p { self.1 = self.1.wrapping_add(q.x as u64); } Ok(()) }
    fn fill_solid(&mut self, a: &Rectangle, _c: Rgb888) -> Result<(), Self::Error> { self.1 += a.size.width as u64; Ok(()) }
}

fn b(rng: &mut Rng) -> i32 { // boundary biased coordinate
    match rng.next() % 4 { 0 => rng.pick(&[0, 1, 2, 63, 64, 65, 255, 256, 257, 240, 320, 480, 1024, -1, -2, -64, -256, -1024]), 1 => rng.range(-1024, 1024), 2 => rng.range(-100, 100), _ => rng.range(-400, 400) }
}
fn sz(rng: &mut Rng) -> u32 { b(rng).unsigned_abs() }
fn sw(rng: &mut Rng) -> u32 { match rng.next() % 3 { 0 => rng.range(0, 5) as u32, 1 => rng.range(0, 128) as u32, _ => rng.pick(&[0u32, 1, 2, 3, 64, 127, 128]) } }
fn style(rng: &mut Rng) -> PrimitiveStyle<Rgb888> {
    let mut bld = PrimitiveStyleBuilder::new();
    if rng.next() % 4 != 0 { bld = bld.fill_color(Rgb888::GREEN); }
    if rng.next() % 4 != 0 { bld = bld.stroke_color(Rgb888::RED); }
    bld.stroke_width(sw(rng)).stroke_alignment(rng.pick(&[StrokeAlignment::Inside, StrokeAlignment::Center, StrokeAlignment::Outside])).build()
}

macro_rules! go { ($kind:expr, $p:expr, $style:expr, $cnt:expr) => {{
    let p = $p; let style = $style;
    *CUR.lock().unwrap() = format!("{} {:?} {:?}", $kind, p, style);
    $cnt.0 += 1;
    let r = catch_unwind(AssertUnwindSafe(|| {
        let s = p.into_styled(style);
        let mut t = Null(Rectangle::new(Point::new(-2000, -2000), Size::new(4000, 4000)), 0);
        let _ = s.bounding_box();
        s.draw(&mut t).unwrap();
        let mut n = 0u64; for _ in s.pixels().take(5_000_000) { n += 1; }
        n
    }));
    if r.is_err() { $cnt.1 += 1; }
}}}

fn main() {
    std::panic::set_hook(Box::new(|info| {
        let loc = info.location().map(|l| format!("{}:{}", l.file().rsplit("/repo/").next().unwrap_or(""), l.line())).unwrap_or_default();
        let msg = if let Some(s) = info.payload().downcast_ref::<&str>() { s.to_string() } else if let Some(s) = info.payload().downcast_ref::<String>() { s.clone() } else { "?".into() };
        let key = format!("{} :: {}", loc, msg);
        let cur = CUR.lock().unwrap().clone();
        let mut l = LOCS.lock().unwrap();
        let e = l.entry(key).or_insert((0, cur));
        e.0 += 1;
    }));
    let mut rng = Rng(4242);
    let n: usize = std::env::args().nth(1).map(|s| s.parse().unwrap()).unwrap_or(300);
    let mut c = [(0usize, 0usize); 9];
    for _ in 0..n {
        go!("rect", Rectangle::new(Point::new(b(&mut rng), b(&mut rng)), Size::new(sz(&mut rng), sz(&mut rng))), style(&mut rng), c[0]);
        go!("circle", Circle::new(Point::new(b(&mut rng), b(&mut rng)), sz(&mut rng)), style(&mut rng), c[1]);
        go!("ellipse", Ellipse::new(Point::new(b(&mut rng), b(&mut rng)), Size::new(sz(&mut rng), sz(&mut rng))), style(&mut rng), c[2]);
        let mut r = |rng: &mut Rng| Size::new(sz(rng), sz(rng));
        let radii = CornerRadii { top_left: r(&mut rng), top_right: r(&mut rng), bottom_right: r(&mut rng), bottom_left: r(&mut rng) };
        go!("rrect", RoundedRectangle::new(Rectangle::new(Point::new(b(&mut rng), b(&mut rng)), Size::new(sz(&mut rng), sz(&mut rng))), radii), style(&mut rng), c[3]);
        go!("line", Line::new(Point::new(b(&mut rng), b(&mut rng)), Point::new(b(&mut rng), b(&mut rng))), style(&mut rng), c[5]);
        go!("arc", Arc::new(Point::new(b(&mut rng), b(&mut rng)), sz(&mut rng), (rng.range(-720, 720) as f32).deg(), (rng.range(-720, 720) as f32).deg()), style(&mut rng), c[6]);
        go!("sector", Sector::new(Point::new(b(&mut rng), b(&mut rng)), sz(&mut rng), (rng.range(-720, 720) as f32).deg(), (rng.range(-720, 720) as f32).deg()), style(&mut rng), c[7]);
    }
    // triangles and polylines are slow for huge sizes: fewer
    for _ in 0..n / 4 {
        let scale = rng.pick(&[20, 100, 300, 1024]);
        let mut q = |rng: &mut Rng| Point::new(rng.range(-scale, scale), rng.range(-scale, scale));
        let mut st = style(&mut rng); if scale > 300 { st.stroke_width = st.stroke_width.min(20); }
        go!("tri", Triangle::new(q(&mut rng), q(&mut rng), q(&mut rng)), st, c[4]);
        let nv = rng.range(0, 5) as usize;
        let v: Vec<Point> = (0..nv).map(|_| q(&mut rng)).collect();
        let mut st = style(&mut rng); if scale > 300 { st.stroke_width = st.stroke_width.min(20); }
        go!("polyline", Polyline::new(&v), st, c[8]);
    }
    println!("counts (n, panics): rect {:?} circle {:?} ellipse {:?} rrect {:?} tri {:?} line {:?} arc {:?} sector {:?} polyline {:?}", c[0], c[1], c[2], c[3], c[4], c[5], c[6], c[7], c[8]);
    for (k, (n, ex)) in LOCS.lock().unwrap().iter() { println!("{:6} {}\n        e.g. {}", n, k, &ex[..ex.len().min(300)]); }
}
