use egx::*;
use std::collections::BTreeSet;
type S = BTreeSet<(i32, i32)>;
fn set<I: Iterator<Item = Point>>(i: I) -> S { i.map(|p| (p.x, p.y)).collect() }
fn main() {
    let mut rng = Rng(19);
    let (mut n, mut f_any, mut f_cw, mut deg) = (0, 0, 0, 0); let mut shown = 0;
    for it in 0..40000 {
        let r = if it % 3 == 0 { 30 } else { 7 };
        let mut q = |rng: &mut Rng| Point::new(rng.range(-r, r), rng.range(-r, r));
        let (a, b, c) = (q(&mut rng), q(&mut rng), q(&mut rng));
        let t = Triangle::new(a, b, c);
        let align = rng.pick(&[StrokeAlignment::Inside, StrokeAlignment::Center, StrokeAlignment::Outside]);
        let outl: S = t.into_styled(PrimitiveStyleBuilder::new().stroke_color(Rgb888::RED).stroke_width(1).stroke_alignment(align).build()).pixels().map(|p| (p.0.x, p.0.y)).collect();
        n += 1;
        let edges = [(a, b), (b, c), (c, a)];
        let mut ok = false;
        for mask in 0..8 {
            let mut u = S::new();
            for (i, (x, y)) in edges.iter().enumerate() { if mask >> i & 1 == 0 { u.extend(set(Line::new(*x, *y).points())); } else { u.extend(set(Line::new(*y, *x).points())); } }
            if u == outl { ok = true; }
        }
        let area = (b.x - a.x) * (c.y - a.y) - (c.x - a.x) * (b.y - a.y);
        if !ok { f_any += 1; if area == 0 { deg += 1; } if shown < 10 { shown += 1; let u = set(Line::new(a, b).points().chain(Line::new(b, c).points()).chain(Line::new(c, a).points())); println!("NOT-LINES {:?} al={:?} area={} extra={:?} missing={:?}", t, align, area, outl.difference(&u).collect::<Vec<_>>(), u.difference(&outl).collect::<Vec<_>>()); } }
        let _ = &mut f_cw;
    }
    println!("n={} not any direction combo={} (degenerate {})", n, f_any, deg);
}
