#!/bin/bash
# Regenerates the regression tapes under /verif/regress/ after a generator change.
#  1. tools_seed_regress.sh real-   : every reverted fix commit (seeded/real-F-<n>) is applied to a scratch
#     copy of /repo, the quick check of its property is run there WITHOUT regression tapes, and the shrunk
#     replay of the detection is saved as seeded/real-F-<n>/replay.json   (skip with --no-run)
#  2. the replays become regress/<property>/F<nn>-<sub>-<signature>.json (older F<nn>-* files are removed)
#  3. the tapes of the KNOWN findings are regenerated on the unchanged tree with an empty known-findings
#     list in a scratch root (so that the finding is reported as a violation and its tape is written).
set -u
cd /verif
if [ "${1:-}" != "--no-run" ]; then ./tools_seed_regress.sh real- || exit 2; fi
python3 - <<'PY'
import json, glob, os, re
for d in sorted(glob.glob('/verif/seeded/real-F-*/')):
    rp = os.path.join(d, 'replay.json')
    if not os.path.exists(rp):
        print('no replay for', d); continue
    m = json.load(open(os.path.join(d, 'meta.json')))
    v = json.load(open(rp))
    if v.get('mode') != 'tape':
        # found by an enumeration: the enumeration itself is the regression (it runs in every tier)
        print(m['name'], 'found by the enumeration', v.get('sub'), '- no tape needed')
        n = int(m['name'].split('-')[-1])
        for old in glob.glob('/verif/regress/%s/F%02d-*.json' % (m['property'], n)): os.remove(old)
        continue
    n = int(m['name'].split('-')[-1])
    pid = m['property']
    os.makedirs('/verif/regress/' + pid, exist_ok=True)
    for old in glob.glob('/verif/regress/%s/F%02d-*.json' % (pid, n)): os.remove(old)
    slug = re.sub(r'[^a-z0-9]+', '-', re.sub(r'/rustc/[0-9a-f]+/', '', v['sub'] + '-' + v['signature']).lower())[:70].strip('-')
    v['finding'] = 'F-%d' % n
    v['fixed_by'] = m.get('fix_commit')
    out = '/verif/regress/%s/F%02d-%s.json' % (pid, n, slug)
    json.dump(v, open(out, 'w'), indent=1)
    print('wrote', out)
PY
# known findings: tapes from the unchanged tree
S=/tmp/regress-known; rm -rf "$S"; mkdir -p "$S/replays" "$S/evidence" "$S/regress"
echo '{"_comment":"empty on purpose","findings":[]}' > "$S/known_findings.json"
./check --build || exit 2
for PS in "C14 custom_fonts" "C15 layout_spaced_fonts" "C02 text_spaced_fonts" "C18 sectors_random" "C06 rounded_rectangle"; do
  set -- $PS
  rm -f "$S/replays/"*.json
  VERIF_ROOT="$S" ./harness/target/release/egverif run "$1" quick --only "$2" > "$S/log" 2>&1
  RP=$(grep -m1 "^VIOLATION property=" "$S/log" | sed 's/.*replay=//')
  if [ -n "$RP" ] && [ -f "$RP" ]; then
    SIG=$(python3 -c "import json;print(json.load(open('$RP'))['signature'])")
    F=$(python3 -c "
import json
k=json.load(open('/verif/known_findings.json'))
print(next((e['id'] for e in k['findings'] if e['status']=='known' and e['property']=='$1' and e['sig']=='$SIG'), ''))")
    if [ -n "$F" ]; then
      N=$(echo "$F" | sed 's/F-//'); mkdir -p "regress/$1"; rm -f regress/$1/F$(printf %02d $N)-*.json
      cp "$RP" "regress/$1/F$(printf %02d $N)-known-$2.json"; echo "wrote regress/$1/F$(printf %02d $N)-known-$2.json ($SIG)"
    else
      echo "WARNING: $1/$2 reports $SIG on the unchanged tree, which is not a listed known finding"
    fi
  else
    echo "note: $1/$2 reports nothing on the unchanged tree with an empty known-findings list"
  fi
done
rm -rf "$S"
