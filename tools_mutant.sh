#!/bin/bash
# Hand-made mutant: apply a sed expression to a file of a scratch copy of /repo and run quick checks there.
#   tools_mutant.sh <file relative to the repo root> <sed expression> <property> [--only sub]
# Uses the scratch copies of tools_seed.sh's scratch mode under /tmp/seedscratch; /repo is not touched.
set -u
F="$1"; EXPR="$2"; P="$3"; shift 3
S=/tmp/seedscratch
mkdir -p "$S/root/evidence" "$S/root/replays"
[ -d "$S/repo" ] || git -C /repo worktree add -q --detach "$S/repo" HEAD || exit 2
git -C "$S/repo" checkout -q --detach "$(git -C /repo rev-parse HEAD)"; git -C "$S/repo" checkout -q -- .
rsync -a --exclude target --exclude target-fp --exclude '*.log' /verif/harness/ "$S/harness/"
sed -i "s#/repo#$S/repo#g" "$S/harness/Cargo.toml" "$S/harness/build.rs"
cp /verif/known_findings.json "$S/root/"; rm -rf "$S/root/regress"; mkdir -p "$S/root/regress"
sed -i -E "$EXPR" "$S/repo/$F"
git -C "$S/repo" diff --stat | tail -1
[ -n "$(git -C "$S/repo" diff)" ] || { echo "the expression changed nothing"; exit 2; }
export CARGO_NET_OFFLINE=true; unset CARGO_TARGET_DIR
( cd "$S/harness" && cargo build --release --offline -q --target-dir target 2>"$S/build.log" && cargo build --release --offline -q --features fixed_point --target-dir target-fp 2>"$S/build-fp.log" ) || { echo "mutant does not build"; tail -5 "$S/build.log"; git -C "$S/repo" checkout -q -- .; exit 2; }
VERIF_ROOT="$S/root" EGVERIF_BIN="$S/harness/target/release/egverif" EGVERIF_FP_BIN="$S/harness/target-fp/release/egverif" "$S/harness/target/release/egverif" run "$P" quick "$@" 2>&1 | grep -E "^violation in|^  detail|VIOLATION|total:" | cut -c1-300
git -C "$S/repo" checkout -q -- .
