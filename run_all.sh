#!/bin/bash
# Runs every check of MANIFEST.json in the given tier (default quick) on /repo as it is and prints one
# line per property: exit code, wall time, VIOLATION / KNOWN-FINDING lines. Evidence files are rewritten.
TIER="${1:-quick}"
cd "$(dirname "$0")"
./check --build || exit 2
RC=0
for P in C01 C02 C03 C04 C05 C06 C07 C08 C09 C10 C11 C12 C13 C14 C15 C16 C17 C18 C19 C20; do
  T0=$(date +%s.%N)
  OUT=$(./check $P $TIER 2>&1); R=$?
  T1=$(date +%s.%N)
  printf "%s %s exit=%d %.1fs %s\n" "$P" "$TIER" "$R" "$(echo "$T1 - $T0" | bc)" "$(echo "$OUT" | grep -c '^KNOWN-FINDING') known-finding line(s)"
  echo "$OUT" | grep "^VIOLATION\|^INCONCLUSIVE" | cut -c1-300
  [ $R -ne 0 ] && RC=1
done
exit $RC
