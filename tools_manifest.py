#!/usr/bin/env python3
"""Generates /verif/MANIFEST.json. Edit the table below, then run: python3 tools_manifest.py"""
import json

# id -> (level category, technique, level text, level note, design ref)
P = {
 "C01": ("exploration", "differential property-based testing (proptest tapes): draw() on a draw_iter-only target vs draw() on a native-fill target vs pixels() through draw_iter, also through clip windows; shapes to 3000 px on a row-sampling target",
         "Generated search over all drawables x styles x positions x colour types with a three-way differential oracle between the library's drawing paths on two independent reference targets; holds on every generated case, no proof of absence.",
         "Trusted: the two reference DrawTargets of the harness (documented semantics of fill_contiguous/fill_solid/clear). Pixel maps compared exactly up to 300 px, on sampled rows up to 3000 px.", "DESIGN.md 4/C01"),
 "C02": ("exploration", "property-based testing with a validity predicate (every touched point inside bounding_box(); transparent styles draw nothing), all built-in fonts enumerated",
         "Generated search over drawables/styles/positions and an enumeration of every built-in font x style matrix; containment judged on a recording target that never clips.",
         "Tightness of the box is not asserted, only containment. Font table is extracted from /repo's generated modules at build time.", "DESIGN.md 4/C02"),
 "C03": ("exploration", "model-based stateful property testing: generated operation histories through adapter stacks (depth <= 3) compared with a set-theoretic reference model after every operation; libFuzzer on the same decoder in the thorough tier",
         "Histories of draw_iter/fill_contiguous/fill_solid/clear through random nestings of clipped/cropped/translated/color_converted over native and default parents with arbitrary (also empty) bounding boxes, judged against a model written from the DrawTargetExt documentation.",
         "Trusted: the model (plain set arithmetic on points) and the reference targets. Depth <= 3, areas <= 12x12.", "DESIGN.md 4/C03"),
 "C04": ("fault_enumeration", "fault injection with complete enumeration of the failing call index k for every generated drawable/adapter stack; call-log comparison with the fault-free run",
         "For every generated drawable the fault-free call log is recorded and then every k < n is re-run with the k-th target call failing: result must be exactly Err(E(k)), no later call, identical prefix.",
         "Trusted: the logging/fault-injecting target. The set of drawables is generated, the set of fault points per drawable is complete up to 96 target calls and sampled (ends, every n/40-th, 16 derived positions) for the large drawables beyond.", "DESIGN.md 4/C04"),
 "C05": ("exploration", "exhaustive small-domain enumeration plus proptest: points() compared with the set {q : contains(q)} on bounding box + margin; shapes of 1025..=4600 px with the whole points() stream consumed and contains() on sampled rows; iterator-protocol oracle (provided Iterator methods vs repeated next() on pre-advanced iterators)",
         "Complete enumeration of small rectangles, circles, ellipses, rounded rectangles and grid triangles plus random larger shapes and sectors; both directions (no point missing, none extra, none twice, row-major, inside the box).",
         "contains() is probed on the bounding box plus a margin of 3 pixels only. Zero-area triangles excluded by construction as the statement says.", "DESIGN.md 4/C05"),
 "C06": ("exploration", "property-based testing and complete small-shape enumerations (ellipses <= 64x64 x every inside stroke width, circles, rectangles, rounded rectangles x widths x alignments x colour presence) against a reference renderer built from fill_area()/stroke_area().contains(), plus exact geometric clause on the offset areas and the iterator-protocol oracle on pixels()",
         "Generated closed shapes with strokes often wider than the shape; expected colour of every point computed from the hit-test API and compared with draw() and pixels().",
         "Trusted: contains() of the four shapes (pinned separately by C05/C18). Shapes of 1025..=20000 px and every circle diameter up to 6000 (thorough 20000) are judged on sampled rows of a row-sampling target.", "DESIGN.md 4/C06"),
 "C07": ("exploration", "metamorphic property-based testing: draw(x.translate(d)) == shift(draw(x), d), same for points(), contains(), bounding_box(), text position",
         "Generated drawables (emphasis on thick triangles/polylines) and offsets crossing the axes; pixel maps compared exactly.",
         "Pixel maps compared exactly for offsets within +-60 (+-1100 for the large joins, +-30000 for far placements); shapes of 1025..=20000 px moved by up to +-3000 on sampled rows.", "DESIGN.md 4/C07"),
 "C08": ("exploration", "robustness fuzzing: boundary-biased proptest tapes and coverage-guided libFuzzer over the display-scale domain in a build with overflow checks and debug assertions, catch_unwind + step budgets + counting global allocator",
         "Every constructor/query/draw of every drawable and adapter stack on display-scale inputs must return without panic, within a step budget, with zero allocations on the armed thread; default and fixed_point builds.",
         "No-allocation is observed per executed path only. A non-terminating loop without target calls is reported as inconclusive (watchdog), not as a violation.", "DESIGN.md 4/C08"),
 "C09": ("exploration", "property-based testing against an independent bit-level reference of the documented raw image layout; drained-colour-stream length check on a native target",
         "All 7 raw widths x 2 data orders x sizes 0..=17 x random bytes x offsets x nested sub-images, judged by a reference reader of the documented layout and by a target that drains fill_contiguous streams.",
         "Trusted: the reference layout reader (written from the ImageRaw documentation).", "DESIGN.md 4/C09"),
 "C10": ("exploration", "model-based stateful property testing: generated write histories on framebuffers of all depths/orders vs a last-write map and an independent byte-layout reference",
         "Histories of set_pixel/draw_iter/fill_solid/clear/drawables on 14 colour-depth/data-order combinations x row-aligned and unaligned sizes x exact and oversized buffers; read-back, byte image and as_image() compared after every step.",
         "Framebuffer sizes are const generics, so a fixed list of sizes is instantiated.", "DESIGN.md 4/C10"),
 "C11": ("exploration", "exhaustive enumeration (<= 16 bit) and proptest round-trip/frame-condition checks of raw load/store and RawDataSlice iteration against an independent layout reference; structured huge indices; buffers to 64 KiB; size_hint / nth on lengths to 16 MiB; iterator-protocol oracle",
         "store/load round trip, untouched neighbours and padding, documented byte/bit layout, out-of-range rejection, iterator == load(0..), nth and size_hint, for 7 raw types x 2 orders.",
         "Buffers up to 9 bytes; 24/32-bit values sampled.", "DESIGN.md 4/C11"),
 "C12": ("exploration", "exhaustive enumeration of every storage value of every colour type with round-trip and documented-layout oracles; RawData::from_u32 on values wider than the type",
         "Every raw storage value of every built-in colour type (24-bit types complete in the thorough tier) checked for round trip, masking, channel accessors, documented bit layout and byte-order functions.",
         "Quick tier strides the four 24-bit types (complete in thorough).", "DESIGN.md 4/C12"),
 "C13": ("exploration", "exhaustive enumeration of source colours for every provided conversion with an exact integer nearest-value oracle; the 141 named web colours x 8 types against the conversion",
         "All ordered pairs of colour types with a From impl x every source value (<= 16 bit complete; the two 24-bit sources complete as well, in both tiers): nearest value, extremes, monotonicity, round trips, gray/binary rules.",
         "RGB->gray: only what the statement fixes is asserted (monotonicity, extremes, reproduction of gray inputs), not the luma weights.", "DESIGN.md 4/C13"),
 "C14": ("exploration", "exhaustive font-data enumeration plus property-based testing against a reference text renderer reading the glyph atlas",
         "Every built-in font x every mapped character checked for a unique in-image cell; random strings rendered and compared with a renderer built from font.image.pixel(); custom fonts with spacing and multi-row atlases.",
         "Trusted: ImageRaw::pixel (pinned by C09). Font table extracted from /repo at build time.", "DESIGN.md 4/C14"),
 "C15": ("exploration", "metamorphic/relational property-based testing over Text layout (measure vs draw, concatenation, alignment, baseline, line splitting, CRLF)",
         "Generated strings x fonts x alignments x baselines x line heights; relations between API calls compared exactly.",
         "Concatenation is only claimed for fonts without spacing, as stated.", "DESIGN.md 4/C15"),
 "C16": ("exploration", "exhaustive enumeration of rectangle pairs on a small grid with explicit point-set oracles plus proptest on large (also edge-aligned) rectangles; iterator-protocol oracle on points()",
         "All ordered pairs of the 900 (quick) / 1764 (thorough) grid rectangles and all single-rectangle operations against explicit point sets; random rectangles to +-2^20 against interval arithmetic.",
         "envelope judged by the documented zero-size-counts-as-one rule.", "DESIGN.md 4/C16"),
 "C17": ("exploration", "exhaustive enumeration of small lines x widths plus proptest, judged by exact rational distance to the ideal line",
         "All lines with deltas in [-9,9]^2 from 6 start points x widths 1..=10 and random long lines: end points, count, steps, half-pixel bound; thick lines: no duplicates, superset of thin line, distance/overshoot/width bounds.",
         "The w/2+2.5 bound is claimed for widths <= 24 only (see DESIGN).", "DESIGN.md 4/C17"),
 "C18": ("exploration", "exhaustive enumeration of diameters/axis pairs and 1-degree angle grid plus proptest, judged by exact integer / f64 geometry of the ideal shapes; default and fixed_point builds",
         "Circles d<=128, ellipses, rounded rectangles, sectors and arcs compared with ideal curves within the stated bands, symmetry, contiguity, equivalences between descriptions, angular boundary tolerance 1.5 px.",
         "f64 is used only for clauses with a stated tolerance. Circles and ellipses of 1025..=20000 px are judged on sampled rows.", "DESIGN.md 4/C18"),
 "C19": ("exploration", "exhaustive grid enumeration plus proptest with exact orientation-test oracles for triangles and a segment-union oracle for polylines",
         "All vertex triples on a small grid and random larger ones: interior covered, nothing further than one pixel from an edge, vertex-order independence, shared-edge agreement; outline = three edge lines (either direction), polyline = concatenated segments.",
         "Each outline edge may be rasterised in either direction. One-pixel outlines and polylines with edges up to 28000 px (huge_outlines) are compared as sets of pixels().", "DESIGN.md 4/C19"),
 "C20": ("exploration", "model-based stateful property testing of MockDisplay against an independent map (pixels, iterators of up to 4300 pixels, fills, clear, set_pixels, draw_pixel; swap_xy / map / from_points), with catch_unwind for the documented panics; patterns of the built-in colour types and of a user-defined ColorMapping with multi-byte characters",
         "Histories of pixel/iterator draws with in/out-of-range and repeated points under the four flag combinations; panics exactly when documented, get_pixel/affected_area/Debug/from_pattern/eq/diff agree with the model.",
         "get_pixel is only called in range (it indexes unchecked by design).", "DESIGN.md 4/C20"),
}

BUILT = set(open('/verif/built.txt').read().split())
DEDICATED_FUZZ = {"C03", "C08", "C09", "C10", "C15"}
NO_FUZZ = {"C12", "C13"}  # complete enumerations only

checks = []
na = []
for pid in sorted(P):
    cat, tech, text, note, ref = P[pid]
    if pid not in BUILT:
        na.append({"property_id": pid, "reason": "check not built yet in this round (planned: " + tech + ")"})
        continue
    checks.append({
        "property_id": pid,
        "quick_cmd": f"./check {pid} quick",
        "thorough_cmd": f"./check {pid} thorough",
        "evidence_file": f"/verif/evidence/{pid}.json",
        "replay_cmd_template": "./check --replay {path}",
        "engine": "egverif",
        "level_claimed": {"category": cat, "text": text, "design_ref": ref},
        "level_note": note,
        "technique": tech + ("" if pid in NO_FUZZ else ("; thorough tier adds a coverage-guided libFuzzer campaign on the same decoders and oracles (" + ("dedicated target" if pid in DEDICATED_FUZZ else "generic target") + ")")),
    })

m = {
    "version": 1,
    "setup_cmd": "./check --build",
    "hooks": {
        "guard": "--cfg embedded_graphics_verif",
        "enable": "no hooks are needed: every property is observed through the public API; the harness depends on /repo by path and is rebuilt from the working tree by every ./check invocation",
        "baseline_off_cmd": "cd /repo && cargo test --workspace --no-fail-fast --offline",
        "source_commits": [],
        "add_only": True,
    },
    "engines": [
        {"name": "egverif", "path": "/verif/harness", "serves_properties": sorted(BUILT),
         "kind_free_text": "Rust harness: choice-tape decoders driven by proptest (shrinking, fixed seed from VERIF_SEED), complete small-domain enumerations, replay of saved tapes; libFuzzer targets under /verif/fuzz reuse the same decoders in the thorough tier"},
    ],
    "checks": checks,
    "not_applicable": na,
    "notes": "All checks: exit 0 = held on everything explored, exit 1 + VIOLATION line = violation, exit 2 = inconclusive (build failure / watchdog). Known findings (if any) are listed in /verif/known_findings.json and printed as KNOWN-FINDING lines.",
}
json.dump(m, open('/verif/MANIFEST.json', 'w'), indent=1)
print("MANIFEST.json written:", len(checks), "checks,", len(na), "not applicable")
