#!/bin/bash
# Runs the repository's own test suite (guard off: there are no hooks) and prints a summary.
cd /repo && cargo test --workspace --no-fail-fast --offline 2>&1 | grep -E "^test result|FAILED|panicked|failed" | awk '/^test result/ {p+=$4; f+=$6} {print} END {print "TOTAL passed=" p " failed=" f}' | tail -${1:-4}
