#!/bin/bash
# Confirm a seeded change produced by a sub-agent and run the checks against it.
#   [SEED_SCRATCH=1 [SEED_SLOT=<k>]] tools_seed.sh <agent output dir (with patch.diff, seeded_demo.rs, meta.json)> <name, e.g. C06-a> <property ids to check...>
# 1. scratch worktree outside /repo and /verif: the patch applies, the workspace test suite still passes
#    with it, the demonstration fails with it and passes without it;
# 2. apply the patch to /repo, run the quick checks of the named properties, undo it straight afterwards.
# Results go to /verif/seeded/<name>/ (patch.diff, seeded_demo.rs, meta.json, result.json, check logs).
set -u
SRC="$1"; NAME="$2"; shift 2; PROPS="$*"
OUT=/verif/seeded/$NAME
mkdir -p "$OUT"
cp "$SRC/patch.diff" "$OUT/patch.diff"
cp "$SRC/seeded_demo.rs" "$OUT/seeded_demo.rs" 2>/dev/null
cp "$SRC/meta.json" "$OUT/agent_meta.json" 2>/dev/null
WT=/tmp/seedcheck-$NAME
export CARGO_TARGET_DIR=/tmp/seedcheck-target${SEED_SLOT:+-$SEED_SLOT}
export CARGO_NET_OFFLINE=true
git -C /repo worktree remove --force "$WT" 2>/dev/null
git -C /repo worktree add -q --detach "$WT" HEAD || exit 2
cd "$WT"
APPLIES=no; SUITE=unknown; DEMO_WITH=unknown; DEMO_WITHOUT=unknown
if git apply --check "$OUT/patch.diff" 2>/dev/null; then
  APPLIES=yes
  git apply "$OUT/patch.diff"
  cargo test --workspace --no-fail-fast --offline > "$OUT/suite_with_patch.log" 2>&1
  if grep -q "^test result: FAILED\|error: could not compile\|error\[" "$OUT/suite_with_patch.log"; then SUITE=fails; else SUITE=passes; fi
  grep -E "^test result" "$OUT/suite_with_patch.log" | awk '{p+=$4; f+=$6} END {print "suite with patch: passed=" p " failed=" f}'
  cp "$OUT/seeded_demo.rs" tests/seeded_demo.rs
  FEAT=""
  cargo test --offline --test seeded_demo > "$OUT/demo_with_patch.log" 2>&1
  if grep -q "^test result: ok" "$OUT/demo_with_patch.log" && grep -q "fixed_point" "$OUT/agent_meta.json" 2>/dev/null; then
    # a change that only manifests in the fixed_point build: the demonstration needs the feature
    FEAT="--features fixed_point"
    cargo test --offline $FEAT --test seeded_demo > "$OUT/demo_with_patch.log" 2>&1
    cargo test --workspace --no-fail-fast --offline $FEAT > "$OUT/suite_with_patch_fp.log" 2>&1
    if grep -q "^test result: FAILED" "$OUT/suite_with_patch_fp.log" && ! grep -B30 "^test result: FAILED" "$OUT/suite_with_patch_fp.log" | grep -q "seeded_demo"; then SUITE=fails_fixed_point; fi
    rm -f "$OUT/suite_with_patch_fp.log"
  fi
  if grep -q "^test result: ok" "$OUT/demo_with_patch.log"; then DEMO_WITH=passes; else DEMO_WITH=fails; fi
  git checkout -q -- src core
  cargo test --offline $FEAT --test seeded_demo > "$OUT/demo_without_patch.log" 2>&1
  if grep -q "^test result: ok" "$OUT/demo_without_patch.log"; then DEMO_WITHOUT=passes; else DEMO_WITHOUT=fails; fi
fi
cd /verif
unset CARGO_TARGET_DIR
git -C /repo worktree remove --force "$WT"
echo "applies=$APPLIES suite_with_patch=$SUITE demo_with_patch=$DEMO_WITH demo_without_patch=$DEMO_WITHOUT"
DETECTED=""
MISSED=""
if [ "$APPLIES" = yes ] && [ -n "${SEED_SCRATCH:-}" ]; then
  # Scratch mode: /repo is left alone (a sweep or fuzz campaign may be building from it). A worktree of
  # /repo and a copy of the harness with rewritten path dependencies live under /tmp/seedscratch and are
  # reused between calls (incremental builds); remove the directory when the round is over.
  S=/tmp/seedscratch${SEED_SLOT:+-$SEED_SLOT}
  mkdir -p "$S/root/evidence" "$S/root/replays"
  [ -d "$S/repo" ] || git -C /repo worktree add -q --detach "$S/repo" HEAD || exit 2
  git -C "$S/repo" checkout -q --detach "$(git -C /repo rev-parse HEAD)"; git -C "$S/repo" checkout -q -- .
  rsync -a --delete --exclude target --exclude target-fp --exclude "*.log" "${SEED_HARNESS:-/verif/harness}/" "$S/harness/"
  sed -i "s#/repo#$S/repo#g" "$S/harness/Cargo.toml" "$S/harness/build.rs"
  cp /verif/known_findings.json "$S/root/"; rm -rf "$S/root/regress"; cp -r /verif/regress "$S/root/regress"
  git -C "$S/repo" apply "$OUT/patch.diff"
  if ( cd "$S/harness" && cargo build --release --offline -q --target-dir target 2>"$S/build.log" && cargo build --release --offline -q --features fixed_point --target-dir target-fp 2>"$S/build-fp.log" ); then
    for P in $PROPS; do
      VERIF_ROOT="$S/root" EGVERIF_BIN="$S/harness/target/release/egverif" EGVERIF_FP_BIN="$S/harness/target-fp/release/egverif" \
        "$S/harness/target/release/egverif" run "$P" quick > "$OUT/check_$P.log" 2>&1; RC=$?
      if [ $RC -eq 1 ] && grep -q "^VIOLATION property=$P" "$OUT/check_$P.log"; then DETECTED="$DETECTED $P"; else MISSED="$MISSED $P(rc=$RC)"; fi
    done
  else
    echo "scratch harness build failed"; tail -n 5 "$S/build.log" "$S/build-fp.log"; MISSED="$PROPS(build)"
  fi
  git -C "$S/repo" checkout -q -- .
  rm -f "$S/root/replays/"*.json
elif [ "$APPLIES" = yes ]; then
  if [ -n "$(git -C /repo status --porcelain --untracked-files=no)" ]; then echo "/repo is not clean; refusing to apply"; exit 2; fi
  git -C /repo apply "$OUT/patch.diff"
  for P in $PROPS; do
    ./check "$P" quick > "$OUT/check_$P.log" 2>&1; RC=$?
    if [ $RC -eq 1 ] && grep -q "^VIOLATION property=$P" "$OUT/check_$P.log"; then DETECTED="$DETECTED $P"; else MISSED="$MISSED $P(rc=$RC)"; fi
  done
  git -C /repo checkout -- .
  rm -f /verif/replays/*.json
fi
echo "detected by:$DETECTED   not detected by:$MISSED"
python3 - "$OUT" "$NAME" "$APPLIES" "$SUITE" "$DEMO_WITH" "$DEMO_WITHOUT" "$DETECTED" "$MISSED" "$PROPS" <<'EOF'
import json, sys, os
out, name, applies, suite, dw, dwo, det, miss, props = sys.argv[1:10]
agent = {}
try: agent = json.load(open(os.path.join(out, 'agent_meta.json')))
except Exception: pass
sigs = {}
for p in props.split():
    try:
        for l in open(os.path.join(out, f'check_{p}.log')):
            if l.startswith('violation in '): sigs.setdefault(p, []).append(l.strip()[:300])
    except Exception: pass
meta = {
  "name": name,
  "property": agent.get("property", props.split()[0] if props else ""),
  "summary": agent.get("summary", ""),
  "needs": agent.get("needs", ""),
  "files": agent.get("files", []),
  "confirmed": {"patch_applies": applies, "existing_suite_with_patch": suite, "demo_with_patch": dw, "demo_without_patch": dwo,
                "how": "scratch worktree under /tmp (removed afterwards): git apply patch.diff; cargo test --workspace --no-fail-fast --offline; cargo test --offline --test seeded_demo with and without the patch"},
  "checks_run": props.split(),
  "detected_by": det.split(),
  "not_detected_by": miss.split(),
  "violation_signatures": sigs,
  "what_was_run": ("scratch mode (SEED_SCRATCH=1): worktree of /repo at HEAD plus a copy of /verif/harness with rewritten path dependencies under /tmp/seedscratch; git apply patch.diff there; both harness builds; egverif run <property> quick for each listed property; git checkout -- ." if os.environ.get("SEED_SCRATCH") else "git -C /repo apply patch.diff; ./check <property> quick for each listed property; git -C /repo checkout -- ."),
}
json.dump(meta, open(os.path.join(out, 'meta.json'), 'w'), indent=1)
EOF
