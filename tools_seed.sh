#!/bin/bash
# Confirm a seeded change produced by a sub-agent and run the checks against it.
#   tools_seed.sh <agent output dir (with patch.diff, seeded_demo.rs, meta.json)> <name, e.g. C06-a> <property ids to check...>
# 1. scratch worktree outside /repo and /verif: the patch applies, the workspace test suite still passes
#    with it, the demonstration fails with it and passes without it;
# 2. apply the patch to /repo, run the quick checks of the named properties, undo it straight afterwards.
# Results go to /verif/seeded/<name>/ (patch.diff, seeded_demo.rs, meta.json, result.json, check logs).
set -u
SRC="$1"; NAME="$2"; shift 2; PROPS="$*"
OUT=/verif/seeded/$NAME
mkdir -p "$OUT"
cp "$SRC/patch.diff" "$OUT/patch.diff"
cp "$SRC/seeded_demo.rs" "$OUT/seeded_demo.rs" 2>/dev/null
cp "$SRC/meta.json" "$OUT/agent_meta.json" 2>/dev/null
WT=/tmp/seedcheck-$NAME
export CARGO_TARGET_DIR=/tmp/seedcheck-target
export CARGO_NET_OFFLINE=true
git -C /repo worktree remove --force "$WT" 2>/dev/null
git -C /repo worktree add -q --detach "$WT" HEAD || exit 2
cd "$WT"
APPLIES=no; SUITE=unknown; DEMO_WITH=unknown; DEMO_WITHOUT=unknown
if git apply --check "$OUT/patch.diff" 2>/dev/null; then
  APPLIES=yes
  git apply "$OUT/patch.diff"
  cargo test --workspace --no-fail-fast --offline > "$OUT/suite_with_patch.log" 2>&1
  if grep -q "^test result: FAILED\|error: could not compile\|error\[" "$OUT/suite_with_patch.log"; then SUITE=fails; else SUITE=passes; fi
  grep -E "^test result" "$OUT/suite_with_patch.log" | awk '{p+=$4; f+=$6} END {print "suite with patch: passed=" p " failed=" f}'
  cp "$OUT/seeded_demo.rs" tests/seeded_demo.rs
  FEAT=""
  cargo test --offline --test seeded_demo > "$OUT/demo_with_patch.log" 2>&1
  if grep -q "^test result: ok" "$OUT/demo_with_patch.log" && grep -q "fixed_point" "$OUT/agent_meta.json" 2>/dev/null; then
    # a change that only manifests in the fixed_point build: the demonstration needs the feature
    FEAT="--features fixed_point"
    cargo test --offline $FEAT --test seeded_demo > "$OUT/demo_with_patch.log" 2>&1
    cargo test --workspace --no-fail-fast --offline $FEAT > "$OUT/suite_with_patch_fp.log" 2>&1
    if grep -q "^test result: FAILED" "$OUT/suite_with_patch_fp.log" && ! grep -B30 "^test result: FAILED" "$OUT/suite_with_patch_fp.log" | grep -q "seeded_demo"; then SUITE=fails_fixed_point; fi
    rm -f "$OUT/suite_with_patch_fp.log"
  fi
  if grep -q "^test result: ok" "$OUT/demo_with_patch.log"; then DEMO_WITH=passes; else DEMO_WITH=fails; fi
  git checkout -q -- src core
  cargo test --offline $FEAT --test seeded_demo > "$OUT/demo_without_patch.log" 2>&1
  if grep -q "^test result: ok" "$OUT/demo_without_patch.log"; then DEMO_WITHOUT=passes; else DEMO_WITHOUT=fails; fi
fi
cd /verif
unset CARGO_TARGET_DIR
git -C /repo worktree remove --force "$WT"
echo "applies=$APPLIES suite_with_patch=$SUITE demo_with_patch=$DEMO_WITH demo_without_patch=$DEMO_WITHOUT"
DETECTED=""
MISSED=""
if [ "$APPLIES" = yes ]; then
  if [ -n "$(git -C /repo status --porcelain --untracked-files=no)" ]; then echo "/repo is not clean; refusing to apply"; exit 2; fi
  git -C /repo apply "$OUT/patch.diff"
  for P in $PROPS; do
    ./check "$P" quick > "$OUT/check_$P.log" 2>&1; RC=$?
    if [ $RC -eq 1 ] && grep -q "^VIOLATION property=$P" "$OUT/check_$P.log"; then DETECTED="$DETECTED $P"; else MISSED="$MISSED $P(rc=$RC)"; fi
  done
  git -C /repo checkout -- .
  rm -f /verif/replays/*.json
fi
echo "detected by:$DETECTED   not detected by:$MISSED"
python3 - "$OUT" "$NAME" "$APPLIES" "$SUITE" "$DEMO_WITH" "$DEMO_WITHOUT" "$DETECTED" "$MISSED" "$PROPS" <<'EOF'
import json, sys, os
out, name, applies, suite, dw, dwo, det, miss, props = sys.argv[1:10]
agent = {}
try: agent = json.load(open(os.path.join(out, 'agent_meta.json')))
except Exception: pass
sigs = {}
for p in props.split():
    try:
        for l in open(os.path.join(out, f'check_{p}.log')):
            if l.startswith('violation in '): sigs.setdefault(p, []).append(l.strip()[:300])
    except Exception: pass
meta = {
  "name": name,
  "property": agent.get("property", props.split()[0] if props else ""),
  "summary": agent.get("summary", ""),
  "needs": agent.get("needs", ""),
  "files": agent.get("files", []),
  "confirmed": {"patch_applies": applies, "existing_suite_with_patch": suite, "demo_with_patch": dw, "demo_without_patch": dwo,
                "how": "scratch worktree under /tmp (removed afterwards): git apply patch.diff; cargo test --workspace --no-fail-fast --offline; cargo test --offline --test seeded_demo with and without the patch"},
  "checks_run": props.split(),
  "detected_by": det.split(),
  "not_detected_by": miss.split(),
  "violation_signatures": sigs,
  "what_was_run": "git -C /repo apply patch.diff; ./check <property> quick for each listed property; git -C /repo checkout -- .",
}
json.dump(meta, open(os.path.join(out, 'meta.json'), 'w'), indent=1)
EOF
