#!/bin/bash
# Re-runs the quick check of the targeted property against every confirmed seeded change under
# /verif/seeded/ (sub-agent changes and real-F-* = reverted fix commits), WITHOUT touching /repo:
# W parallel workers, each with a scratch worktree of /repo and a scratch copy of the harness (path
# dependencies rewritten) under /tmp/seedregress/w<i>, removed afterwards.
#   tools_seed_regress.sh [name-prefix ...]     (default: all)
# Prints one line per change, writes /verif/seeded/REGRESS.txt (only for a complete run) and keeps
# the shrunk replay of each detection as /verif/seeded/<name>/replay.json.
# For real-F-* the scratch root has NO regression tapes, so a detection there is a detection by
# search; their replays are the source of /verif/regress/ (see tools_regress_update.py).
set -u
S=/tmp/seedregress
W="${SEED_WORKERS:-4}"
pkill -f "$S/w" 2>/dev/null
for d in "$S"/w*/repo; do [ -d "$d" ] && git -C /repo worktree remove --force "$d" 2>/dev/null; done
rm -rf "$S"; git -C /repo worktree prune
mkdir -p "$S"
export CARGO_NET_OFFLINE=true
unset CARGO_TARGET_DIR
ALL=()
for D in /verif/seeded/*/; do
  N=$(basename "$D")
  [ -f "$D/patch.diff" ] && [ -f "$D/meta.json" ] || continue
  if [ $# -gt 0 ]; then
    ok=no; for pre in "$@"; do case "$N" in "$pre"*) ok=yes ;; esac; done
    [ $ok = yes ] || continue
  fi
  ALL+=("$N")
done
echo "${#ALL[@]} change(s), $W worker(s)"

worker() {
  local i=$1; local R="$S/w$i"
  mkdir -p "$R/root/evidence" "$R/root/replays" "$R/root-noregress/evidence" "$R/root-noregress/replays" "$R/root-noregress/regress"
  git -C /repo worktree add -q --detach "$R/repo" HEAD || return 2
  rsync -a --exclude target --exclude target-fp --exclude '*.log' /verif/harness/ "$R/harness/"
  sed -i "s#/repo#$R/repo#g" "$R/harness/Cargo.toml" "$R/harness/build.rs"
  cp /verif/known_findings.json "$R/root/"; cp /verif/known_findings.json "$R/root-noregress/"; cp -r /verif/regress "$R/root/regress"
  local BIN="$R/harness/target/release/egverif" FPBIN="$R/harness/target-fp/release/egverif"
  local k=0
  for N in "${ALL[@]}"; do
    k=$((k+1)); [ $(( (k-1) % W )) -eq $i ] || continue
    local D=/verif/seeded/$N
    local P; P=$(python3 -c "import json;print(json.load(open('$D/meta.json'))['property'])")
    if python3 -c "import json,sys;sys.exit(0 if json.load(open('$D/meta.json')).get('out_of_domain') else 1)"; then echo "$N $P OUT-OF-DOMAIN (see meta.json)" >> "$S/out.$i"; continue; fi
    if ! git -C "$R/repo" apply "$D/patch.diff" 2>/dev/null; then echo "$N $P patch does not apply to the current tree" >> "$S/out.$i"; continue; fi
    if ( cd "$R/harness" && cargo build --release --offline -q -j $((16 / W)) --target-dir target 2>"$R/build.log" && cargo build --release --offline -q -j $((16 / W)) --features fixed_point --target-dir target-fp 2>"$R/build-fp.log" ); then
      local ROOT="$R/root"; case "$N" in real-*) ROOT="$R/root-noregress" ;; esac
      rm -f "$ROOT/replays/"*.json
      local LOG RC SIG RP
      LOG=$(VERIF_ROOT="$ROOT" EGVERIF_BIN="$BIN" EGVERIF_FP_BIN="$FPBIN" VERIF_THREADS=$((16 / W)) "$BIN" run "$P" quick 2>&1); RC=$?
      SIG=$(echo "$LOG" | grep -m1 "^violation in " | sed 's/^violation in //' | cut -c1-110)
      RP=$(echo "$LOG" | grep -m1 "^VIOLATION property=" | sed 's/.*replay=//')
      if [ $RC -eq 1 ]; then
        echo "$N $P DETECTED $SIG" >> "$S/out.$i"
        [ -n "$RP" ] && [ -f "$RP" ] && cp "$RP" "$D/replay.json"
      else
        echo "$N $P NOT-DETECTED rc=$RC" >> "$S/out.$i"
      fi
    else
      echo "$N $P does not build with the current tree" >> "$S/out.$i"
    fi
    git -C "$R/repo" checkout -q -- .
  done
  git -C /repo worktree remove --force "$R/repo"
}
for i in $(seq 0 $((W-1))); do worker $i & done
wait
cat "$S"/out.* 2>/dev/null | sort > "$S/all.txt"
cat "$S/all.txt"
MISS=$(grep -v " DETECTED " "$S/all.txt" | grep -vc "OUT-OF-DOMAIN")
echo "not detected: $MISS"
if [ $# -eq 0 ]; then { cat "$S/all.txt"; echo "not detected: $MISS"; } > /verif/seeded/REGRESS.txt; fi
rm -rf "$S"; git -C /repo worktree prune
