#!/bin/bash
# Re-runs the quick check of the targeted property against every confirmed seeded change under
# /verif/seeded/, WITHOUT touching /repo: a scratch worktree of /repo and a scratch copy of the harness
# (path dependencies rewritten) are created under /tmp/seedregress and removed afterwards.
# Prints one line per change and writes /verif/seeded/REGRESS.txt. Use after changing the harness.
set -u
S=/tmp/seedregress
rm -rf "$S"; git -C /repo worktree prune
mkdir -p "$S/root"
git -C /repo worktree add -q --detach "$S/repo" HEAD || exit 2
rsync -a --exclude target --exclude target-fp --exclude '*.log' /verif/harness/ "$S/harness/"
sed -i "s#/repo#$S/repo#g" "$S/harness/Cargo.toml" "$S/harness/build.rs"
cp /verif/known_findings.json "$S/root/"; cp -r /verif/regress "$S/root/regress"; mkdir -p "$S/root/evidence" "$S/root/replays"
export CARGO_NET_OFFLINE=true VERIF_ROOT="$S/root"
unset CARGO_TARGET_DIR
export EGVERIF_BIN="$S/harness/target/release/egverif" EGVERIF_FP_BIN="$S/harness/target-fp/release/egverif"
build() {
  ( cd "$S/harness" && cargo build --release --offline -q --target-dir target 2>"$S/build.log" && cargo build --release --offline -q --features fixed_point --target-dir target-fp 2>"$S/build-fp.log" )
}
build || { echo "scratch build failed"; tail -20 "$S/build.log"; exit 2; }
OUT=/verif/seeded/REGRESS.txt
: > "$OUT"
MISS=0
for D in /verif/seeded/*/; do
  N=$(basename "$D")
  [ -f "$D/patch.diff" ] || continue
  P=$(python3 -c "import json;print(json.load(open('$D/meta.json'))['property'])")
  if ! git -C "$S/repo" apply "$D/patch.diff" 2>/dev/null; then echo "$N $P patch does not apply to the current tree" | tee -a "$OUT"; continue; fi
  if build; then
    LOG=$("$EGVERIF_BIN" run "$P" quick 2>&1); RC=$?
    SIG=$(echo "$LOG" | grep -m1 "^violation in " | sed 's/^violation in //' | cut -c1-110)
    if [ $RC -eq 1 ]; then echo "$N $P DETECTED $SIG" | tee -a "$OUT"; else echo "$N $P NOT-DETECTED rc=$RC" | tee -a "$OUT"; MISS=$((MISS+1)); fi
  else
    echo "$N $P does not build with the current tree" | tee -a "$OUT"
  fi
  git -C "$S/repo" checkout -q -- .
done
git -C /repo worktree remove --force "$S/repo"; rm -rf "$S"
echo "not detected: $MISS" | tee -a "$OUT"
