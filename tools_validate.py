#!/usr/bin/env python3
"""Validate MANIFEST.json and all evidence files against the schemas (python3-vt has jsonschema)."""
import json, sys, glob, jsonschema
ok = True
es = json.load(open('/root/.vp/EVIDENCE.schema.json'))
ms = json.load(open('/root/.vp/MANIFEST.schema.json'))
try:
    m = json.load(open('/verif/MANIFEST.json')); jsonschema.validate(m, ms); print('MANIFEST ok,', len(m['checks']), 'checks')
except Exception as e:
    ok = False; print('MANIFEST:', str(e)[:300])
for f in sorted(glob.glob('/verif/evidence/C*.json')):
    try:
        e = json.load(open(f)); jsonschema.validate(e, es)
        c = e['coverage']
        print(f.split('/')[-1], 'ok', e['tier'], 'eval', c['evaluations'], 'nontrivial', c['distinct_nontrivial'], 'exh', c.get('exhaustive'), 'viol', e.get('violations'), 'wall', round(e['wall_s'], 1))
    except Exception as ex:
        ok = False; print(f, 'INVALID', str(ex)[:300])
sys.exit(0 if ok else 1)
