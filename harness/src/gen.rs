//! Case construction from the tape: points, sizes, shapes, styles, colours.

use crate::engine::Dec;
pub use embedded_graphics::{
    Pixel,
    geometry::{Angle, AngleUnit, Dimensions, Point, Size},
    pixelcolor::{raw::RawData, BinaryColor, Gray4, Gray8, PixelColor, Rgb565, Rgb888},
    primitives::{
        Arc, Circle, CornerRadii, Ellipse, Line, Polyline, PrimitiveStyle, PrimitiveStyleBuilder,
        Rectangle, RoundedRectangle, Sector, StrokeAlignment, Triangle,
    },
};

/// Colours used by the harness: built from a small integer, distinct for distinct small integers.
pub trait Col: PixelColor + core::fmt::Debug + Send + Sync + 'static {
    fn nth(i: u32) -> Self;
    /// The colour whose raw value is zero (`false`) or all ones (`true`).
    fn extreme(hi: bool) -> Self;
    const NAME: &'static str;
}
impl Col for BinaryColor {
    fn extreme(hi: bool) -> Self {
        if hi { BinaryColor::On } else { BinaryColor::Off }
    }
    fn nth(i: u32) -> Self {
        if i % 2 == 0 {
            BinaryColor::On
        } else {
            BinaryColor::Off
        }
    }
    const NAME: &'static str = "BinaryColor";
}
impl Col for Gray4 {
    fn extreme(hi: bool) -> Self {
        Gray4::new(if hi { 15 } else { 0 })
    }
    fn nth(i: u32) -> Self {
        Gray4::new((15 - (i % 16)) as u8)
    }
    const NAME: &'static str = "Gray4";
}
impl Col for Gray8 {
    fn extreme(hi: bool) -> Self {
        Gray8::new(if hi { 255 } else { 0 })
    }
    fn nth(i: u32) -> Self {
        Gray8::new((255 - (i % 256)) as u8)
    }
    const NAME: &'static str = "Gray8";
}
impl Col for Rgb565 {
    fn extreme(hi: bool) -> Self {
        if hi { Rgb565::new(31, 63, 31) } else { Rgb565::new(0, 0, 0) }
    }
    fn nth(i: u32) -> Self {
        // (the terms with i >> 5, i >> 11 and i >> 16 only matter for i >= 32: no two indices that differ by a
        // power of two up to 2^20 share a colour, so a colour stream shifted by such a distance is seen)
        Rgb565::new(((31 - (i % 32) + (i >> 11)) % 32) as u8, ((i * 7 + 1 + (i >> 5) * 3) % 64) as u8, ((i * 3 + 2 + (i >> 5) + (i >> 16) * 5) % 32) as u8)
    }
    const NAME: &'static str = "Rgb565";
}
impl Col for Rgb888 {
    fn extreme(hi: bool) -> Self {
        if hi { Rgb888::new(255, 255, 255) } else { Rgb888::new(0, 0, 0) }
    }
    fn nth(i: u32) -> Self {
        Rgb888::new((255 - (i % 256)) as u8, ((i * 7 + 1 + (i >> 8) * 13) % 256) as u8, ((i * 3 + 2 + (i >> 8) * 5 + (i >> 16) * 29) % 256) as u8)
    }
    const NAME: &'static str = "Rgb888";
}

/// Far-away placement (auxiliary words 0..=2): in one case of eight an offset with components up to
/// +-30000 (content scrolled far off-screen, the i16 scale); zero otherwise and for old tapes.
pub const FAR: i32 = 30_000;
pub fn far_offset(d: &mut Dec) -> Point {
    let p = far_offset_inner(d);
    if p != Point::zero() {
        d.far = true;
    }
    p
}

fn far_offset_inner(d: &mut Dec) -> Point {
    match d.aux_u(0, 0, 15) {
        0..=13 => Point::zero(),
        14 => Point::new(d.aux_i(1, -FAR, FAR), d.aux_i(2, -FAR, FAR)),
        _ => {
            let c = |d: &mut Dec, k: usize| match d.aux_u(k, 0, 7) {
                0 => 0,
                1 => 32_767 - d.aux_i(k + 2, 0, 40),
                2 => -32_768 + d.aux_i(k + 2, 0, 40),
                3 => 16_384 + d.aux_i(k + 2, -20, 20),
                4 => -16_384 + d.aux_i(k + 2, -20, 20),
                5 => 4_096 + d.aux_i(k + 2, -20, 20),
                6 => -8_192 + d.aux_i(k + 2, -20, 20),
                _ => d.aux_i(k + 2, -FAR, FAR),
            };
            Point::new(c(d, 1), c(d, 2))
        }
    }
}

pub fn point(d: &mut Dec, r: i32) -> Point {
    Point::new(d.coord(r), d.coord(r))
}

pub fn size(d: &mut Dec, max: u32) -> Size {
    Size::new(d.size(max), d.size(max))
}

pub fn rect(d: &mut Dec, r: i32, max: u32) -> Rectangle {
    Rectangle::new(point(d, r), size(d, max))
}

pub fn alignment(d: &mut Dec) -> StrokeAlignment {
    d.pick(&[
        StrokeAlignment::Inside,
        StrokeAlignment::Center,
        StrokeAlignment::Outside,
    ])
}

/// fill colour = nth(1) (sometimes raw zero / all ones) or none, stroke colour = nth(2) (sometimes raw
/// zero / all ones / the fill's colour) or none, width 0..=maxw (biased small)
pub fn style<C: Col>(d: &mut Dec, maxw: u32) -> PrimitiveStyle<C> {
    let mut b = PrimitiveStyleBuilder::new();
    // same decision boundaries as ratio(2, 3) for "colour present"; a few cases use the colours with
    // raw value zero / all ones, and the stroke sometimes gets the fill's colour
    let fill = match d.u(0, 23) {
        0..=7 => None,
        21 => Some(C::extreme(false)),
        22 => Some(C::extreme(true)),
        _ => Some(C::nth(1)),
    };
    if let Some(c) = fill {
        b = b.fill_color(c);
    }
    match d.u(0, 23) {
        0..=7 => {}
        20 => b = b.stroke_color(C::extreme(false)),
        21 => b = b.stroke_color(C::extreme(true)),
        22 | 23 => b = b.stroke_color(fill.unwrap_or(C::nth(1))),
        _ => b = b.stroke_color(C::nth(2)),
    }
    let w = match d.u(0, 5) {
        0 => 0,
        1 => 1,
        2 | 3 => d.u(0, maxw.min(5)),
        _ => d.u(0, maxw),
    };
    b = b.stroke_width(w);
    b = b.stroke_alignment(alignment(d));
    let st = b.build();
    // equivalent API routes to the same style (auxiliary word 7; the plain builder for a zero word)
    match d.aux_u(7, 0, 7) {
        0..=4 => st,
        5 => PrimitiveStyleBuilder::from(&st).build(),
        6 => {
            // start from a completely different style and overwrite / reset every attribute
            let mut other = PrimitiveStyle::with_stroke(C::nth(9), 77);
            other.fill_color = Some(C::nth(10));
            let mut b = PrimitiveStyleBuilder::from(&other);
            b = match st.fill_color {
                Some(c) => b.fill_color(c),
                None => b.reset_fill_color(),
            };
            b = match st.stroke_color {
                Some(c) => b.stroke_color(c),
                None => b.reset_stroke_color(),
            };
            b.stroke_width(st.stroke_width).stroke_alignment(st.stroke_alignment).stroke_style(st.stroke_style).build()
        }
        _ => {
            let mut n = PrimitiveStyle::new();
            n.fill_color = st.fill_color;
            n.stroke_color = st.stroke_color;
            n.stroke_width = st.stroke_width;
            n.stroke_alignment = st.stroke_alignment;
            n.stroke_style = st.stroke_style;
            n
        }
    }
}

pub fn style_desc<C: Col>(s: &PrimitiveStyle<C>) -> String {
    format!(
        "style{{fill:{:?}, stroke:{:?}, width:{}, align:{:?}}}",
        s.fill_color, s.stroke_color, s.stroke_width, s.stroke_alignment
    )
}

pub fn corner_radii(d: &mut Dec, max: u32) -> CornerRadii {
    let r = if d.ratio(1, 3) {
        CornerRadii::new(size(d, max))
    } else {
        CornerRadii {
            top_left: size(d, max),
            top_right: size(d, max),
            bottom_right: size(d, max),
            bottom_left: size(d, max),
        }
    };
    // auxiliary word 5: half of the cases correlate the corners the way a UI does (tabs, pills), through
    // the `CornerRadiiBuilder` routes or with shared heights / widths
    use embedded_graphics::primitives::CornerRadiiBuilder;
    match d.aux_u(5, 0, 7) {
        0..=3 => r,
        4 => CornerRadiiBuilder::new().left(r.top_left).right(r.top_right).build(),
        5 => CornerRadiiBuilder::new().top(r.top_left).bottom(r.bottom_right).build(),
        6 => {
            let h = r.top_left.height;
            CornerRadii {
                top_left: Size::new(r.top_left.width, h),
                top_right: Size::new(r.top_right.width, h),
                bottom_right: Size::new(r.bottom_right.width, h),
                bottom_left: Size::new(r.bottom_left.width, h),
            }
        }
        _ => {
            let w = r.top_left.width;
            CornerRadiiBuilder::from(&CornerRadii {
                top_left: Size::new(w, r.top_left.height),
                top_right: Size::new(w, r.top_right.height),
                bottom_right: Size::new(w, r.bottom_right.height),
                bottom_left: Size::new(w, r.bottom_left.height),
            })
            .build()
        }
    }
}

/// Angle in degrees, `-720..=720`, integer or with a fractional part.
pub fn angle_deg(d: &mut Dec) -> f32 {
    match d.u(0, 3) {
        // (entry 2k is the k-th of the original twelve integers, so a tape word that selected one of them still
        // does in half of its range; the odd entries are angles a hair away from a quadrant boundary, from zero
        // and from a full turn: float rounding in `normalize`, comparisons with exact multiples of 90)
        0 => d.pick(&[
            0.0f32, -1e-5, 90.0, 1e-5, 180.0, -1e-7, 270.0, 89.99999, 360.0, 90.00001, -90.0, 359.99997, -180.0, -359.99997, -270.0, 180.00002, -360.0, -1.0e-38, 45.0, 719.9999, 720.0,
            -0.001, -720.0, 0.001,
        ]),
        1 | 2 => d.i(-720, 720) as f32,
        _ => d.i(-72000, 72000) as f32 / 100.0,
    }
}

/// The drawable primitives, as a run-time value.
#[derive(Clone, Debug, PartialEq)]
pub enum Shape {
    Rect(Rectangle),
    Circle(Circle),
    Ellipse(Ellipse),
    RRect(RoundedRectangle),
    Triangle(Triangle),
    Line(Line),
    Arc(Arc),
    Sector(Sector),
}

pub const CLOSED: &[u32] = &[0, 1, 2, 3];
pub const ALL_SHAPES: &[u32] = &[0, 1, 2, 3, 4, 5, 6, 7];

impl Shape {
    pub fn kind(&self) -> &'static str {
        match self {
            Shape::Rect(_) => "rectangle",
            Shape::Circle(_) => "circle",
            Shape::Ellipse(_) => "ellipse",
            Shape::RRect(_) => "rounded_rectangle",
            Shape::Triangle(_) => "triangle",
            Shape::Line(_) => "line",
            Shape::Arc(_) => "arc",
            Shape::Sector(_) => "sector",
        }
    }
    pub fn bounding_box(&self) -> Rectangle {
        match self {
            Shape::Rect(s) => s.bounding_box(),
            Shape::Circle(s) => s.bounding_box(),
            Shape::Ellipse(s) => s.bounding_box(),
            Shape::RRect(s) => s.bounding_box(),
            Shape::Triangle(s) => s.bounding_box(),
            Shape::Line(s) => s.bounding_box(),
            Shape::Arc(s) => s.bounding_box(),
            Shape::Sector(s) => s.bounding_box(),
        }
    }
    /// `points()` of the primitive.
    pub fn points(&self) -> Vec<Point> {
        use embedded_graphics::primitives::PointsIter;
        match self {
            Shape::Rect(s) => s.points().collect(),
            Shape::Circle(s) => s.points().collect(),
            Shape::Ellipse(s) => s.points().collect(),
            Shape::RRect(s) => s.points().collect(),
            Shape::Triangle(s) => s.points().collect(),
            Shape::Line(s) => s.points().collect(),
            Shape::Arc(s) => s.points().collect(),
            Shape::Sector(s) => s.points().collect(),
        }
    }
    /// `contains()` where the primitive offers it.
    pub fn contains(&self, p: Point) -> Option<bool> {
        use embedded_graphics::primitives::ContainsPoint;
        match self {
            Shape::Rect(s) => Some(ContainsPoint::contains(s, p)),
            Shape::Circle(s) => Some(s.contains(p)),
            Shape::Ellipse(s) => Some(s.contains(p)),
            Shape::RRect(s) => Some(s.contains(p)),
            Shape::Triangle(s) => Some(s.contains(p)),
            Shape::Sector(s) => Some(s.contains(p)),
            Shape::Line(_) | Shape::Arc(_) => None,
        }
    }
    pub fn translate(&self, by: Point) -> Shape {
        use embedded_graphics::transform::Transform;
        match self {
            Shape::Rect(s) => Shape::Rect(s.translate(by)),
            Shape::Circle(s) => Shape::Circle(s.translate(by)),
            Shape::Ellipse(s) => Shape::Ellipse(s.translate(by)),
            Shape::RRect(s) => Shape::RRect(s.translate(by)),
            Shape::Triangle(s) => Shape::Triangle(s.translate(by)),
            Shape::Line(s) => Shape::Line(s.translate(by)),
            Shape::Arc(s) => Shape::Arc(s.translate(by)),
            Shape::Sector(s) => Shape::Sector(s.translate(by)),
        }
    }
    pub fn translate_mut(&self, by: Point) -> Shape {
        use embedded_graphics::transform::Transform;
        let mut c = self.clone();
        match &mut c {
            Shape::Rect(s) => {
                s.translate_mut(by);
            }
            Shape::Circle(s) => {
                s.translate_mut(by);
            }
            Shape::Ellipse(s) => {
                s.translate_mut(by);
            }
            Shape::RRect(s) => {
                s.translate_mut(by);
            }
            Shape::Triangle(s) => {
                s.translate_mut(by);
            }
            Shape::Line(s) => {
                s.translate_mut(by);
            }
            Shape::Arc(s) => {
                s.translate_mut(by);
            }
            Shape::Sector(s) => {
                s.translate_mut(by);
            }
        }
        c
    }
}

/// Dispatch on the concrete primitive: `with_shape!(shape, |s| expr)` evaluates `expr` with `s`
/// bound to a reference to the concrete primitive.
#[macro_export]
macro_rules! with_shape {
    ($shape:expr, |$s:ident| $body:expr) => {
        match $shape {
            $crate::gen::Shape::Rect($s) => $body,
            $crate::gen::Shape::Circle($s) => $body,
            $crate::gen::Shape::Ellipse($s) => $body,
            $crate::gen::Shape::RRect($s) => $body,
            $crate::gen::Shape::Triangle($s) => $body,
            $crate::gen::Shape::Line($s) => $body,
            $crate::gen::Shape::Arc($s) => $body,
            $crate::gen::Shape::Sector($s) => $body,
        }
    };
}

impl Shape {
    /// `iterator_protocol` on `points()` of the primitive.
    pub fn points_protocol(&self, d: &mut Dec) -> crate::engine::Res {
        use embedded_graphics::primitives::PointsIter;
        let kind = self.kind();
        crate::with_shape!(self, |p| iterator_protocol(&|| p.points(), d, &format!("{}:points", kind)))
    }
    /// `iterator_protocol` on `pixels()` of the styled primitive.
    pub fn pixels_protocol<C: Col>(&self, style: &PrimitiveStyle<C>, d: &mut Dec) -> crate::engine::Res {
        use embedded_graphics::primitives::Primitive;
        let kind = self.kind();
        crate::with_shape!(self, |p| iterator_protocol(&|| p.into_styled(*style).pixels(), d, &format!("{}:pixels", kind)))
    }
}

/// Parameters for shape generation.
#[derive(Clone, Copy)]
pub struct ShapeDom {
    /// coordinate range of positions / vertices
    pub r: i32,
    /// maximum size / diameter
    pub max: u32,
}

pub fn shape_of_kind(d: &mut Dec, kind: u32, dom: ShapeDom) -> Shape {
    let s = shape_of_kind_plain(d, kind, dom);
    constructor_route(d, s)
}

/// Half of the shapes are rebuilt through an equivalent public constructor (`with_center` of the centre,
/// `from_circle`, `with_delta`, `from_slice`, `with_corners`, `with_equal_corners`, struct literals /
/// public fields): the same object by documentation, through code that the plain `new` never runs. The
/// route is a derived choice (no tape word). The result is asserted to be equal to the plain object —
/// a difference is reported by the caller's oracle as whatever it breaks, and by C16 / C18 directly.
pub fn constructor_route(d: &Dec, s: Shape) -> Shape {
    let route = d.derived(0x5a4e, 8);
    if route < 4 {
        return s;
    }
    let alt = route % 2 == 0;
    match s {
        Shape::Rect(r) => Shape::Rect(match (r.bottom_right(), alt) {
            (Some(br), true) => Rectangle::with_corners(br, r.top_left),
            (Some(br), false) => Rectangle::with_corners(Point::new(br.x, r.top_left.y), Point::new(r.top_left.x, br.y)),
            (None, _) => Rectangle { top_left: r.top_left, size: r.size },
        }),
        Shape::Circle(c) => Shape::Circle(if alt { Circle::with_center(c.center(), c.diameter) } else { Circle { top_left: c.top_left, diameter: c.diameter } }),
        Shape::Ellipse(e) => Shape::Ellipse(if alt { Ellipse::with_center(e.center(), e.size) } else { Ellipse { top_left: e.top_left, size: e.size } }),
        Shape::RRect(rr) => {
            let c = rr.corners;
            if c.top_left == c.top_right && c.top_left == c.bottom_left && c.top_left == c.bottom_right {
                Shape::RRect(RoundedRectangle::with_equal_corners(rr.rectangle, c.top_left))
            } else {
                Shape::RRect(RoundedRectangle { rectangle: rr.rectangle, corners: c })
            }
        }
        Shape::Triangle(t) => Shape::Triangle(if alt { Triangle::from_slice(&t.vertices) } else { Triangle { vertices: t.vertices } }),
        Shape::Line(l) => Shape::Line(if alt { Line::with_delta(l.start, l.end - l.start) } else { Line { start: l.start, end: l.end } }),
        Shape::Arc(a) => Shape::Arc(if alt {
            Arc::from_circle(a.to_circle(), a.angle_start, a.angle_sweep)
        } else {
            Arc::with_center(a.center(), a.diameter, a.angle_start, a.angle_sweep)
        }),
        Shape::Sector(a) => Shape::Sector(if alt {
            Sector::from_circle(a.to_circle(), a.angle_start, a.angle_sweep)
        } else {
            Sector::with_center(a.center(), a.diameter, a.angle_start, a.angle_sweep)
        }),
    }
}

fn shape_of_kind_plain(d: &mut Dec, kind: u32, dom: ShapeDom) -> Shape {
    let ShapeDom { r, max } = dom;
    match kind {
        0 => Shape::Rect(rect(d, r, max)),
        1 => Shape::Circle(Circle::new(point(d, r), d.size(max))),
        2 => {
            let (p, sz) = (point(d, r), size(d, max));
            // auxiliary word 6: one ellipse in eight has equal axes (the circle special case of the ellipse code)
            let sz = if d.aux_u(6, 0, 7) == 7 { Size::new(sz.width, sz.width) } else { sz };
            Shape::Ellipse(Ellipse::new(p, sz))
        }
        3 => {
            let rc = rect(d, r, max);
            let radii = corner_radii(d, max);
            Shape::RRect(RoundedRectangle::new(rc, radii))
        }
        4 => {
            let p1 = point(d, r);
            let p2 = match d.u(0, 5) {
                0 => p1,
                _ => point(d, r),
            };
            let p3 = match d.u(0, 7) {
                0 => p1,
                1 => p2,
                2 => p1 + (p2 - p1) * 2, // colinear
                _ => point(d, r),
            };
            let (p2, p3) = structure_triangle(d, p1, p2, p3);
            Shape::Triangle(Triangle::new(p1, p2, p3))
        }
        5 => {
            let p1 = point(d, r);
            let p2 = match d.u(0, 7) {
                0 => p1,
                1 => Point::new(p1.x, d.coord(r)),
                2 => Point::new(d.coord(r), p1.y),
                _ => point(d, r),
            };
            Shape::Line(Line::new(p1, p2))
        }
        6 => Shape::Arc(Arc::new(
            point(d, r),
            d.size(max),
            angle_deg(d).deg(),
            angle_deg(d).deg(),
        )),
        _ => Shape::Sector(Sector::new(
            point(d, r),
            d.size(max),
            angle_deg(d).deg(),
            angle_deg(d).deg(),
        )),
    }
}

pub fn shape(d: &mut Dec, kinds: &[u32], dom: ShapeDom) -> Shape {
    let k = d.pick(kinds);
    shape_of_kind(d, k, dom)
}

/// Vertices of a polyline: 0..=maxn points, with repeated vertices and reversals.
pub fn polyline_points(d: &mut Dec, maxn: u32, r: i32) -> Vec<Point> {
    let n = d.u(0, maxn);
    let mut v: Vec<Point> = vec![];
    for i in 0..n {
        let p = match d.u(0, 7) {
            0 if i >= 1 => v[i as usize - 1],
            1 if i >= 2 => v[i as usize - 2],
            2 if i >= 1 => Point::new(v[i as usize - 1].x, d.coord(r)),
            3 if i >= 1 => Point::new(d.coord(r), v[i as usize - 1].y),
            _ => point(d, r),
        };
        v.push(p);
    }
    // auxiliary word 4: one polyline in eight is closed (the last vertex repeats the first)
    if v.len() >= 3 && d.aux_u(4, 0, 7) == 7 {
        v.push(v[0]);
    }
    // auxiliary words 5 and 6: one polyline in 32 gets 250..=300 further vertices (a random walk with
    // steps up to 3 px, with repeats and reversals): vertex counts beyond 255
    if d.aux_u(5, 0, 31) == 31 {
        let mut x = d.aux_u(6, 0, u32::MAX) | 1;
        let mut next = move || {
            x ^= x << 13;
            x ^= x >> 17;
            x ^= x << 5;
            x
        };
        let extra = 250 + next() % 51;
        let mut p = v.last().copied().unwrap_or(Point::zero());
        for _ in 0..extra {
            let k = next();
            p = match k % 9 {
                0 => p,
                1 if v.len() >= 2 => v[v.len() - 2],
                _ => Point::new((p.x + (k >> 8) as i32 % 7 - 3).clamp(-r, r), (p.y + (k >> 16) as i32 % 7 - 3).clamp(-r, r)),
            };
            v.push(p);
        }
    }
    v
}


/// Size in `lo..=hi`, with the power-of-two neighbourhoods in between favoured.
pub fn large_size(d: &mut Dec, lo: u32, hi: u32) -> u32 {
    match d.u(0, 3) {
        0 => {
            let b = d.pick(&[127u32, 128, 129, 255, 256, 257, 320, 240, 480, 511, 512, 513]);
            b.clamp(lo, hi)
        }
        // the range between the small generators (up to about 60 px) and `lo`: a threshold somewhere in
        // 60..100 is neither "small" nor "large"
        1 if lo >= 100 => d.u(lo * 6 / 10, lo * 14 / 10),
        _ => d.u(lo, hi),
    }
}

/// Auxiliary word 6: six triangles in ten get the structure of drawn UI shapes — an edge parallel to an
/// axis (flat top / bottom, vertical side), a right angle, an obtuse corner on a flat edge; uniform random
/// vertices almost never have it beyond a few pixels.
pub fn structure_triangle(d: &mut Dec, a: Point, b: Point, c: Point) -> (Point, Point) {
    match d.aux_u(6, 0, 9) {
        0..=3 => (b, c),
        8 | 9 => {
            // edges with small rational slopes (1/2, 2, 1/3, 2/3, ...): the stroke edges of a thick outline then
            // meet exactly on half pixels, and isosceles / 1:2 shapes are what icons are made of
            const V: [(i32, i32); 12] = [(1, 2), (2, 1), (1, 3), (3, 1), (2, 3), (3, 2), (1, 1), (1, -2), (2, -1), (1, -1), (1, 0), (0, 1)];
            let scale = |p: Point| ((p.x - a.x).abs().max((p.y - a.y).abs())).max(1);
            let (kb, kc) = (scale(b), scale(c));
            let vb = V[(kb as usize * 7 + kc as usize) % 12];
            let vc = V[(kc as usize * 5 + kb as usize * 3 + 1) % 12];
            let sb = if b.x < a.x { -1 } else { 1 };
            let sc = if c.x < a.x { -1 } else { 1 };
            let (mb, mc) = (kb / vb.0.abs().max(vb.1.abs()).max(1), kc / vc.0.abs().max(vc.1.abs()).max(1));
            (a + Point::new(sb * vb.0 * mb.max(1), vb.1 * mb.max(1)), a + Point::new(sc * vc.0 * mc.max(1), vc.1 * mc.max(1)))
        }
        4 => (b, Point::new(c.x, b.y)),                    // b-c horizontal
        5 => (Point::new(a.x, b.y), c),                    // a-b vertical
        6 => (Point::new(a.x, b.y), Point::new(c.x, a.y)), // right angle at a
        _ => {
            // b-c horizontal and both on the same side of a horizontally: obtuse corner at the nearer one
            let dx1 = (b.x - a.x).abs().max(1);
            let dx2 = dx1 + (c.x - a.x).abs().max(1);
            let sgn = if b.x >= a.x { 1 } else { -1 };
            (Point::new(a.x + sgn * dx1, b.y), Point::new(a.x + sgn * dx2, b.y))
        }
    }
}

/// A large shape of the given kind: sizes / diameters / vertex spans in `lo..=hi`, positioned so
/// that it straddles the origin or lies up to `hi` away from it.
pub fn large_shape(d: &mut Dec, kind: u32, lo: u32, hi: u32) -> Shape {
    let s = large_shape_plain(d, kind, lo, hi);
    constructor_route(d, s)
}

fn large_shape_plain(d: &mut Dec, kind: u32, lo: u32, hi: u32) -> Shape {
    let r = hi as i32;
    let pos = |d: &mut Dec, w: u32, h: u32| match d.u(0, 2) {
        0 => Point::new(-(w as i32) / 2 + d.i(-3, 3), -(h as i32) / 2 + d.i(-3, 3)),
        _ => Point::new(d.i(-r, r), d.i(-r, r)),
    };
    match kind {
        0 => {
            let (w, h) = (large_size(d, lo, hi), large_size(d, lo, hi));
            Shape::Rect(Rectangle::new(pos(d, w, h), Size::new(w, h)))
        }
        1 => {
            let w = large_size(d, lo, hi);
            Shape::Circle(Circle::new(pos(d, w, w), w))
        }
        2 => {
            let (w, h) = (large_size(d, lo, hi), if d.ratio(1, 4) { d.u(1, 20) } else { large_size(d, lo, hi) });
            let (w, h) = if d.bool() { (w, h) } else { (h, w) };
            Shape::Ellipse(Ellipse::new(pos(d, w, h), Size::new(w, h)))
        }
        3 => {
            let (w, h) = (large_size(d, lo, hi), large_size(d, lo, hi));
            let rad = |d: &mut Dec| Size::new(d.u(0, hi), d.u(0, hi));
            let radii = if d.bool() { CornerRadii::new(rad(d)) } else { CornerRadii { top_left: rad(d), top_right: rad(d), bottom_right: rad(d), bottom_left: rad(d) } };
            Shape::RRect(RoundedRectangle::new(Rectangle::new(pos(d, w, h), Size::new(w, h)), radii))
        }
        4 => {
            let span = large_size(d, lo, hi) as i32;
            let a = Point::new(d.i(-span / 2, span / 2), d.i(-span / 2, span / 2));
            let b = a + Point::new(d.i(-span, span), d.i(-span, span));
            let c = a + Point::new(d.i(-span, span), d.i(-span, span));
            let (b, c) = structure_triangle(d, a, b, c);
            Shape::Triangle(Triangle::new(a, b, c))
        }
        5 => {
            let span = large_size(d, lo, hi) as i32;
            let a = Point::new(d.i(-span / 2, span / 2), d.i(-span / 2, span / 2));
            Shape::Line(Line::new(a, a + Point::new(d.i(-span, span), d.i(-span, span))))
        }
        6 => {
            let w = large_size(d, lo, hi);
            Shape::Arc(Arc::new(pos(d, w, w), w, angle_deg(d).deg(), angle_deg(d).deg()))
        }
        _ => {
            let w = large_size(d, lo, hi);
            Shape::Sector(Sector::new(pos(d, w, w), w, angle_deg(d).deg(), angle_deg(d).deg()))
        }
    }
}


// ---------------------------------------------------------------------------------------------
// Iterator protocol
// ---------------------------------------------------------------------------------------------

/// The provided methods of an iterator (`count`, `last`, `fold`, `for_each`, `nth`, `collect`, `skip`, ...)
/// must agree with repeated `next()`, also on an iterator that has already been advanced — in particular
/// advanced exactly to the end of a row or to the end. `make` builds a fresh iterator; the ground truth is
/// a plain `while let Some(x) = it.next()` loop. Uses up to 5 tape words.
pub fn iterator_protocol<T, I>(make: &dyn Fn() -> I, d: &mut Dec, what: &str) -> crate::engine::Res
where
    T: PartialEq + core::fmt::Debug + Clone,
    I: Iterator<Item = T> + Clone,
{
    iterator_protocol_inner(make, Some(|i: &I| i.clone()), d, what)
}

/// The same for an iterator type that is not `Clone`.
pub fn iterator_protocol_noclone<T, I>(make: &dyn Fn() -> I, d: &mut Dec, what: &str) -> crate::engine::Res
where
    T: PartialEq + core::fmt::Debug + Clone,
    I: Iterator<Item = T>,
{
    iterator_protocol_inner(make, None, d, what)
}

fn iterator_protocol_inner<T, I>(make: &dyn Fn() -> I, cl: Option<fn(&I) -> I>, d: &mut Dec, what: &str) -> crate::engine::Res
where
    T: PartialEq + core::fmt::Debug + Clone,
    I: Iterator<Item = T>,
{
    use crate::engine::fail;
    const BUDGET: usize = 60_000;
    let mut full: Vec<T> = vec![];
    let mut it = make();
    while let Some(x) = it.next() {
        if full.len() >= BUDGET {
            return Ok(()); // too long for this clause (the budgets of the caller judge termination)
        }
        full.push(x);
    }
    // a fused end: further calls keep returning None
    for _ in 0..2 {
        if let Some(x) = it.next() {
            return fail(format!("{}:iterator_not_fused", what), format!("next() after the end returned {:?}", x));
        }
    }
    let n = full.len();
    // how far the iterator is advanced first: 0, the end, anywhere, or a multiple of the first run length
    // (the number of leading items that differ from the first one only ... by position: approximated by
    // the index at which the Debug text of the item stops sharing the last coordinate with the first item)
    let run = {
        let key = |x: &T| {
            let s = format!("{:?}", x);
            s.rsplit("y: ").next().map(|t| t.to_string()).unwrap_or(s)
        };
        if n == 0 {
            1
        } else {
            let k0 = key(&full[0]);
            full.iter().position(|x| key(x) != k0).unwrap_or(n).max(1)
        }
    };
    let k = match d.u(0, 4) {
        0 => 0,
        1 => n,
        2 => (run * d.u(0, (n / run) as u32) as usize).min(n),
        3 => n.saturating_sub(d.u(0, 2) as usize),
        _ => d.u(0, n as u32) as usize,
    };
    let mut it = make();
    match d.u(0, 2) {
        0 => {
            for _ in 0..k {
                it.next();
            }
        }
        1 => {
            if k > 0 {
                it.nth(k - 1);
            }
        }
        _ => {
            let taken = it.by_ref().take(k).count();
            if taken != k.min(n) {
                return fail(format!("{}:iterator_take_count", what), format!("by_ref().take({}).count() = {} on an iterator of {} items", k, taken, n));
            }
        }
    }
    let tail = &full[k.min(n)..];
    let (lo, hi) = it.size_hint();
    if lo > tail.len() || hi.map_or(false, |h| h < tail.len()) {
        return fail(format!("{}:iterator_size_hint", what), format!("size_hint() = {:?} after {} of {} items, {} remain", (lo, hi), k, n, tail.len()));
    }
    let method = d.u(0, 7);
    // (derived choice, no tape word: three cases in eight use one of the further provided methods / a clone)
    let method = match d.derived(0x17e2, 9) {
        0..=4 => method,
        m => m + 3,
    };
    let report = |name: &str, got: String, exp: String| fail(format!("{}:iterator_{}", what, name), format!("after advancing by {} of {} items (first run {}): {}() gives {}, repeated next() gives {}", k, n, run, name, got, exp));
    match method {
        0 => {
            let c = it.count();
            if c != tail.len() {
                return report("count", c.to_string(), tail.len().to_string());
            }
        }
        1 => {
            let l = it.last();
            if l.as_ref() != tail.last() {
                return report("last", format!("{:?}", l), format!("{:?}", tail.last()));
            }
        }
        2 => {
            let v = it.fold(Vec::new(), |mut v, x| {
                v.push(x);
                v
            });
            if v != tail {
                return report("fold", format!("{} items starting {:?}", v.len(), v.first()), format!("{} items starting {:?}", tail.len(), tail.first()));
            }
        }
        3 => {
            let mut v = Vec::new();
            it.for_each(|x| v.push(x));
            if v != tail {
                return report("for_each", format!("{} items starting {:?}", v.len(), v.first()), format!("{} items starting {:?}", tail.len(), tail.first()));
            }
        }
        4 => {
            let v: Vec<T> = it.collect();
            if v != tail {
                return report("collect", format!("{} items starting {:?}", v.len(), v.first()), format!("{} items starting {:?}", tail.len(), tail.first()));
            }
        }
        5 => {
            let j = d.u(0, tail.len() as u32 + 1) as usize;
            let x = it.nth(j);
            if x.as_ref() != tail.get(j) {
                return report("nth", format!("{:?}", x), format!("{:?}", tail.get(j)));
            }
            let y = it.next();
            if y.as_ref() != tail.get(j + 1).filter(|_| j < tail.len()) {
                return report("next_after_nth", format!("{:?}", y), format!("{:?}", tail.get(j + 1)));
            }
        }
        6 => {
            let j = d.u(0, tail.len() as u32 + 1) as usize;
            let c = it.skip(j).count();
            if c != tail.len().saturating_sub(j) {
                return report("skip_count", c.to_string(), tail.len().saturating_sub(j).to_string());
            }
        }
        8 if cl.is_some() => {
            // a clone taken midway continues independently with the same items
            let c = (cl.unwrap())(&it);
            let j = d.derived(0x17e3, tail.len() as u32 + 1) as usize;
            let head: Vec<T> = it.by_ref().take(j).collect();
            let b: Vec<T> = c.collect();
            let rest: Vec<T> = it.collect();
            if b != tail || head != tail[..j.min(tail.len())] || rest != tail[j.min(tail.len())..] {
                return report("clone", format!("clone: {} items, original: {} + {} items", b.len(), head.len(), rest.len()), format!("{} items", tail.len()));
            }
        }
        9 => {
            let j = d.derived(0x17e4, tail.len() as u32 + 1) as usize;
            let mut i = 0usize;
            let p = it.position(|_| {
                i += 1;
                i > j
            });
            let exp = if j < tail.len() { Some(j) } else { None };
            if p != exp {
                return report("position", format!("{:?}", p), format!("{:?}", exp));
            }
            let y = it.next();
            if y.as_ref() != tail.get(j + 1).filter(|_| j < tail.len()) {
                return report("next_after_position", format!("{:?}", y), format!("{:?}", tail.get(j + 1)));
            }
        }
        10 => {
            let step = 1 + d.derived(0x17e5, 4) as usize;
            let v: Vec<T> = it.step_by(step).collect();
            let exp: Vec<T> = tail.iter().step_by(step).cloned().collect();
            if v != exp {
                return report("step_by", format!("{} items starting {:?}", v.len(), v.first()), format!("{} items starting {:?}", exp.len(), exp.first()));
            }
        }
        11 => {
            // `nth` far beyond the end (an index that leaves 31 / 32 / 63 bits, or a multiple of the first run
            // length that does): `None`, and every item is consumed
            let huge = [usize::MAX, usize::MAX / 2 + 1, 1usize << 31, 1usize << 32, (1usize << 31).wrapping_mul(run), (1usize << 32).wrapping_mul(run).wrapping_sub(1), (usize::MAX / run.max(1)).wrapping_mul(run)];
            let j = huge[d.derived(0x17e6, huge.len() as u32) as usize].max(tail.len());
            let x = it.nth(j);
            if x.is_some() {
                return report("nth_huge", format!("{:?} for nth({})", x, j), "None".into());
            }
            let y = it.next();
            if y.is_some() {
                return report("next_after_nth_huge", format!("{:?} after nth({}) returned None", y, j), "None".into());
            }
        }
        _ => {
            if !it.eq(tail.iter().cloned()) {
                return report("eq", "a different sequence".into(), format!("{} items", tail.len()));
            }
        }
    }
    Ok(())
}


/// An iterator over `v` with one of the `size_hint` shapes that well-behaved (fused, finite) iterators
/// have: exact (route 0), `(0, Some(n))` (what `filter` reports, 1), `(0, None)` (`from_fn`, 2), an upper bound
/// far above the real length (`take_while` over a longer chain, 3), a lower bound only (4). The items are
/// the same in every case; no allocation (C08 runs it with the allocation counter armed).
pub struct StreamRoute<'a, T> {
    v: &'a [T],
    i: usize,
    route: u32,
}

pub fn stream_route<T: Copy>(v: &[T], route: u32) -> StreamRoute<'_, T> {
    StreamRoute { v, i: 0, route: route % 5 }
}

impl<T: Copy> Iterator for StreamRoute<'_, T> {
    type Item = T;
    fn next(&mut self) -> Option<T> {
        let r = self.v.get(self.i).copied();
        if r.is_some() {
            self.i += 1;
        }
        r
    }
    fn size_hint(&self) -> (usize, Option<usize>) {
        let n = self.v.len() - self.i;
        match self.route {
            0 => (n, Some(n)),
            1 => (0, Some(n)),
            2 => (0, None),
            3 => (0, Some(n + 1000)),
            _ => (n, None),
        }
    }
}
