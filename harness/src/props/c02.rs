//! C02 — bounding boxes contain everything that is drawn.

use crate::engine::*;
use crate::items::*;
use crate::targets::*;
use embedded_graphics::geometry::Point;
use embedded_graphics::pixelcolor::{BinaryColor, Rgb565, Rgb888};
use embedded_graphics::text::{Alignment, Baseline, DecorationColor, LineHeight};

pub fn prop() -> Prop {
    Prop {
        id: "C02",
        level: "exploration",
        rule: "proptest tapes decoding to drawables as in C01 plus dotted strokes (styled primitives: any stroke width 0..=12 with a tail to 40 and alignment; polylines; images and nested sub-images; text with a random built-in font, colours, decorations, 4 baselines, 3 alignments, line heights in percent and pixels, multi-line strings with empty lines and unmapped characters), styled primitives of 100..=1024 px and of 1025..=3000 px (strokes to 200, all eight kinds) judged by the painted extent, and a complete enumeration of every built-in font x a fixed style matrix (background, underline, strikethrough on/off x 4 baselines x 3 alignments = 96 combinations) with a three-line string. Oracle (validity predicate): every point recorded by a native-fill target that never clips lies inside bounding_box(); if the style is_transparent() nothing is recorded. Non-trivial: >= 1 pixel drawn and the box is non-empty; for text additionally a non-space glyph or a decoration.",
        assumptions: vec![
            "tightness of the bounding box is not asserted, only containment (the Dimensions contract)",
            "the font table is extracted from /repo/src/mono_font/generated at build time",
        ],
        subs: vec![
            Sub::tape("primitives", 64, 240_000, 12_000_000, |d, cx| run(d, cx, 0)).with_fp(),
            Sub::tape("primitives_large", 64, 4_000, 200_000, |d, cx| run(d, cx, 4)),
            Sub::tape("polylines", 72, 50_000, 2_500_000, |d, cx| run(d, cx, 1)),
            Sub::tape("primitives_display_scale", 64, 6_000, 300_000, display_scale).with_fp(),
            Sub::tape("huge_extent", 64, 6_000, 200_000, huge_extent).with_fp(),
            Sub::tape("thick_polylines_triangles", 40, 300_000, 15_000_000, thick_joins),
            Sub::tape("images", 400, 30_000, 1_500_000, |d, cx| run(d, cx, 2)),
            Sub::tape("text_random", 300, 100_000, 5_000_000, |d, cx| run(d, cx, 3)),
            Sub::tape("text_spaced_fonts", 300, 60_000, 3_000_000, text_spaced_fonts),
            Sub::enumerate("fonts_matrix", fonts_matrix),
        ],
    }
}

fn run(d: &mut Dec, cx: &mut Cx, group: u32) -> Res {
    let kind = match group {
        0 => d.u(0, 7),
        4 => 100 + d.u(0, 7),
        1 => 8,
        2 => 9,
        _ => 10,
    };
    match d.u(0, 2) {
        0 => tape_case::<BinaryColor>(d, cx, kind),
        1 => tape_case::<Rgb565>(d, cx, kind),
        _ => tape_case::<Rgb888>(d, cx, kind),
    }
}

fn tape_case<C: ImgCol>(d: &mut Dec, cx: &mut Cx, kind: u32) -> Res {
    let big = d.ratio(1, 5);
    let dom = ItemDom { r: 40, max: if big { 40 } else { 16 }, max_width: if d.ratio(1, 8) { 40 } else { 12 }, dotted: true, text_len: 14 };
    // kinds >= 100: styled primitives of 100..=400 px (sub-check "primitives_large")
    let (item, kind) = if kind >= 100 {
        let mut st = crate::gen::style::<C>(d, 60);
        if d.ratio(1, 6) {
            st.stroke_style = embedded_graphics::primitives::StrokeStyle::Dotted;
        }
        (Item::Styled(crate::gen::large_shape(d, kind - 100, 100, 400), st), kind - 100)
    } else {
        (gen_item::<C>(d, kind, dom), kind)
    };
    let item = item.placed(crate::gen::far_offset(d));
    cx.describe(|| item.desc());
    cx.class(KIND_NAMES[kind as usize]);
    let n = check_item(&item)?;
    let textual = match &item {
        Item::Text(t) => t.text.chars().any(|c| c != ' ' && c != '\n' && c != '\r') || !t.underline.is_none() || !t.strikethrough.is_none(),
        _ => true,
    };
    cx.nontrivial(n >= 1 && !item.bounding_box().is_zero_sized() && textual);
    Ok(())
}

/// Returns the number of touched points.
pub fn check_item<C: ImgCol>(item: &Item<C>) -> Result<usize, Fail> {
    let k = item.kind();
    let mut t = NativeT::<C>::new();
    t.0.log = false;
    item.draw(&mut t).map_err(|e| Fail { sig: format!("{}:draw_error", k), detail: format!("{:?}", e) })?;
    let bb = item.bounding_box();
    if item.is_transparent() && !t.0.map.is_empty() {
        let (&(x, y), c) = t.0.map.iter().next().unwrap();
        return fail(format!("{}:transparent_draws", k), format!("style is transparent but {:?} was painted {:?}", Point::new(x, y), c));
    }
    for &(x, y) in t.0.map.keys() {
        let p = Point::new(x, y);
        if !bb.contains(p) {
            // F-17 (known finding, see C14): with neither text nor background colour the decorations of
            // a spaced font are one trailing spacing too wide
            if let Item::Text(x) = item {
                let right = bb.top_left.x + bb.size.width as i32;
                if x.spacing > 0 && x.text_color.is_none() && x.background.is_none() && p.x >= right && p.x < right + x.spacing as i32 && p.y >= bb.top_left.y && p.y < bb.top_left.y + bb.size.height as i32 + 64 {
                    return fail("transparent_spaced_text:trailing_spacing", format!("{:?} (a decoration pixel in the trailing spacing) lies outside bounding_box() = {:?}", p, bb));
                }
            }
            return fail(format!("{}:outside_bounding_box", k), format!("{:?} was painted but lies outside bounding_box() = {:?}", p, bb));
        }
    }
    Ok(t.0.map.len())
}

fn fonts_matrix(ex: &Ex) {
    let n = FONTS.len() as u64;
    ex.par(n, |fi| {
        let chars = font_chars(fi as usize);
        // three lines: descender-heavy ASCII, characters from the end of the mapping, a short line
        let tail: String = chars.iter().rev().take(5).collect();
        let text = format!("gjpqy|_Ag\n{}\nq", tail);
        let mut count = 0;
        let mut nt = 0;
        for bits in 0..8u32 {
            for baseline in [Baseline::Top, Baseline::Bottom, Baseline::Middle, Baseline::Alphabetic] {
                for alignment in [Alignment::Left, Alignment::Center, Alignment::Right] {
                    let item: Item<Rgb888> = Item::Text(TextItem {
                        font: fi as usize,
                        text: text.clone(),
                        text_color: Some(<Rgb888 as crate::gen::Col>::nth(3)),
                        background: if bits & 1 != 0 { Some(<Rgb888 as crate::gen::Col>::nth(4)) } else { None },
                        underline: if bits & 2 != 0 { DecorationColor::TextColor } else { DecorationColor::None },
                        strikethrough: if bits & 4 != 0 { DecorationColor::Custom(<Rgb888 as crate::gen::Col>::nth(6)) } else { DecorationColor::None },
                        pos: Point::new(3, -2),
                        alignment,
                        baseline,
                        line_height: LineHeight::Percent(100),
                        route: 0,
                        spacing: 0,
                    });
                    count += 1;
                    match check_item(&item) {
                        Ok(np) => {
                            if np > 0 {
                                nt += 1;
                            }
                        }
                        Err(f) => ex.fail(fi * 1000 + count, f.sig, f.detail, item.desc()),
                    }
                    if fi % 50 == 7 && count == 30 {
                        ex.sample(|| item.desc());
                    }
                }
            }
        }
        ex.add(count, nt);
    });
}


/// Thick polylines (3..=4 vertices) and triangles with small stroke widths: the join geometry
/// (miter / bevel / degenerate / skeleton segments) decides the styled bounding box. Found F-23
/// (a 2 px polyline whose drawn end point lies outside its box) in the thorough tier; this
/// sub-check concentrates the quick tier on that region.
fn thick_joins(d: &mut Dec, cx: &mut Cx) -> Res {
    type C = BinaryColor;
    let width = match d.u(0, 3) {
        0 | 1 => 2,
        2 => 3,
        _ => d.u(2, 8),
    };
    let mut style = embedded_graphics::primitives::PrimitiveStyle::<C>::with_stroke(BinaryColor::On, width);
    style.stroke_alignment = crate::gen::alignment(d);
    let r = if d.ratio(1, 3) { 12 } else { 40 };
    let p = |d: &mut Dec| Point::new(d.i(-r, r), d.i(-r, r));
    let item: Item<C> = if d.ratio(1, 4) {
        cx.class("triangle");
        Item::Styled(crate::gen::Shape::Triangle(embedded_graphics::primitives::Triangle::new(p(d), p(d), p(d))), style)
    } else {
        cx.class("polyline");
        let n = d.u(3, 4);
        let pts: Vec<Point> = (0..n).map(|_| p(d)).collect();
        Item::Polyline(PolyItem { pts, offset: Point::zero(), style })
    };
    cx.describe(|| item.desc());
    let n = check_item(&item)?;
    cx.nontrivial(n >= 3);
    Ok(())
}


/// Styled primitives of 100..=1024 px with strokes up to 128 px, solid and dotted (a quarter of the
/// cases are dotted rectangles, whose dot positions are computed with `Real` arithmetic), judged on
/// an extent-tracking native target (O(1) per fill); default and fixed_point builds.
fn display_scale(d: &mut Dec, cx: &mut Cx) -> Res {
    let maxw = if d.ratio(1, 3) { 128 } else { 12 };
    extent_case(d, cx, 100, 1024, maxw)
}

/// Beyond display scale: styled primitives of 1025..=3000 px (all eight kinds, arcs and sectors
/// included) with strokes up to 200 px on the extent-tracking target. The extent of everything
/// painted (fills O(1), strokes pixel by pixel) must lie inside bounding_box(), and a transparent
/// style must paint nothing.
fn huge_extent(d: &mut Dec, cx: &mut Cx) -> Res {
    let maxw = match d.u(0, 2) {
        0 => 200,
        1 => 40,
        _ => 3,
    };
    extent_case(d, cx, 1025, 3000, maxw)
}

fn extent_case(d: &mut Dec, cx: &mut Cx, lo: u32, hi: u32, maxw: u32) -> Res {
    type C = Rgb565;
    let dotted_rect = d.ratio(1, 4);
    let kind = if dotted_rect { 0 } else { d.u(0, 7) };
    let mut st = crate::gen::style::<C>(d, maxw);
    if dotted_rect || d.ratio(1, 8) {
        st.stroke_style = embedded_graphics::primitives::StrokeStyle::Dotted;
        if dotted_rect {
            st.stroke_color = Some(<C as crate::gen::Col>::nth(2));
            st.stroke_width = st.stroke_width.clamp(1, 12);
        }
    }
    let item: Item<C> = Item::Styled(crate::gen::large_shape(d, kind, lo, hi), st);
    cx.describe(|| item.desc());
    cx.class(if dotted_rect { "dotted_rectangle" } else { item.kind() });
    let k = item.kind();
    let mut t = ExtentT::<C>::new();
    item.draw(&mut t).map_err(|e| Fail { sig: format!("{}:draw_error", k), detail: format!("{:?}", e) })?;
    let bb = item.bounding_box();
    if item.is_transparent() && t.pixels > 0 {
        return fail(format!("{}:transparent_draws", k), format!("style is transparent but {} pixels were painted", t.pixels));
    }
    if let (Some(min), Some(max)) = (t.min, t.max) {
        let inside = bb.contains(min) && bb.contains(max);
        if !inside {
            return fail(format!("{}:outside_bounding_box", k), format!("painted extent {:?}..={:?} is not inside bounding_box() = {:?}", min, max, bb));
        }
    }
    cx.nontrivial(t.pixels >= 1 && !bb.is_zero_sized());
    Ok(())
}


/// Text in copies of the built-in fonts with character_spacing 1..=3 (spacing columns filled with
/// the background, decorations spanning the spacing): everything painted must lie inside
/// Text::bounding_box().
fn text_spaced_fonts(d: &mut Dec, cx: &mut Cx) -> Res {
    use embedded_graphics::mono_font::{MonoFont, MonoTextStyleBuilder};
    use embedded_graphics::geometry::Dimensions;
    use embedded_graphics::text::Text;
    use embedded_graphics::Drawable;
    type C = Rgb565;
    let item = gen_text::<C>(d, 40, 12);
    let spacing = d.u(1, 3);
    let font = MonoFont { character_spacing: spacing, ..*item.font() };
    cx.describe(|| format!("{} with character_spacing {}", item.desc(), spacing));
    cx.class("spaced_font");
    let style = MonoTextStyleBuilder::from(&item.char_style()).font(&font).build();
    let text = Text::with_text_style(&item.text, item.pos, style, item.text_style());
    let mut t = NativeT::<C>::new();
    t.0.log = false;
    text.draw(&mut t).map_err(|e| Fail { sig: "text:draw_error".into(), detail: format!("{:?}", e) })?;
    let bb = text.bounding_box();
    if style.is_transparent() && !t.0.map.is_empty() {
        return fail("text:transparent_draws", "style is transparent but pixels were painted".to_string());
    }
    let transparent_spaced = item.text_color.is_none() && item.background.is_none();
    for &(x, y) in t.0.map.keys() {
        let p = Point::new(x, y);
        if !bb.contains(p) {
            // F-17 (known finding, see C14): with neither text nor background colour the decorations of
            // a spaced font are one trailing spacing too wide
            let right = bb.top_left.x + bb.size.width as i32;
            if transparent_spaced && p.x >= right && p.x < right + spacing as i32 && p.y >= bb.top_left.y && p.y < bb.top_left.y + bb.size.height as i32 + 64 {
                return fail("transparent_spaced_text:trailing_spacing", format!("{:?} (a decoration pixel in the trailing spacing) lies outside bounding_box() = {:?}", p, bb));
            }
            return fail("text:outside_bounding_box", format!("{:?} was painted but lies outside bounding_box() = {:?}", p, bb));
        }
    }
    cx.nontrivial(!t.0.map.is_empty() && item.text.chars().filter(|c| *c != '\n' && *c != '\r').count() >= 2);
    Ok(())
}
