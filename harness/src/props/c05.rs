//! C05 — points() enumerates exactly the points contains() accepts.

use crate::engine::*;
use crate::exact::orient;
use crate::gen::{self, *};
use embedded_graphics::primitives::{ContainsPoint, PointsIter};

pub fn prop() -> Prop {
    Prop {
        id: "C05",
        level: "exploration",
        rule: "shapes: complete enumerations (rectangles 0..=13^2, circles d<=64 (128 thorough), ellipses 0..=40^2 (64^2), equal-corner rounded rectangles w,h<=12 rx,ry<=7, triangles on a 6x6 (7x7) grid) at positions straddling the axes, plus proptest tapes for shapes of 100..=500 px (sub-check large_shapes), rounded rectangles with four independent radii, larger circles/ellipses, triangles to +-40 and sectors d<=48 with integer and fractional angles (default and fixed_point builds). Oracle: points() as a sequence vs the set {q in bbox+margin 3 : contains(q)}: equal sets, strictly increasing in (y,x), inside bounding_box(), contains false in the margin. Non-trivial: >= 3 points and the shape is not the full bounding rectangle. Zero-area triangles are excluded by construction (third vertex moved off the line).",
        assumptions: vec![
            "contains() is probed on the bounding box plus a margin of 3 pixels, not on the whole plane",
        ],
        subs: vec![
            Sub::enumerate("rectangles", rectangles),
            Sub::enumerate("circles", circles),
            Sub::enumerate("ellipses", ellipses),
            Sub::enumerate("rrect_equal", rrect_equal),
            Sub::enumerate("triangles_grid", triangles_grid),
            Sub::tape("rrect_random", 64, 100_000, 5_000_000, rrect_random),
            Sub::tape("round_random", 16, 20_000, 1_000_000, round_random),
            Sub::tape("triangles_random", 24, 100_000, 5_000_000, triangles_random),
            Sub::tape("sectors", 16, 60_000, 3_000_000, sectors).with_fp(),
            Sub::tape("large_shapes", 48, 1_600, 80_000, large_shapes),
            Sub::tape("huge_sampled_rows", 160, 400, 20_000, huge_shapes).with_fp(),
        ],
    }
}

pub struct PvC {
    pub n_points: usize,
    pub full_rect: bool,
}

/// The core oracle: compare a point sequence with a membership predicate on bbox + margin.
pub fn points_vs_contains(
    kind: &str,
    pts: impl Iterator<Item = Point>,
    contains: impl Fn(Point) -> bool,
    bbox: Rectangle,
    margin: i32,
) -> Result<PvC, Fail> {
    let budget = (bbox.size.width as usize + 1) * (bbox.size.height as usize + 1) + 16;
    let mut v: Vec<(i32, i32)> = Vec::new();
    for p in pts {
        if v.len() > budget {
            return fail(format!("{}:too_many_points", kind), format!("more than {} points for bounding box {:?}", budget, bbox));
        }
        if let Some(&last) = v.last() {
            if (p.y, p.x) <= last {
                return fail(
                    format!("{}:order", kind),
                    format!("points() yields {:?} after {:?} (not strictly row-major / duplicate)", p, Point::new(last.1, last.0)),
                );
            }
        }
        if !bbox.contains(p) {
            return fail(format!("{}:outside_bbox", kind), format!("points() yields {:?} outside bounding box {:?}", p, bbox));
        }
        v.push((p.y, p.x));
    }
    let x0 = bbox.top_left.x - margin;
    let y0 = bbox.top_left.y - margin;
    let x1 = bbox.top_left.x + bbox.size.width as i32 + margin;
    let y1 = bbox.top_left.y + bbox.size.height as i32 + margin;
    let mut idx = 0usize;
    let mut inside_count = 0usize;
    for y in y0..y1 {
        for x in x0..x1 {
            let q = Point::new(x, y);
            let c = contains(q);
            let member = idx < v.len() && v[idx] == (y, x);
            if member {
                idx += 1;
            }
            if c && !member {
                let sig = if bbox.contains(q) { "points_missing" } else { "contains_outside_bbox" };
                return fail(
                    format!("{}:{}", kind, sig),
                    format!("contains({:?}) is true but points() does not yield it (bbox {:?}, {} points)", q, bbox, v.len()),
                );
            }
            if !c && member {
                return fail(
                    format!("{}:points_extra", kind),
                    format!("points() yields {:?} but contains() rejects it (bbox {:?})", q, bbox),
                );
            }
            if c {
                inside_count += 1;
            }
        }
    }
    debug_assert_eq!(idx, v.len());
    let _ = inside_count;
    Ok(PvC {
        n_points: v.len(),
        full_rect: v.len() == bbox.size.width as usize * bbox.size.height as usize,
    })
}

fn check_shape(s: &Shape) -> Result<PvC, Fail> {
    match s {
        Shape::Rect(r) => points_vs_contains("rectangle", r.points(), |p| ContainsPoint::contains(r, p), r.bounding_box(), 3),
        Shape::Circle(c) => points_vs_contains("circle", c.points(), |p| c.contains(p), c.bounding_box(), 3),
        Shape::Ellipse(e) => points_vs_contains("ellipse", e.points(), |p| e.contains(p), e.bounding_box(), 3),
        Shape::RRect(r) => points_vs_contains("rounded_rectangle", r.points(), |p| r.contains(p), r.bounding_box(), 3),
        Shape::Triangle(t) => points_vs_contains("triangle", t.points(), |p| t.contains(p), t.bounding_box(), 3),
        Shape::Sector(s) => points_vs_contains("sector", s.points(), |p| s.contains(p), s.bounding_box(), 3),
        _ => unreachable!(),
    }
}

const ORIGINS: [(i32, i32); 3] = [(0, 0), (-5, -3), (7, -20)];

fn enum_shapes(ex: &Ex, n: u64, make: impl Fn(u64) -> Vec<Shape> + Sync) {
    ex.par(n, |i| {
        let shapes = make(i);
        let mut nt = 0;
        for (k, s) in shapes.iter().enumerate() {
            match check_shape(s) {
                Ok(r) => {
                    if r.n_points >= 3 && !r.full_rect {
                        nt += 1;
                    }
                }
                Err(f) => ex.fail(i * 4096 + k as u64, f.sig, f.detail, format!("{:?}", s)),
            }
            // iterator protocol of points(), three scripts per shape from a tape derived from the index
            for rep in 0..3u64 {
                let mut x = (i * 4096 + k as u64) * 3 + rep + 1;
                let tape: Vec<u32> = (0..AUX + 8)
                    .map(|_| {
                        x ^= x << 13;
                        x ^= x >> 7;
                        x ^= x << 17;
                        (x >> 16) as u32
                    })
                    .collect();
                let mut d = Dec::new(&tape);
                if let Err(f) = s.points_protocol(&mut d) {
                    ex.fail(i * 4096 + k as u64, f.sig, f.detail, format!("{:?}", s));
                }
            }
        }
        if i % 37 == 11 {
            if let Some(s) = shapes.last() {
                ex.sample(|| format!("{:?}", s));
            }
        }
        ex.add(shapes.len() as u64, nt);
    });
}

fn rectangles(ex: &Ex) {
    enum_shapes(ex, 14 * 14, |i| {
        let (w, h) = ((i % 14) as u32, (i / 14) as u32);
        ORIGINS.iter().map(|&(x, y)| Shape::Rect(Rectangle::new(Point::new(x, y), Size::new(w, h)))).collect()
    });
}

fn circles(ex: &Ex) {
    let max = ex.tier.pick(64, 128);
    enum_shapes(ex, max + 1, |d| {
        ORIGINS.iter().map(|&(x, y)| Shape::Circle(Circle::new(Point::new(x - d as i32 / 2, y), d as u32))).collect()
    });
}

fn ellipses(ex: &Ex) {
    let max: u64 = ex.tier.pick(40, 64);
    enum_shapes(ex, (max + 1) * (max + 1), |i| {
        let (w, h) = ((i % (max + 1)) as u32, (i / (max + 1)) as u32);
        let o = ORIGINS[(i % 3) as usize];
        vec![Shape::Ellipse(Ellipse::new(Point::new(o.0 - w as i32 / 2, o.1 - h as i32 / 3), Size::new(w, h)))]
    });
}

fn rrect_equal(ex: &Ex) {
    let m: u64 = ex.tier.pick(12, 16);
    let r: u64 = ex.tier.pick(7, 10);
    enum_shapes(ex, (m + 1) * (m + 1), |i| {
        let (w, h) = ((i % (m + 1)) as u32, (i / (m + 1)) as u32);
        let o = ORIGINS[(i % 3) as usize];
        let mut v = vec![];
        for rx in 0..=r as u32 {
            for ry in 0..=r as u32 {
                v.push(Shape::RRect(RoundedRectangle::with_equal_corners(
                    Rectangle::new(Point::new(o.0 - 2, o.1 - 1), Size::new(w, h)),
                    Size::new(rx, ry),
                )));
            }
        }
        v
    });
}

fn triangles_grid(ex: &Ex) {
    let g: u64 = ex.tier.pick(6, 7);
    let cells = g * g;
    // first vertex index i, the two others enumerated inside; grid offset so that it crosses the axes
    enum_shapes(ex, cells * cells, |i| {
        let pt = |k: u64| Point::new((k % g) as i32 - 2, (k / g) as i32 - 3);
        let (a, b) = (pt(i / cells), pt(i % cells));
        let mut v = vec![];
        for k in 0..cells {
            let c = pt(k);
            if orient(a, b, c) != 0 {
                v.push(Shape::Triangle(Triangle::new(a, b, c)));
            }
        }
        v
    });
}

fn rrect_random(d: &mut Dec, cx: &mut Cx) -> Res {
    let big = d.ratio(1, 4);
    let rc = gen::rect(d, 12, if big { 40 } else { 14 });
    let radii = gen::corner_radii(d, if big { 60 } else { 16 });
    let s = Shape::RRect(RoundedRectangle::new(rc, radii));
    let s = s.translate(gen::far_offset(d));
    cx.describe(|| format!("{:?}", s));
    cx.class(if big { "big" } else { "small" });
    let r = check_shape(&s)?;
    if r.n_points <= 20_000 {
        s.points_protocol(d)?;
    }
    cx.nontrivial(r.n_points >= 3 && !r.full_rect);
    Ok(())
}

fn round_random(d: &mut Dec, cx: &mut Cx) -> Res {
    let p = gen::point(d, 150);
    let s = if d.bool() {
        cx.class("circle");
        Shape::Circle(Circle::new(p, d.u(0, 200)))
    } else {
        cx.class("ellipse");
        Shape::Ellipse(Ellipse::new(p, Size::new(d.u(0, 200), d.u(0, 200))))
    };
    let s = s.translate(gen::far_offset(d));
    cx.describe(|| format!("{:?}", s));
    let r = check_shape(&s)?;
    if r.n_points <= 20_000 {
        s.points_protocol(d)?;
    }
    cx.nontrivial(r.n_points >= 3 && !r.full_rect);
    Ok(())
}

/// A triangle with non-zero area: the third vertex is moved off the line if necessary.
pub fn nonflat_triangle(d: &mut Dec, r: i32) -> Triangle {
    let a = gen::point(d, r);
    let mut b = gen::point(d, r);
    if a == b {
        b.x += 1;
    }
    let c = gen::point(d, r);
    let (b2, mut c) = gen::structure_triangle(d, a, b, c);
    if b2 != a {
        b = b2;
    }
    let mut k = 0;
    while orient(a, b, c) == 0 {
        // move off the line, deterministically
        if k % 2 == 0 {
            c.y += 1;
        } else {
            c.x += 1;
        }
        k += 1;
    }
    Triangle::new(a, b, c)
}

fn triangles_random(d: &mut Dec, cx: &mut Cx) -> Res {
    let t = nonflat_triangle(d, 40);
    let s = Shape::Triangle(t);
    let s = s.translate(gen::far_offset(d));
    cx.describe(|| format!("{:?}", s));
    let [a, b, c] = t.vertices;
    let thin = orient(a, b, c).abs() <= 40;
    cx.class(if thin { "thin" } else { "fat" });
    let r = check_shape(&s)?;
    if r.n_points <= 20_000 {
        s.points_protocol(d)?;
    }
    cx.nontrivial(r.n_points >= 3 && !r.full_rect);
    Ok(())
}

fn sectors(d: &mut Dec, cx: &mut Cx) -> Res {
    let p = gen::point(d, 30);
    let dia = d.size(48);
    let (a0, a1) = (gen::angle_deg(d), gen::angle_deg(d));
    let p = p + gen::far_offset(d);
    let s = Shape::Sector(Sector::new(p, dia, a0.deg(), a1.deg()));
    cx.describe(|| format!("Sector top_left={:?} d={} start={} sweep={}", p, dia, a0, a1));
    cx.class(if a1.abs() >= 360.0 { "full" } else if a1 == 0.0 { "zero_sweep" } else { "partial" });
    let r = check_shape(&s)?;
    if r.n_points <= 20_000 {
        s.points_protocol(d)?;
    }
    cx.nontrivial(r.n_points >= 3 && !r.full_rect && a1.abs() < 360.0);
    Ok(())
}


/// Shapes of 100..=500 px (the other sub-checks stay below 200): truncation or overflow that only
/// shows at display scale.
fn large_shapes(d: &mut Dec, cx: &mut Cx) -> Res {
    let kind = d.pick(&[1u32, 2, 3, 4, 7, 0]);
    // (one triangle in six up to 1024 px)
    let hi = if kind == 4 && d.aux_u(7, 0, 5) == 5 { 1024 } else { 500 };
    let mut s = gen::large_shape(d, kind, 100, hi);
    if let Shape::Triangle(t) = &mut s {
        // the statement covers triangles with non-zero area only
        let [a, b, c] = &mut t.vertices;
        if a == b {
            b.x += 1;
        }
        let mut k = 0;
        while orient(*a, *b, *c) == 0 {
            if k % 2 == 0 {
                c.y += 1;
            } else {
                c.x += 1;
            }
            k += 1;
        }
    }
    let s = s.translate(gen::far_offset(d));
    cx.describe(|| format!("{:?}", s));
    cx.class(s.kind());
    let r = check_shape(&s)?;
    if r.n_points <= 20_000 {
        s.points_protocol(d)?;
    }
    cx.nontrivial(r.n_points >= 3 && !r.full_rect);
    Ok(())
}


// ---------------------------------------------------------------------------------------------
// Shapes of 1025..=4600 px: the whole points() stream, contains() on sampled rows
// ---------------------------------------------------------------------------------------------

/// `points()` is consumed completely (order, bounding box, number of points per sampled row); `contains()`
/// is evaluated for every x of the sampled rows (box width + margin) and on rows just outside the box.
fn points_vs_contains_rows(kind: &str, pts: impl Iterator<Item = Point>, contains: impl Fn(Point) -> bool, bbox: Rectangle, rows: &std::collections::BTreeSet<i32>) -> Result<usize, Fail> {
    let budget = (bbox.size.width as u64 + 1) * (bbox.size.height as u64 + 1) + 16;
    let mut per_row: std::collections::BTreeMap<i32, Vec<i32>> = Default::default();
    let mut last: Option<Point> = None;
    let mut n = 0u64;
    for p in pts {
        n += 1;
        if n > budget {
            return fail(format!("{}:too_many_points", kind), format!("more than {} points for bounding box {:?}", budget, bbox));
        }
        if let Some(q) = last {
            if (p.y, p.x) <= (q.y, q.x) {
                return fail(format!("{}:order", kind), format!("points() yields {:?} after {:?} (not strictly row-major / duplicate)", p, q));
            }
        }
        last = Some(p);
        if !bbox.contains(p) {
            return fail(format!("{}:outside_bbox", kind), format!("points() yields {:?} outside bounding box {:?}", p, bbox));
        }
        if rows.contains(&p.y) {
            per_row.entry(p.y).or_default().push(p.x);
        }
    }
    let (x0, x1) = (bbox.top_left.x - 3, bbox.top_left.x + bbox.size.width as i32 + 3);
    let empty = vec![];
    for &y in rows {
        let xs = per_row.get(&y).unwrap_or(&empty);
        let mut idx = 0;
        for x in x0..x1 {
            let q = Point::new(x, y);
            let c = contains(q);
            let member = idx < xs.len() && xs[idx] == x;
            if member {
                idx += 1;
            }
            if c && !member {
                let sig = if bbox.contains(q) { "points_missing" } else { "contains_outside_bbox" };
                return fail(format!("{}:{}", kind, sig), format!("contains({:?}) is true but points() does not yield it (bbox {:?}, {} points in all)", q, bbox, n));
            }
            if !c && member {
                return fail(format!("{}:points_extra", kind), format!("points() yields {:?} but contains() rejects it (bbox {:?})", q, bbox));
            }
        }
    }
    Ok(n as usize)
}

fn huge_shapes(d: &mut Dec, cx: &mut Cx) -> Res {
    let kind = d.pick(&[1u32, 2, 3, 4, 7, 7]);
    let big = |d: &mut Dec, hi: u32| match d.u(0, 2) {
        0 => (d.pick(&[1024u32, 1448, 2048, 2896, 4096, 4600]) as i32 + d.i(-3, 3)).clamp(1025, hi as i32) as u32,
        _ => d.u(1025, hi),
    };
    let place = |d: &mut Dec, w: u32, h: u32| if d.bool() { Point::new(-(w as i32) / 2 + d.i(-3, 3), -(h as i32) / 2 + d.i(-3, 3)) } else { Point::new(d.i(-20_000, 20_000), d.i(-20_000, 20_000)) };
    let s = match kind {
        1 => {
            let w = big(d, 4600);
            Shape::Circle(Circle::new(place(d, w, w), w))
        }
        2 => {
            let (w, h) = if d.bool() { (big(d, 4600), d.u(1, 300)) } else { (big(d, 3000), big(d, 3000)) };
            let (w, h) = if d.bool() { (w, h) } else { (h, w) };
            Shape::Ellipse(Ellipse::new(place(d, w, h), Size::new(w, h)))
        }
        3 => {
            let (w, h) = if d.bool() { (big(d, 4600), d.u(1, 300)) } else { (big(d, 3000), big(d, 3000)) };
            let (w, h) = if d.bool() { (w, h) } else { (h, w) };
            let rad = |d: &mut Dec| Size::new(d.u(0, w), d.u(0, h));
            let radii = if d.bool() { CornerRadii::new(rad(d)) } else { CornerRadii { top_left: rad(d), top_right: rad(d), bottom_right: rad(d), bottom_left: rad(d) } };
            Shape::RRect(RoundedRectangle::new(Rectangle::new(place(d, w, h), Size::new(w, h)), radii))
        }
        4 => {
            // vertices within +-3000 of the origin (`area_doubled` multiplies absolute coordinates)
            let span = big(d, 3000) as i32;
            let a = Point::new(d.i(-span / 2, span / 2), d.i(-span / 2, span / 2));
            let b = a + Point::new(d.i(-span, span), d.i(-span, span));
            let c = a + Point::new(d.i(-span, span), d.i(-span, span));
            let (mut b, mut c) = gen::structure_triangle(d, a, b, c);
            if a == b {
                b.x += 1;
            }
            let mut k = 0;
            while orient(a, b, c) == 0 {
                if k % 2 == 0 { c.y += 1 } else { c.x += 1 }
                k += 1;
            }
            Shape::Triangle(Triangle::new(a, b, c))
        }
        _ => {
            let w = big(d, 3000);
            Shape::Sector(Sector::new(place(d, w, w), w, gen::angle_deg(d).deg(), gen::angle_deg(d).deg()))
        }
    };
    cx.describe(|| format!("{:?}", s));
    cx.class(s.kind());
    let bb = s.bounding_box();
    let (y0, y1) = (bb.top_left.y, bb.top_left.y + bb.size.height as i32 - 1);
    let mut rows: std::collections::BTreeSet<i32> = Default::default();
    for base in [y0, y1, (y0 + y1) / 2] {
        for k in -3..=3 {
            rows.insert(base + k);
        }
    }
    for _ in 0..28 {
        rows.insert(d.i(y0 - 2, y1 + 2));
    }
    let n = match &s {
        Shape::Circle(c) => points_vs_contains_rows("circle", c.points(), |p| c.contains(p), bb, &rows)?,
        Shape::Ellipse(e) => points_vs_contains_rows("ellipse", e.points(), |p| e.contains(p), bb, &rows)?,
        Shape::RRect(r) => points_vs_contains_rows("rounded_rectangle", r.points(), |p| r.contains(p), bb, &rows)?,
        Shape::Triangle(t) => points_vs_contains_rows("triangle", t.points(), |p| t.contains(p), bb, &rows)?,
        Shape::Sector(x) => points_vs_contains_rows("sector", x.points(), |p| x.contains(p), bb, &rows)?,
        _ => unreachable!(),
    };
    cx.nontrivial(n >= 3 && (n as u64) < bb.size.width as u64 * bb.size.height as u64);
    Ok(())
}
