//! C17 — lines connect their end points and stay on the ideal line.

use crate::engine::*;
use crate::ensure;
use crate::gen::{self, *};
use embedded_graphics::primitives::{PointsIter, Primitive};
use std::collections::BTreeSet;

pub fn prop() -> Prop {
    Prop {
        id: "C17",
        level: "exploration",
        rule: "complete enumeration of all lines with start in 6 points around the origin and delta in [-9,9]^2 (quick) / [-16,16]^2 (thorough) -- all octants, horizontal, vertical, diagonal, zero length -- x stroke widths 1..=10, plus proptest tapes with end points to +-200 (one case in ten to +-1000) and widths 1..=24 (40 for the width-independent clauses). Oracle, thin line: first = start, last = end, max(|dx|,|dy|)+1 points, unit steps along the major axis, at most one along the minor axis, exact integer test 4*cross^2 <= len^2 for 'within half a pixel of the ideal line'. Thick line (pixels() of the styled line): no pixel twice, superset of the thin line, equal to it for width 1, perpendicular distance <= w/2 + 2.5 (claimed for w <= 24), projection within one pixel of the two end planes, and (for length >= 4) the span of signed offsets of the pixels whose projection is within 1 px of the midpoint, plus one, is >= w - 1. Non-trivial: neither axis-parallel nor diagonal, length >= 4 and w >= 2.",
        assumptions: vec![
            "W: the distance bound w/2 + 2.5 is only asserted for widths <= 24; the algorithm's diagonal approximation grows the deviation by about w/16 (measured), so larger widths are checked for the width-independent clauses only",
            "f64 is used for the thick-line distances, with the stated tolerances (measured slack on the pinned tree >= 0.5 px)",
        ],
        subs: vec![
            Sub::enumerate("grid", grid),
            Sub::tape("random", 20, 200_000, 10_000_000, random),
            Sub::tape("very_long", 24, 3_000, 150_000, very_long),
        ],
    }
}

fn check_thin(l: &Line) -> Result<Vec<Point>, Fail> {
    let (s, e) = (l.start, l.end);
    let (dx, dy) = ((e.x - s.x) as i64, (e.y - s.y) as i64);
    let n = dx.abs().max(dy.abs()) as usize + 1;
    let mut pts = Vec::with_capacity(n);
    for p in l.points() {
        if pts.len() > n {
            return fail("thin:too_many_points", format!("more than {} points", n));
        }
        pts.push(p);
    }
    ensure!(pts.first() == Some(&s), "thin:first_point", "points() starts with {:?}, not the start point", pts.first());
    ensure!(pts.last() == Some(&e), "thin:last_point", "points() ends with {:?}, not the end point", pts.last());
    ensure!(pts.len() == n, "thin:count", "{} points, expected max(|dx|,|dy|)+1 = {}", pts.len(), n);
    let x_major = dx.abs() >= dy.abs();
    for w in pts.windows(2) {
        let d = w[1] - w[0];
        let (maj, min) = if x_major { (d.x, d.y) } else { (d.y, d.x) };
        ensure!(maj.abs() == 1 && min.abs() <= 1, "thin:step", "step from {:?} to {:?} is not one pixel along the major axis and at most one along the minor axis", w[0], w[1]);
        // the major axis always moves towards the end point
        let toward = if x_major { dx.signum() } else { dy.signum() };
        ensure!(maj as i64 == toward, "thin:step_direction", "step from {:?} to {:?} moves away from the end point", w[0], w[1]);
    }
    let len2 = dx * dx + dy * dy;
    for p in &pts {
        let cross = (p.x - s.x) as i64 * dy - (p.y - s.y) as i64 * dx;
        ensure!(4 * cross * cross <= len2, "thin:distance", "{:?} is more than half a pixel away from the ideal line ({:.3} px)", p, (cross as f64).abs() / (len2 as f64).sqrt());
    }
    Ok(pts)
}

struct ThickStats {
    nontrivial: bool,
}

/// `align`: the stroke alignment of the style (documented to be ignored for open shapes such as lines).
fn check_thick(l: &Line, w: u32, thin: &[Point], align: StrokeAlignment) -> Result<ThickStats, Fail> {
    let (s, e) = (l.start, l.end);
    let (dx, dy) = ((e.x - s.x) as f64, (e.y - s.y) as f64);
    let len = (dx * dx + dy * dy).sqrt();
    let mut style = PrimitiveStyle::with_stroke(Rgb888::nth(2), w);
    style.stroke_alignment = align;
    let budget = (len as usize + 3) * (w as usize + 6) * 3 + 64;
    let mut px: Vec<Point> = vec![];
    for Pixel(p, _) in l.into_styled(style).pixels() {
        if px.len() > budget {
            return fail("thick:too_many_pixels", format!("more than {} pixels for width {}", budget, w));
        }
        px.push(p);
    }
    let set: BTreeSet<(i32, i32)> = px.iter().map(|p| (p.x, p.y)).collect();
    ensure!(set.len() == px.len(), "thick:duplicate_pixel", "{} pixels but only {} distinct (width {})", px.len(), set.len(), w);
    // the stroked line is the same set whether it is taken from `pixels()` or drawn with `draw()`, also onto a
    // target whose (reported, not enforced) bounding box is missed by the thin centre line, touches only one
    // side of the stroke, or lies somewhere inside it
    if px.len() <= 20_000 {
        use crate::targets::NativeT;
        use embedded_graphics::Drawable;
        let sb = l.into_styled(style).bounding_box();
        let h = (s.x as i64 * 31 + s.y as i64 * 17 + e.x as i64 * 7 + e.y as i64 * 3 + w as i64).unsigned_abs();
        let half = (w as i32 + 1) / 2;
        let tb = match h % 6 {
            0 => Rectangle::new(Point::new(-1_000_000, -1_000_000), Size::new(2_000_000, 2_000_000)),
            // a window that starts just beside the centre line, on either side, horizontally or vertically
            1 => Rectangle::new(Point::new(s.x.min(e.x) - 2, s.y.max(e.y) + 1), Size::new(sb.size.width + 4, half as u32 + 3)),
            2 => Rectangle::new(Point::new(s.x.min(e.x) - 2, s.y.min(e.y) - half - 3), Size::new(sb.size.width + 4, half as u32 + 3)),
            3 => Rectangle::new(Point::new(s.x.max(e.x) + 1, s.y.min(e.y) - 2), Size::new(half as u32 + 3, sb.size.height + 4)),
            4 => Rectangle::new(Point::new(s.x.min(e.x) - half - 3, s.y.min(e.y) - 2), Size::new(half as u32 + 3, sb.size.height + 4)),
            _ => Rectangle::new(sb.top_left + Point::new((sb.size.width / 3) as i32, (sb.size.height / 3) as i32), Size::new(sb.size.width / 2, sb.size.height / 2)),
        };
        let mut t = NativeT::<Rgb888>::with_box(tb);
        t.0.log = false;
        l.into_styled(style).draw(&mut t).map_err(|e| Fail { sig: "thick:draw_error".into(), detail: format!("{:?}", e) })?;
        let drawn: BTreeSet<(i32, i32)> = t.0.map.keys().copied().collect();
        if drawn != set {
            let missing = set.difference(&drawn).next();
            let extra = drawn.difference(&set).next();
            return fail("thick:draw_vs_pixels", format!("draw() onto a target that reports the bounding box {:?} paints {} points, pixels() yields {} (width {}); first point only in pixels(): {:?}, only drawn: {:?}", tb, drawn.len(), set.len(), w, missing, extra));
        }
    }
    for q in thin {
        ensure!(set.contains(&(q.x, q.y)), "thick:thin_line_missing", "thin line point {:?} is not part of the stroked line of width {}", q, w);
    }
    if w == 1 {
        ensure!(px.len() == thin.len(), "thick:width1_differs", "width 1 yields {} pixels, points() {}", px.len(), thin.len());
    }
    let half = w as f64 / 2.0;
    let mut mid_min = f64::MAX;
    let mut mid_max = f64::MIN;
    for q in &px {
        let (qx, qy) = ((q.x - s.x) as f64, (q.y - s.y) as f64);
        if len > 0.0 {
            let off = (qx * dy - qy * dx) / len;
            let t = (qx * dx + qy * dy) / len;
            if w <= 24 {
                ensure!(off.abs() <= half + 2.5, "thick:distance", "{:?} is {:.3} px from the ideal line, more than w/2 + 2.5 = {:.1} (width {})", q, off.abs(), half + 2.5, w);
            }
            ensure!(t >= -1.0 - 1e-9 && t <= len + 1.0 + 1e-9, "thick:overshoot", "{:?} projects {:.3} px beyond an end of the segment (width {})", q, (-t).max(t - len), w);
            if (t - len / 2.0).abs() <= 1.0 {
                mid_min = mid_min.min(off);
                mid_max = mid_max.max(off);
            }
        } else if w <= 24 {
            let dist = (qx * qx + qy * qy).sqrt();
            ensure!(dist <= half + 2.5, "thick:distance_point", "{:?} is {:.3} px from the zero-length line's point (width {})", q, dist, w);
        }
    }
    if len >= 4.0 {
        ensure!(mid_max >= mid_min, "thick:middle_empty", "no pixel near the middle of the line (width {})", w);
        let width = mid_max - mid_min + 1.0;
        ensure!(width >= w as f64 - 1.0 - 1e-9, "thick:too_narrow", "the stroke is {:.3} px wide at its middle, less than w - 1 = {} (width {})", width, w - 1, w);
    }
    let axis = s.x == e.x || s.y == e.y || dx.abs() == dy.abs();
    Ok(ThickStats { nontrivial: !axis && len >= 4.0 && w >= 2 })
}

const STARTS: [(i32, i32); 6] = [(0, 0), (-2, 0), (3, -1), (0, -1), (-7, 5), (1, 1)];

fn grid(ex: &Ex) {
    let r: i64 = ex.tier.pick(9, 16);
    let side = (2 * r + 1) as u64;
    ex.par(side * side, |i| {
        let (ddx, ddy) = ((i % side) as i32 - r as i32, (i / side) as i32 - r as i32);
        let mut n = 0;
        let mut nt = 0;
        for (si, &(sx, sy)) in STARTS.iter().enumerate() {
            let l = Line::new(Point::new(sx, sy), Point::new(sx + ddx, sy + ddy));
            let idx = (i * 6 + si as u64) * 16;
            match check_thin(&l) {
                Err(f) => ex.fail(idx, f.sig, f.detail, format!("{:?}", l)),
                Ok(thin) => {
                    for w in 1..=10u32 {
                        n += 1;
                        // (the alignment, which lines ignore, rotates with the width and the start point)
                        match check_thick(&l, w, &thin, [StrokeAlignment::Center, StrokeAlignment::Inside, StrokeAlignment::Outside][(w as usize + si) % 3]) {
                            Ok(st) => nt += u64::from(st.nontrivial),
                            Err(f) => ex.fail(idx + w as u64, f.sig, f.detail, format!("{:?} width {}", l, w)),
                        }
                    }
                }
            }
        }
        if i % 97 == 3 {
            ex.sample(|| format!("delta ({}, {}) from 6 start points, widths 1..=10", ddx, ddy));
        }
        ex.add(n, nt);
    });
}

fn random(d: &mut Dec, cx: &mut Cx) -> Res {
    let r = match d.u(0, 9) {
        0..=2 => 12,
        3..=5 => 60,
        6..=8 => 200,
        _ => 1000,
    };
    let s = Point::new(d.i(-r, r), d.i(-r, r));
    let e = match d.u(0, 9) {
        0 => s,
        1 => Point::new(s.x, d.i(-r, r)),
        2 => Point::new(d.i(-r, r), s.y),
        3 => {
            let k = d.i(-r, r);
            Point::new(s.x + k, s.y + if d.bool() { k } else { -k })
        }
        _ => Point::new(d.i(-r, r), d.i(-r, r)),
    };
    let w = if d.ratio(1, 6) { d.u(25, 40) } else { d.u(1, 24) };
    let far = gen::far_offset(d);
    let l = Line::new(s + far, e + far);
    // auxiliary word 5: half of the lines are styled with Inside or Outside alignment, which the
    // documentation says is ignored for open shapes: every clause must hold unchanged
    let align = [StrokeAlignment::Center, StrokeAlignment::Center, StrokeAlignment::Inside, StrokeAlignment::Outside][d.aux_u(5, 0, 3) as usize];
    cx.describe(|| format!("{:?} width {} ({:?})", l, w, align));
    cx.class(if w > 24 { "wide(>24)" } else if w == 1 { "width1" } else { "width2..24" });
    let thin = check_thin(&l)?;
    let st = check_thick(&l, w, &thin, align)?;
    cx.nontrivial(st.nontrivial);
    if thin.len() <= 2_000 {
        gen::iterator_protocol(&|| l.points(), d, "thin:points")?;
        let style = PrimitiveStyle::with_stroke(Rgb888::nth(2), w);
        gen::iterator_protocol(&|| l.into_styled(style).pixels(), d, "thick:pixels")?;
    }
    Ok(())
}


/// Lines whose larger delta is 1025..=30000 (far beyond a display, e.g. a plot line to an off-screen
/// point): magnitudes around 2^12, 2^13, 2^14 and 2^15 - 1, widths 1..=8.
fn very_long(d: &mut Dec, cx: &mut Cx) -> Res {
    let s = Point::new(d.i(-200, 200), d.i(-200, 200));
    let major = match d.u(0, 5) {
        0 => d.pick(&[4095, 4096, 4097, 8191, 8192, 8193, 16383, 16384, 16385, 30000]),
        1 => d.i(1025, 5000),
        _ => d.i(1025, 30_000),
    };
    let minor = match d.u(0, 4) {
        0 => 0,
        1 => major,
        2 => d.i(0, 20),
        _ => d.i(0, major),
    };
    let (mut dx, mut dy) = if d.bool() { (major, minor) } else { (minor, major) };
    if d.bool() {
        dx = -dx;
    }
    if d.bool() {
        dy = -dy;
    }
    let e = s + Point::new(dx, dy);
    let w = d.u(1, 8);
    let l = if d.bool() { Line::new(s, e) } else { Line::new(e, s) };
    cx.describe(|| format!("{:?} width {}", l, w));
    cx.class(if major >= 16384 { "delta>=16384" } else if major >= 4096 { "delta>=4096" } else { "delta>=1025" });
    let align = [StrokeAlignment::Center, StrokeAlignment::Center, StrokeAlignment::Inside, StrokeAlignment::Outside][d.aux_u(5, 0, 3) as usize];
    let thin = check_thin(&l)?;
    let st = check_thick(&l, w, &thin, align)?;
    cx.nontrivial(st.nontrivial || w == 1);
    Ok(())
}
