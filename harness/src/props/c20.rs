//! C20 — MockDisplay is a faithful test oracle.

use crate::engine::*;
use crate::ensure;
use embedded_graphics::{
    draw_target::DrawTarget,
    geometry::Point,
    mock_display::{ColorMapping, MockDisplay},
    pixelcolor::{BinaryColor, Gray2, Gray4, Gray8, PixelColor, Rgb565, Rgb888, RgbColor},
    primitives::{PointsIter, Rectangle},
    Drawable, Pixel,
};
use std::collections::BTreeMap;

pub fn prop() -> Prop {
    Prop {
        id: "C20",
        level: "exploration",
        rule: "proptest tapes decoding to a history of 0..=14 operations {draw a single Pixel, draw_iter with 1..=5 pixels, set_pixel(Some/None) in range, fill_solid / fill_contiguous (exact, short and long colour streams) / a filled Rectangle drawable on areas up to 5x5 inside, across the edges, completely outside and far away, clear} with points in [-3,67]^2 plus i32 extremes and deliberately repeated points, under the four combinations of allow_overdraw / allow_out_of_bounds_drawing, for BinaryColor, Gray2, Gray4, Gray8 (0x11 multiples), Rgb565 and Rgb888 (the 8 named colours). Oracle (model-based): a map kept by the harness; a drawing operation must panic iff some pixel is (outside and out-of-bounds drawing is not allowed) or (inside, already set, and overdraw is not allowed) -- judged with catch_unwind on a clone, and the message names the right reason; after every operation that must not panic get_pixel equals the model on all 4096 cells and affected_area is the tight box of the model; at the end from_pattern(parse(Debug output)) == display, a display rebuilt from the model compares equal and has an empty diff, and after changing one cell the two compare unequal and diff marks exactly that cell. A second sub-check generates patterns over each colour type's complete character set (BinaryColor . #, Gray2 0-3, Gray4 / Gray8 0-9A-F, RGB types K R G B Y M C W, blanks), up to 64x64: from_pattern must set exactly the cells the pattern names to the colour the documented character table gives (own table in the harness), Debug must reproduce the pattern rows (padded to 64 columns, trailing empty rows skipped), and from_pattern(Debug) must compare equal. Non-trivial: the history contains a repeated in-range point and an out-of-range point; a pattern with >= 2 rows, >= 3 different characters and a blank.",
        assumptions: vec![
            "get_pixel is only called with points inside the 64x64 area (it indexes unchecked by design)",
            "patterns use each colour type's canonical characters",
        ],
        subs: vec![
            Sub::tape("histories", 500, 100_000, 5_000_000, histories),
            Sub::tape("patterns", 200, 50_000, 2_500_000, patterns),
        ],
    }
}

fn histories(d: &mut Dec, cx: &mut Cx) -> Res {
    match d.u(0, 5) {
        0 => run::<BinaryColor>(d, cx, &[BinaryColor::On, BinaryColor::Off], "BinaryColor"),
        1 => run::<Gray2>(d, cx, &[Gray2::new(0), Gray2::new(1), Gray2::new(2), Gray2::new(3)], "Gray2"),
        2 => run::<Gray4>(d, cx, &[Gray4::new(0), Gray4::new(7), Gray4::new(10), Gray4::new(15)], "Gray4"),
        3 => run::<Gray8>(d, cx, &[Gray8::new(0), Gray8::new(0x11), Gray8::new(0xAA), Gray8::new(0xFF)], "Gray8"),
        4 => run::<Rgb565>(d, cx, &[Rgb565::BLACK, Rgb565::RED, Rgb565::GREEN, Rgb565::BLUE, Rgb565::YELLOW, Rgb565::MAGENTA, Rgb565::CYAN, Rgb565::WHITE], "Rgb565"),
        _ => run::<Rgb888>(d, cx, &[Rgb888::BLACK, Rgb888::RED, Rgb888::GREEN, Rgb888::BLUE, Rgb888::YELLOW, Rgb888::MAGENTA, Rgb888::CYAN, Rgb888::WHITE], "Rgb888"),
    }
}

#[derive(Debug, Clone)]
enum Op<C> {
    Pixel(Point, C),
    Iter(Vec<(Point, C)>),
    Set(Point, Option<C>),
    /// `DrawTarget::fill_solid`
    FillSolid(Rectangle, C),
    /// `DrawTarget::fill_contiguous` with a stream of exactly, fewer or more colours than the area
    FillContiguous(Rectangle, Vec<C>),
    /// `DrawTarget::clear`
    Clear(C),
    /// a filled `Rectangle` drawable
    StyledRect(Rectangle, C),
    /// `MockDisplay::draw_pixel` called directly (what every drawing operation ends in)
    DrawPixel(Point, C),
    /// `MockDisplay::set_pixels` with in-range points
    SetPixels(Vec<Point>, Option<C>),
}

fn inside(p: Point) -> bool {
    p.x >= 0 && p.y >= 0 && p.x < 64 && p.y < 64
}

fn run<C>(d: &mut Dec, cx: &mut Cx, palette: &[C], name: &str) -> Res
where
    C: PixelColor + ColorMapping + core::fmt::Debug,
{
    let allow_overdraw = d.bool();
    let allow_oob = d.bool();
    let nops = d.u(0, 14);
    let mut used: Vec<Point> = vec![];
    let mut ops: Vec<Op<C>> = vec![];
    let gen_point = |d: &mut Dec, used: &Vec<Point>| -> Point {
        match d.u(0, 9) {
            0 | 1 if !used.is_empty() => used[d.idx(used.len())],
            2 => Point::new(d.i(-3, 67), d.i(-3, 67)),
            3 => d.pick(&[Point::new(-1, 5), Point::new(5, -1), Point::new(64, 5), Point::new(5, 64), Point::new(i32::MIN, 0), Point::new(0, i32::MAX), Point::new(i32::MAX, i32::MIN), Point::new(65, 0)]),
            4 => d.pick(&[Point::new(0, 0), Point::new(63, 63), Point::new(63, 0), Point::new(0, 63)]),
            _ => Point::new(d.i(0, 63), d.i(0, 63)),
        }
    };
    for _ in 0..nops {
        let gen_area = |d: &mut Dec, used: &Vec<Point>| -> Rectangle {
            let tl = match d.u(0, 3) {
                // completely outside on one axis, or far away
                0 => d.pick(&[Point::new(-9, 4), Point::new(4, -9), Point::new(64, 60), Point::new(60, 64), Point::new(70, 70), Point::new(-20, -20), Point::new(1000, 3), Point::new(3, -1000)]),
                _ => {
                    let q = gen_point(d, used);
                    Point::new(q.x.clamp(-2000, 2000) - d.i(0, 3), q.y.clamp(-2000, 2000) - d.i(0, 3))
                }
            };
            // one area in eight is large (up to 100x100: more than 4096 pixels in one call)
            let m = if d.ratio(1, 8) { 100 } else { 5 };
            Rectangle::new(tl, embedded_graphics::geometry::Size::new(d.u(0, m), d.u(0, m)))
        };
        let op = match d.u(0, 12) {
            10 => {
                let a = gen_area(d, &used);
                used.extend(a.points().take(3));
                Op::FillSolid(a, d.pick(palette))
            }
            11 => {
                let a = gen_area(d, &used);
                used.extend(a.points().take(3));
                let full = (a.size.width * a.size.height) as usize;
                let n = match d.u(0, 3) {
                    0 => d.u(0, full as u32) as usize,
                    1 => full + d.u(1, 4) as usize,
                    _ => full,
                };
                Op::FillContiguous(a, (0..n).map(|_| d.pick(palette)).collect())
            }
            12 => {
                if d.ratio(1, 4) {
                    Op::Clear(d.pick(palette))
                } else {
                    let a = gen_area(d, &used);
                    used.extend(a.points().take(3));
                    Op::StyledRect(a, d.pick(palette))
                }
            }
            0..=4 => {
                let p = gen_point(d, &used);
                used.push(p);
                // auxiliary word 6: in half of the histories single pixels go through draw_pixel directly
                if d.aux_u(6, 0, 1) == 1 { Op::DrawPixel(p, d.pick(palette)) } else { Op::Pixel(p, d.pick(palette)) }
            }
            5..=7 => {
                let n = d.u(1, 5);
                let mut v = vec![];
                for _ in 0..n {
                    let p = gen_point(d, &used);
                    used.push(p);
                    v.push((p, d.pick(palette)));
                }
                // auxiliary word 5: one iterator in 32 continues with 256..=320 (or 4097..=4297) further pixels, a run of
                // consecutive cells in row-major order from a random start (more than 255 items per call)
                let long = d.aux_u(5, 0, 63);
                if long >= 62 {
                    // 63: more pixels than the display has cells (the run wraps around, so cells repeat)
                    let start = d.u(0, 4095 - 330);
                    let n = if long == 63 { 4097 + d.u(0, 200) } else { 256 + d.u(0, 64) };
                    for k in 0..n {
                        let cell = (start + k) % 4096;
                        let p = Point::new((cell % 64) as i32, (cell / 64) as i32);
                        // (colour by a hash of k, not k % len: a sequence displaced by a multiple of the palette length differs)
                        v.push((p, palette[((k.wrapping_mul(2_654_435_761) >> 16) as usize) % palette.len()]));
                    }
                    used.push(Point::new((start % 64) as i32, (start / 64) as i32));
                }
                Op::Iter(v)
            }
            _ => {
                let p = Point::new(d.i(0, 63), d.i(0, 63));
                let p = if !used.is_empty() && d.bool() { let q = used[d.idx(used.len())]; if inside(q) { q } else { p } } else { p };
                used.push(p);
                let c = if d.bool() { Some(d.pick(palette)) } else { None };
                // auxiliary word 7: in half of the histories set_pixel becomes set_pixels with 1..=3 in-range points
                if d.aux_u(7, 0, 1) == 1 {
                    let mut pts = vec![p];
                    for _ in 0..d.u(0, 2) {
                        pts.push(Point::new(d.i(0, 63), d.i(0, 63)));
                    }
                    used.extend(pts.iter().copied());
                    Op::SetPixels(pts, c)
                } else {
                    Op::Set(p, c)
                }
            }
        };
        ops.push(op);
    }
    cx.describe(|| format!("MockDisplay<{}> allow_overdraw={} allow_out_of_bounds_drawing={} ops {:?}", name, allow_overdraw, allow_oob, ops));
    cx.class(match (allow_overdraw, allow_oob) {
        (false, false) => "strict",
        (true, false) => "overdraw_allowed",
        (false, true) => "out_of_bounds_allowed",
        (true, true) => "both_allowed",
    });

    let mut display = MockDisplay::<C>::new();
    display.set_allow_overdraw(allow_overdraw);
    display.set_allow_out_of_bounds_drawing(allow_oob);
    let mut model: BTreeMap<(i32, i32), C> = BTreeMap::new();
    let (mut saw_repeat, mut saw_oob) = (false, false);

    for (k, op) in ops.iter().enumerate() {
        match op {
            Op::Set(p, c) => {
                display.set_pixel(*p, *c);
                match c {
                    Some(c) => {
                        model.insert((p.x, p.y), *c);
                    }
                    None => {
                        model.remove(&(p.x, p.y));
                    }
                }
            }
            Op::SetPixels(pts, c) => {
                display.set_pixels(pts.iter().copied(), *c);
                for p in pts {
                    match c {
                        Some(c) => {
                            model.insert((p.x, p.y), *c);
                        }
                        None => {
                            model.remove(&(p.x, p.y));
                        }
                    }
                }
            }
            _ => {
                // the documented meaning of every drawing operation: a sequence of pixels
                let pixels: Vec<(Point, C)> = match op {
                    Op::Pixel(p, c) | Op::DrawPixel(p, c) => vec![(*p, *c)],
                    Op::Iter(v) => v.clone(),
                    Op::FillSolid(a, c) | Op::StyledRect(a, c) => a.points().map(|p| (p, *c)).collect(),
                    Op::FillContiguous(a, cs) => a.points().zip(cs.iter().copied()).collect(),
                    Op::Clear(c) => Rectangle::new(Point::zero(), embedded_graphics::geometry::Size::new(64, 64)).points().map(|p| (p, *c)).collect(),
                    Op::Set(..) | Op::SetPixels(..) => unreachable!(),
                };
                // what the documentation says must happen
                let mut trial = model.clone();
                let mut expect_panic: Option<&'static str> = None;
                for (p, c) in &pixels {
                    if !inside(*p) {
                        saw_oob = true;
                        if !allow_oob {
                            expect_panic = Some("outside the display area");
                            break;
                        }
                        continue;
                    }
                    if trial.contains_key(&(p.x, p.y)) {
                        saw_repeat = true;
                        if !allow_overdraw {
                            expect_panic = Some("twice");
                            break;
                        }
                    }
                    trial.insert((p.x, p.y), *c);
                }
                let mut clone = display.clone();
                let result = catch(|| match op {
                    Op::Pixel(p, c) => Pixel(*p, *c).draw(&mut clone).unwrap(),
                    Op::DrawPixel(p, c) => clone.draw_pixel(*p, *c),
                    Op::Iter(v) => clone.draw_iter(crate::gen::stream_route(v, (v.len() as u32).wrapping_add(v.first().map_or(0, |f| f.0.x as u32))).map(|(p, c)| Pixel(p, c))).unwrap(),
                    Op::FillSolid(a, c) => clone.fill_solid(a, *c).unwrap(),
                    // (the colour stream has one of the size_hint shapes of `gen::stream_route`, chosen by the operation's content)
                    Op::FillContiguous(a, cs) => clone.fill_contiguous(a, crate::gen::stream_route(cs, (cs.len() as u32).wrapping_add(a.size.width.wrapping_mul(3)).wrapping_add(a.top_left.y as u32))).unwrap(),
                    Op::Clear(c) => clone.clear(*c).unwrap(),
                    Op::StyledRect(a, c) => {
                        use embedded_graphics::primitives::{Primitive, PrimitiveStyle};
                        a.into_styled(PrimitiveStyle::with_fill(*c)).draw(&mut clone).unwrap()
                    }
                    Op::Set(..) | Op::SetPixels(..) => unreachable!(),
                });
                match (expect_panic, result) {
                    (None, Ok(())) => {
                        display = clone;
                        model = trial;
                    }
                    (_, Err(p)) if p.in_harness() => return Err(panic_fail(p)),
                    (None, Err(p)) => {
                        return fail("panic:unexpected", format!("operation {} ({:?}) panicked ({}) although no pixel is out of range or repeated while the check is on", k, op, p.msg));
                    }
                    (Some(why), Ok(())) => {
                        return fail("panic:missing", format!("operation {} ({:?}) must panic ({}) but returned normally", k, op, why));
                    }
                    (Some(why), Err(p)) => {
                        ensure!(p.msg.contains(why), "panic:wrong_reason", "operation {} ({:?}) panicked with {:?}, expected a message about '{}'", k, op, p.msg, why);
                        // the history continues on the untouched display
                    }
                }
            }
        }
        // read-back on all cells, affected area
        for y in 0..64 {
            for x in 0..64 {
                let got = display.get_pixel(Point::new(x, y));
                let exp = model.get(&(x, y)).copied();
                ensure!(got == exp, "get_pixel", "after operation {}: get_pixel(({}, {})) = {:?}, model {:?}", k, x, y, got, exp);
            }
        }
        let area = display.affected_area();
        let exp_area = if model.is_empty() {
            Rectangle::zero()
        } else {
            let (x0, x1) = (model.keys().map(|k| k.0).min().unwrap(), model.keys().map(|k| k.0).max().unwrap());
            let (y0, y1) = (model.keys().map(|k| k.1).min().unwrap(), model.keys().map(|k| k.1).max().unwrap());
            Rectangle::with_corners(Point::new(x0, y0), Point::new(x1, y1))
        };
        ensure!(area == exp_area, "affected_area", "after operation {}: affected_area() = {:?}, tight box of the touched cells {:?}", k, area, exp_area);
    }

    // derived displays: swap_xy mirrors, map applies the function cell by cell, from_points sets exactly the points
    // (on a third of the histories: three more passes over all 4096 cells)
    let derived = ops.len() % 3 == 0;
    let swapped = display.swap_xy();
    let mapped = display.map(|c| if c == palette[0] { palette[palette.len() - 1] } else { palette[0] });
    for y in 0..if derived { 64 } else { 0 } {
        for x in 0..64 {
            let here = model.get(&(x, y)).copied();
            ensure!(swapped.get_pixel(Point::new(y, x)) == here, "swap_xy", "swap_xy(): cell ({}, {}) is {:?}, the original has {:?} at ({}, {})", y, x, swapped.get_pixel(Point::new(y, x)), here, x, y);
            let exp = here.map(|c| if c == palette[0] { palette[palette.len() - 1] } else { palette[0] });
            ensure!(mapped.get_pixel(Point::new(x, y)) == exp, "map", "map(f): cell ({}, {}) is {:?}, expected {:?}", x, y, mapped.get_pixel(Point::new(x, y)), exp);
        }
    }
    // drawing onto a derived display: a check that is enabled on the source display is enabled on the display
    // derived from it (whether a derived display starts from the defaults or inherits the source's settings is
    // not documented; both agree on this)
    for (name, der) in [("swap_xy", &swapped), ("map", &mapped), ("clone", &display.clone())] {
        if !allow_oob {
            let mut dd = der.clone();
            let r = catch(|| Pixel(Point::new(64 + (ops.len() % 3) as i32, 5), palette[0]).draw(&mut dd).unwrap());
            match r {
                Err(p) if p.in_harness() => return Err(panic_fail(p)),
                Err(_) => {}
                Ok(()) => return fail("panic:missing", format!("{}() of a display that checks for out-of-bounds drawing accepts a pixel at x >= 64 without a panic", name)),
            }
        }
        if !allow_overdraw {
            let set_cell = (0..64).flat_map(|y| (0..64).map(move |x| Point::new(x, y))).find(|p| der.get_pixel(*p).is_some());
            if let Some(q) = set_cell {
                let mut dd = der.clone();
                let r = catch(|| Pixel(q, palette[0]).draw(&mut dd).unwrap());
                match r {
                    Err(p) if p.in_harness() => return Err(panic_fail(p)),
                    Err(_) => {}
                    Ok(()) => return fail("panic:missing", format!("{}() of a display that checks for overdraw accepts a second pixel at {:?} without a panic", name, q)),
                }
            }
        }
    }
    let from_points = MockDisplay::<C>::from_points(model.keys().map(|k| Point::new(k.0, k.1)), palette[0]);
    for y in 0..if derived { 64 } else { 0 } {
        for x in 0..64 {
            let exp = model.get(&(x, y)).map(|_| palette[0]);
            ensure!(from_points.get_pixel(Point::new(x, y)) == exp, "from_points", "from_points: cell ({}, {}) is {:?}, expected {:?}", x, y, from_points.get_pixel(Point::new(x, y)), exp);
        }
    }

    // Debug <-> from_pattern round trip
    let text = format!("{:?}", display);
    let lines: Vec<&str> = text.lines().collect();
    ensure!(lines.first() == Some(&"MockDisplay[") && lines.last() == Some(&"]"), "debug:format", "unexpected Debug output frame: {:?} ... {:?}", lines.first(), lines.last());
    let rows: Vec<&str> = lines[1..lines.len() - 1].iter().copied().filter(|l| !(l.starts_with('(') && l.ends_with("empty rows skipped)"))).collect();
    for (y, row) in rows.iter().enumerate() {
        for (x, ch) in row.chars().enumerate() {
            let exp = model.get(&(x as i32, y as i32)).map(|c| C::color_to_char(*c)).unwrap_or(' ');
            ensure!(ch == exp, "debug:cell", "Debug output row {} column {} is {:?}, expected {:?}", y, x, ch, exp);
        }
    }
    ensure!(model.keys().all(|k| (k.1 as usize) < rows.len()), "debug:rows_missing", "Debug output has {} rows but the model has cells below", rows.len());
    let parsed = MockDisplay::<C>::from_pattern(&rows);
    ensure!(parsed == display, "from_pattern:roundtrip", "from_pattern(Debug output) differs from the display");
    // pattern -> display -> Debug rows
    let text2 = format!("{:?}", parsed);
    ensure!(text2 == text, "from_pattern:debug_roundtrip", "Debug(from_pattern(rows)) differs from the rows");

    // eq / diff against a display rebuilt from the model
    let mut other = MockDisplay::<C>::new();
    for (&(x, y), &c) in &model {
        other.set_pixel(Point::new(x, y), Some(c));
    }
    ensure!(other == display && display == other, "eq:equal_cells", "a display with the same 4096 cells compares unequal");
    let df = display.diff(&other);
    ensure!(df.affected_area().is_zero_sized() && df == MockDisplay::<Rgb888>::new(), "diff:not_empty", "diff of displays with equal cells is not empty: {:?}", df.affected_area());
    // the assertion helpers agree with ==: no panic for equal displays / the display's own pattern
    ensure!(catch(|| display.assert_eq(&other)).is_ok(), "assert_eq:panics_on_equal", "assert_eq panics although all 4096 cells agree");
    ensure!(catch(|| display.assert_pattern(&rows)).is_ok(), "assert_pattern:panics_on_own_pattern", "assert_pattern panics on the rows of the display's own Debug output");
    ensure!(catch(|| display.assert_eq_with_message(&other, |f| write!(f, "m"))).is_ok(), "assert_eq_with_message:panics_on_equal", "assert_eq_with_message panics although all 4096 cells agree");
    ensure!(catch(|| other.assert_pattern_with_message(&rows, |f| write!(f, "m"))).is_ok(), "assert_pattern_with_message:panics_on_own_pattern", "assert_pattern_with_message panics on the rows of an equal display's Debug output");
    // a clone is equal; a default display equals a new one and has no cell set
    ensure!(display.clone() == display, "eq:clone", "a clone compares unequal");
    ensure!(MockDisplay::<C>::default() == MockDisplay::<C>::new() && (MockDisplay::<C>::default() == display) == model.is_empty(), "eq:default", "MockDisplay::default() is not the empty display");
    // change one cell
    let q = Point::new(d.i(0, 63), d.i(0, 63));
    let old = model.get(&(q.x, q.y)).copied();
    let new = match old {
        None => Some(palette[0]),
        Some(c) => {
            if d.bool() {
                None
            } else {
                Some(*palette.iter().find(|p| **p != c).unwrap())
            }
        }
    };
    other.set_pixel(q, new);
    ensure!(other != display, "eq:different_cells", "displays differing in cell {:?} ({:?} vs {:?}) compare equal", q, old, new);
    ensure!(catch(|| display.assert_eq(&other)).is_err(), "assert_eq:silent_on_difference", "assert_eq does not panic although cell {:?} differs ({:?} vs {:?})", q, old, new);
    ensure!(catch(|| other.assert_eq(&display)).is_err(), "assert_eq:silent_on_difference", "assert_eq (arguments swapped) does not panic although cell {:?} differs ({:?} vs {:?})", q, old, new);
    ensure!(catch(|| other.assert_pattern(&rows)).is_err(), "assert_pattern:silent_on_difference", "assert_pattern does not panic although cell {:?} differs from the pattern ({:?} vs {:?})", q, new, old);
    ensure!(catch(|| display.assert_eq_with_message(&other, |f| write!(f, "m"))).is_err(), "assert_eq_with_message:silent_on_difference", "assert_eq_with_message does not panic although cell {:?} differs", q);
    ensure!(catch(|| other.assert_pattern_with_message(&rows, |f| write!(f, "m"))).is_err(), "assert_pattern_with_message:silent_on_difference", "assert_pattern_with_message does not panic although cell {:?} differs from the pattern", q);
    let df = display.diff(&other);
    for y in 0..64 {
        for x in 0..64 {
            let marked = df.get_pixel(Point::new(x, y)).is_some();
            ensure!(marked == (Point::new(x, y) == q), "diff:cells", "diff marks cell ({}, {}) = {}, the displays differ exactly in {:?}", x, y, marked, q);
        }
    }
    cx.nontrivial(saw_repeat && saw_oob);
    Ok(())
}


// ---- patterns ---------------------------------------------------------------------------------

/// A user-defined colour type whose `ColorMapping` uses characters of 1, 2, 3 and 4 UTF-8 bytes (block
/// characters are what people actually use for such mappings).
#[derive(Copy, Clone, Eq, PartialEq, Debug)]
pub struct Blocks(pub u8);
const BLOCK_CHARS: [char; 5] = ['x', '\u{e9}', '\u{2591}', '\u{2588}', '\u{1F600}'];
impl PixelColor for Blocks {
    type Raw = embedded_graphics::pixelcolor::raw::RawU8;
}
impl From<embedded_graphics::pixelcolor::raw::RawU8> for Blocks {
    fn from(r: embedded_graphics::pixelcolor::raw::RawU8) -> Self {
        use embedded_graphics::pixelcolor::raw::RawData;
        Blocks(r.into_inner() % 5)
    }
}
impl From<Blocks> for embedded_graphics::pixelcolor::raw::RawU8 {
    fn from(c: Blocks) -> Self {
        embedded_graphics::pixelcolor::raw::RawU8::new(c.0)
    }
}
impl From<Blocks> for Rgb888 {
    fn from(c: Blocks) -> Self {
        Rgb888::new(c.0 * 50, 255 - c.0 * 50, c.0 * 20)
    }
}
impl ColorMapping for Blocks {
    fn char_to_color(c: char) -> Self {
        match BLOCK_CHARS.iter().position(|k| *k == c) {
            Some(i) => Blocks(i as u8),
            None => panic!("Invalid char in pattern: '{}'", c),
        }
    }
    fn color_to_char(color: Self) -> char {
        BLOCK_CHARS[color.0 as usize % 5]
    }
}

fn patterns(d: &mut Dec, cx: &mut Cx) -> Res {
    use embedded_graphics::pixelcolor::{Bgr565, Rgb332};
    let rgb = |c: char| -> (u8, u8, u8) {
        match c {
            'K' => (0, 0, 0),
            'R' => (1, 0, 0),
            'G' => (0, 1, 0),
            'B' => (0, 0, 1),
            'Y' => (1, 1, 0),
            'M' => (1, 0, 1),
            'C' => (0, 1, 1),
            _ => (1, 1, 1),
        }
    };
    const HEX: &str = "0123456789ABCDEF";
    const RGBC: &str = "KRGBYMCW";
    // auxiliary word 5: one case in eight uses the user-defined colour type with a multi-byte character set
    if d.aux_u(5, 0, 7) == 7 {
        let set: String = BLOCK_CHARS.iter().collect();
        return pattern_case::<Blocks>(d, cx, &set, "Blocks (user-defined, multi-byte characters)", &|c| Blocks(BLOCK_CHARS.iter().position(|k| *k == c).unwrap() as u8));
    }
    match d.u(0, 6) {
        0 => pattern_case::<BinaryColor>(d, cx, ".#", "BinaryColor", &|c| if c == '#' { BinaryColor::On } else { BinaryColor::Off }),
        1 => pattern_case::<Gray2>(d, cx, "0123", "Gray2", &|c| Gray2::new(c.to_digit(4).unwrap() as u8)),
        2 => pattern_case::<Gray4>(d, cx, HEX, "Gray4", &|c| Gray4::new(c.to_digit(16).unwrap() as u8)),
        3 => pattern_case::<Gray8>(d, cx, HEX, "Gray8", &|c| Gray8::new(c.to_digit(16).unwrap() as u8 * 0x11)),
        4 => pattern_case::<Rgb565>(d, cx, RGBC, "Rgb565", &|c| {
            let (r, g, b) = rgb(c);
            Rgb565::new(r * 31, g * 63, b * 31)
        }),
        5 => pattern_case::<Rgb332>(d, cx, RGBC, "Rgb332", &|c| {
            let (r, g, b) = rgb(c);
            Rgb332::new(r * 7, g * 7, b * 3)
        }),
        _ => pattern_case::<Bgr565>(d, cx, RGBC, "Bgr565", &|c| {
            let (r, g, b) = rgb(c);
            Bgr565::new(r * 31, g * 63, b * 31)
        }),
    }
}

fn pattern_case<C>(d: &mut Dec, cx: &mut Cx, charset: &str, name: &str, to_color: &dyn Fn(char) -> C) -> Res
where
    C: PixelColor + ColorMapping + core::fmt::Debug,
{
    let chars: Vec<char> = charset.chars().collect();
    let (w, h) = match d.u(0, 3) {
        0 => (d.u(0, 5) as usize, d.u(0, 5) as usize),
        1 => (64, d.u(1, 64) as usize),
        2 => (d.u(1, 64) as usize, 64),
        _ => (d.u(0, 64) as usize, d.u(0, 64) as usize),
    };
    // a few generated rows, repeated cyclically with a rotation, keep the tape short
    let nbase = d.u(1, 3) as usize;
    let mut base: Vec<Vec<char>> = vec![];
    for _ in 0..nbase {
        let mut row = vec![];
        let mut x = d.raw() | 1;
        let blank_rate = d.u(0, 3);
        for _ in 0..w {
            x ^= x << 13;
            x ^= x >> 17;
            x ^= x << 5;
            row.push(if x % 4 < blank_rate { ' ' } else { chars[(x >> 8) as usize % chars.len()] });
        }
        base.push(row);
    }
    let rows: Vec<String> = (0..h).map(|y| { let r = &base[y % nbase]; (0..w).map(|x| r[(x + y / nbase) % w.max(1)]).collect() }).collect();
    let refs: Vec<&str> = rows.iter().map(|s| s.as_str()).collect();
    cx.describe(|| format!("MockDisplay<{}>::from_pattern({}x{}): {:?}", name, w, h, &rows[..rows.len().min(6)]));
    cx.class(if w == 64 || h == 64 { "full_extent" } else { "partial" });
    let display = MockDisplay::<C>::from_pattern(&refs);
    for y in 0..64usize {
        for x in 0..64usize {
            let exp = if y < h && x < w {
                let c = rows[y].chars().nth(x).unwrap();
                if c == ' ' { None } else { Some(to_color(c)) }
            } else {
                None
            };
            let got = display.get_pixel(Point::new(x as i32, y as i32));
            ensure!(got == exp, "from_pattern:cell", "cell ({}, {}) is {:?}, the pattern says {:?}", x, y, got, exp);
        }
    }
    // Debug reproduces the pattern
    let text = format!("{:?}", display);
    let lines: Vec<&str> = text.lines().collect();
    ensure!(lines.first() == Some(&"MockDisplay[") && lines.last() == Some(&"]"), "debug:format", "unexpected Debug output frame");
    let out: Vec<&str> = lines[1..lines.len() - 1].iter().copied().filter(|l| !(l.starts_with('(') && l.ends_with("empty rows skipped)"))).collect();
    let last_nonblank = rows.iter().rposition(|r| r.chars().any(|c| c != ' ')).map(|i| i + 1).unwrap_or(0);
    ensure!(out.len() == last_nonblank, "debug:row_count", "Debug prints {} rows, the pattern has {} rows up to the last non-blank one", out.len(), last_nonblank);
    for (y, row) in out.iter().enumerate() {
        let exp: String = rows[y].chars().chain(std::iter::repeat(' ')).take(64).collect();
        ensure!(*row == exp, "debug:row", "Debug row {} is {:?}, expected {:?}", y, row, exp);
    }
    let again = MockDisplay::<C>::from_pattern(&out);
    ensure!(again == display, "from_pattern:roundtrip", "from_pattern(Debug output) differs from the display");
    let distinct: std::collections::BTreeSet<char> = rows.iter().flat_map(|r| r.chars()).collect();
    cx.nontrivial(h >= 2 && distinct.len() >= 3 && distinct.contains(&' '));
    Ok(())
}
