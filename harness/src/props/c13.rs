//! C13 — colour conversions scale to the nearest value and preserve the extremes.

use crate::engine::*;
use embedded_graphics::pixelcolor::{
    Bgr555, Bgr565, Bgr666, Bgr888, BinaryColor, Gray2, Gray4, Gray8, GrayColor, Rgb332, Rgb444, Rgb555, Rgb565, Rgb666, Rgb888, RgbColor,
};

pub fn prop() -> Prop {
    Prop {
        id: "C13",
        level: "exploration",
        rule: "complete enumeration over every ordered pair of built-in colour types with a From impl (90 RGB->RGB, 6 gray->gray, 30 gray->RGB, 30 RGB->gray, 13 from BinaryColor, 13 to BinaryColor = 182) x every source value: the full colour cube for sources up to 18 bits; for the two 24-bit sources the full 2^24 cube as well, in both tiers. Oracle (exact integer arithmetic): per channel |out*FROM_MAX - in*TO_MAX|*2 <= FROM_MAX (nearest representable value; ties cannot occur because every MAX is odd), black->black, white->white, monotone per channel, widen-then-narrow identity, RGB<->BGR of equal depth keeps all channels, gray->RGB equal scaled channels and back identity when every channel has at least the gray's bits, gray->binary On iff luma >= ceil(MAX/2), RGB->gray monotone in each channel with extremes preserved, RGB->binary == (Gray8::from(rgb).luma() >= 128). Non-trivial: the source colour is neither black nor white.",
        assumptions: vec![
            "RGB->gray: only what the statement fixes is asserted (monotonicity, extremes, reproduction of gray inputs); the luma weights themselves are not",
        ],
        subs: vec![
            Sub::enumerate("rgb_to_rgb", rgb_to_rgb),
            Sub::enumerate("gray", gray),
            Sub::enumerate("rgb_to_gray_binary", rgb_to_gray_binary),
            Sub::enumerate("web_colors", web_colors_check),
        ],
    }
}

trait Mk: RgbColor + core::fmt::Debug + Send + Sync {
    fn mk(r: u8, g: u8, b: u8) -> Self;
    const N: &'static str;
}
macro_rules! mk {
    ($($t:ident),+) => { $(impl Mk for $t { fn mk(r: u8, g: u8, b: u8) -> Self { $t::new(r, g, b) } const N: &'static str = stringify!($t); })+ };
}
mk!(Rgb332, Rgb444, Rgb555, Bgr555, Rgb565, Bgr565, Rgb666, Bgr666, Rgb888, Bgr888);

trait Gr: GrayColor + core::fmt::Debug + Send + Sync {
    fn mkg(l: u8) -> Self;
    const N: &'static str;
}
macro_rules! gr {
    ($($t:ident),+) => { $(impl Gr for $t { fn mkg(l: u8) -> Self { $t::new(l) } const N: &'static str = stringify!($t); })+ };
}
gr!(Gray2, Gray4, Gray8);

/// Source cube of an RGB type: full, or for 24-bit types in the quick tier a per-channel grid.
fn cube<F: Mk>(full: bool) -> Vec<(u8, u8, u8)> {
    let (mr, mg, mb) = (F::MAX_R, F::MAX_G, F::MAX_B);
    let bits = (mr as u32 + 1).trailing_zeros() + (mg as u32 + 1).trailing_zeros() + (mb as u32 + 1).trailing_zeros();
    let mut v = vec![];
    if bits <= 18 || full {
        for r in 0..=mr {
            for g in 0..=mg {
                for b in 0..=mb {
                    v.push((r, g, b));
                }
            }
        }
    } else {
        let grid = |m: u8| -> Vec<u8> { vec![0, 1, m / 4, m / 2, m / 2 + 1, m - m / 4, m - 1, m, 85] };
        for a in 0..=255u8 {
            for &x in &grid(255) {
                for &y in &grid(255) {
                    v.push((a, x, y));
                    v.push((x, a, y));
                    v.push((x, y, a));
                }
            }
        }
        v.sort();
        v.dedup();
    }
    v
}

fn nearest(inp: u8, out: u8, from_max: u8, to_max: u8) -> bool {
    let d = (out as i64 * from_max as i64 - inp as i64 * to_max as i64).abs() * 2;
    d <= from_max as i64 && out <= to_max
}

fn pair_rgb<F: Mk, T: Mk + From<F>>(ex: &Ex, base: u64, full: bool)
where
    F: From<T>,
{
    let src = cube::<F>(full);
    let chunk = 8192usize;
    let nchunks = (src.len() + chunk - 1) / chunk;
    let src = &src;
    ex.par(nchunks as u64, |ci| {
        let lo = ci as usize * chunk;
        let hi = (lo + chunk).min(src.len());
        let mut nt = 0;
        for (k, &(r, g, b)) in src[lo..hi].iter().enumerate() {
            let c = F::mk(r, g, b);
            let t = T::from(c);
            let idx = base + (lo + k) as u64;
            let case = || format!("{}::new({}, {}, {}) -> {}", F::N, r, g, b, T::N);
            for (name, i, o, fm, tm) in [("r", r, t.r(), F::MAX_R, T::MAX_R), ("g", g, t.g(), F::MAX_G, T::MAX_G), ("b", b, t.b(), F::MAX_B, T::MAX_B)] {
                if !nearest(i, o, fm, tm) {
                    ex.fail(idx, "rgb_to_rgb:not_nearest", format!("channel {}: {} of {} -> {} of {} is not the nearest value ({:?} -> {:?})", name, i, fm, o, tm, c, t), case());
                }
                // extremes
                if (i == 0 && o != 0) || (i == fm && o != tm) {
                    ex.fail(idx, "rgb_to_rgb:extreme", format!("channel {}: {} of {} -> {} of {}", name, i, fm, o, tm), case());
                }
                // widen then narrow is the identity; equal depth keeps the channel
                if tm >= fm {
                    let back = F::from(t);
                    let bo = match name {
                        "r" => back.r(),
                        "g" => back.g(),
                        _ => back.b(),
                    };
                    if bo != i {
                        ex.fail(idx, "rgb_to_rgb:widen_narrow", format!("channel {}: {} -> {} -> {} ({:?} -> {:?} -> {:?})", name, i, o, bo, c, t, back), case());
                    }
                    if tm == fm && o != i {
                        ex.fail(idx, "rgb_to_rgb:equal_depth_changes", format!("channel {}: {} -> {} although both have {} levels", name, i, o, fm as u32 + 1), case());
                    }
                }
            }
            // monotone in each channel (compare with the predecessor along each axis)
            if r > 0 && T::from(F::mk(r - 1, g, b)).r() > t.r() {
                ex.fail(idx, "rgb_to_rgb:not_monotone", format!("red decreases from r = {} to {}", r - 1, r), case());
            }
            if g > 0 && T::from(F::mk(r, g - 1, b)).g() > t.g() {
                ex.fail(idx, "rgb_to_rgb:not_monotone", format!("green decreases from g = {} to {}", g - 1, g), case());
            }
            if b > 0 && T::from(F::mk(r, g, b - 1)).b() > t.b() {
                ex.fail(idx, "rgb_to_rgb:not_monotone", format!("blue decreases from b = {} to {}", b - 1, b), case());
            }
            let white = r == F::MAX_R && g == F::MAX_G && b == F::MAX_B;
            if !(white || (r == 0 && g == 0 && b == 0)) {
                nt += 1;
            }
        }
        ex.add((hi - lo) as u64, nt);
    });
    ex.sample(|| format!("{} -> {}: {} source colours", F::N, T::N, src.len()));
}

fn rgb_to_rgb(ex: &Ex) {
    // (the full 2^24 cube of the 24-bit sources costs a few seconds on 16 cores: both tiers are complete)
    let full = true;
    let mut base = 0u64;
    macro_rules! from {
        ($f:ident => $($t:ident),+) => { $( pair_rgb::<$f, $t>(ex, base, full); base += 1 << 25; )+ };
    }
    from!(Rgb332 => Rgb444, Rgb555, Bgr555, Rgb565, Bgr565, Rgb666, Bgr666, Rgb888, Bgr888);
    from!(Rgb444 => Rgb332, Rgb555, Bgr555, Rgb565, Bgr565, Rgb666, Bgr666, Rgb888, Bgr888);
    from!(Rgb555 => Rgb332, Rgb444, Bgr555, Rgb565, Bgr565, Rgb666, Bgr666, Rgb888, Bgr888);
    from!(Bgr555 => Rgb332, Rgb444, Rgb555, Rgb565, Bgr565, Rgb666, Bgr666, Rgb888, Bgr888);
    from!(Rgb565 => Rgb332, Rgb444, Rgb555, Bgr555, Bgr565, Rgb666, Bgr666, Rgb888, Bgr888);
    from!(Bgr565 => Rgb332, Rgb444, Rgb555, Bgr555, Rgb565, Rgb666, Bgr666, Rgb888, Bgr888);
    from!(Rgb666 => Rgb332, Rgb444, Rgb555, Bgr555, Rgb565, Bgr666, Bgr565, Bgr888, Rgb888);
    from!(Bgr666 => Rgb332, Rgb444, Rgb555, Bgr555, Rgb565, Rgb666, Bgr565, Bgr888, Rgb888);
    from!(Rgb888 => Rgb332, Rgb444, Rgb555, Bgr555, Rgb565, Rgb666, Bgr666, Bgr565, Bgr888);
    from!(Bgr888 => Rgb332, Rgb444, Rgb555, Bgr555, Rgb565, Rgb666, Bgr666, Bgr565, Rgb888);
    let _ = base;
}

fn gray_to_gray<F: Gr, T: Gr + From<F>>(ex: &Ex, base: u64) {
    let (fm, tm) = (F::WHITE.luma(), T::WHITE.luma());
    let mut prev = 0u8;
    for l in 0..=fm {
        let t = T::from(F::mkg(l));
        let case = || format!("{}({}) -> {}", F::N, l, T::N);
        if !nearest(l, t.luma(), fm, tm) || (l == 0 && t.luma() != 0) || (l == fm && t.luma() != tm) || t.luma() < prev {
            ex.fail(base + l as u64, "gray_to_gray:not_nearest", format!("luma {} of {} -> {} of {}", l, fm, t.luma(), tm), case());
        }
        prev = t.luma();
    }
    ex.add(fm as u64 + 1, fm as u64 - 1);
}

fn gray_to_rgb<G: Gr + From<T>, T: Mk + From<G>>(ex: &Ex, base: u64) {
    let gm = G::WHITE.luma();
    for l in 0..=gm {
        let t = T::from(G::mkg(l));
        let case = || format!("{}({}) -> {}", G::N, l, T::N);
        for (o, tm) in [(t.r(), T::MAX_R), (t.g(), T::MAX_G), (t.b(), T::MAX_B)] {
            if !nearest(l, o, gm, tm) {
                ex.fail(base + l as u64, "gray_to_rgb:not_equally_scaled", format!("luma {} of {} -> channel {} of {} ({:?})", l, gm, o, tm, t), case());
            }
        }
        if T::MAX_R >= gm && T::MAX_G >= gm && T::MAX_B >= gm {
            let back = G::from(t);
            if back.luma() != l {
                ex.fail(base + l as u64, "gray_to_rgb:back_not_identity", format!("luma {} -> {:?} -> luma {}", l, t, back.luma()), case());
            }
        }
    }
    ex.add(gm as u64 + 1, gm as u64 - 1);
}

fn gray(ex: &Ex) {
    let mut base = 0u64;
    macro_rules! gg { ($f:ident => $($t:ident),+) => { $( gray_to_gray::<$f, $t>(ex, base); base += 1000; )+ }; }
    gg!(Gray2 => Gray4, Gray8);
    gg!(Gray4 => Gray2, Gray8);
    gg!(Gray8 => Gray2, Gray4);
    macro_rules! gr { ($g:ident => $($t:ident),+) => { $( gray_to_rgb::<$g, $t>(ex, base); base += 1000; )+ }; }
    gr!(Gray2 => Rgb332, Rgb444, Rgb555, Bgr555, Rgb565, Bgr565, Rgb666, Bgr666, Rgb888, Bgr888);
    gr!(Gray4 => Rgb332, Rgb444, Rgb555, Bgr555, Rgb565, Bgr565, Rgb666, Bgr666, Rgb888, Bgr888);
    gr!(Gray8 => Rgb332, Rgb444, Rgb555, Bgr555, Rgb565, Bgr565, Rgb666, Bgr666, Rgb888, Bgr888);
    // gray -> binary, binary -> everything
    macro_rules! gb {
        ($($g:ident),+) => { $(
            let m = $g::WHITE.luma();
            for l in 0..=m {
                let on = BinaryColor::from($g::new(l)).is_on();
                let exp = l as u32 * 2 >= m as u32 + 1; // luma >= ceil(MAX / 2)
                if on != exp {
                    ex.fail(base + l as u64, "gray_to_binary", format!("{}({}) -> {:?}, the upper half starts at {}", stringify!($g), l, on, (m as u32 + 1) / 2), format!("{}({})", stringify!($g), l));
                }
            }
            ex.add(m as u64 + 1, m as u64 - 1);
            base += 1000;
            if $g::from(BinaryColor::Off) != $g::BLACK || $g::from(BinaryColor::On) != $g::WHITE {
                ex.fail(base, "binary_to_gray", format!("BinaryColor -> {}", stringify!($g)), "Off/On".to_string());
            }
            ex.add(2, 0);
        )+ };
    }
    gb!(Gray2, Gray4, Gray8);
    macro_rules! br {
        ($($t:ident),+) => { $(
            if $t::from(BinaryColor::Off) != $t::BLACK || $t::from(BinaryColor::On) != $t::WHITE {
                ex.fail(base, "binary_to_rgb", format!("BinaryColor -> {}", stringify!($t)), "Off/On".to_string());
            }
            base += 1;
            ex.add(2, 0);
        )+ };
    }
    br!(Rgb332, Rgb444, Rgb555, Bgr555, Rgb565, Bgr565, Rgb666, Bgr666, Rgb888, Bgr888);
    ex.sample(|| "every luma of Gray2/4/8 into every gray, RGB and binary type; BinaryColor into all 13 types".to_string());
    let _ = base;
}

fn rgb_gray<F: Mk>(ex: &Ex, base: u64, full: bool)
where
    Gray2: From<F>,
    Gray4: From<F>,
    Gray8: From<F>,
    BinaryColor: From<F>,
{
    let src = cube::<F>(full);
    let chunk = 8192usize;
    let nchunks = (src.len() + chunk - 1) / chunk;
    let src = &src;
    let g8 = |r: u8, g: u8, b: u8| Gray8::from(F::mk(r, g, b)).luma();
    ex.par(nchunks as u64, |ci| {
        let lo = ci as usize * chunk;
        let hi = (lo + chunk).min(src.len());
        let mut nt = 0;
        for (k, &(r, g, b)) in src[lo..hi].iter().enumerate() {
            let c = F::mk(r, g, b);
            let idx = base + (lo + k) as u64;
            let case = || format!("{}::new({}, {}, {}) -> gray/binary", F::N, r, g, b);
            let y8 = Gray8::from(c).luma();
            let black = r == 0 && g == 0 && b == 0;
            let white = r == F::MAX_R && g == F::MAX_G && b == F::MAX_B;
            if (black && y8 != 0) || (white && y8 != 255) {
                ex.fail(idx, "rgb_to_gray:extreme", format!("{:?} -> Gray8({})", c, y8), case());
            }
            // monotone in each channel
            if (r > 0 && g8(r - 1, g, b) > y8) || (g > 0 && g8(r, g - 1, b) > y8) || (b > 0 && g8(r, g, b - 1) > y8) {
                ex.fail(idx, "rgb_to_gray:not_monotone", format!("{:?} -> Gray8({}) is darker than a predecessor along a channel", c, y8), case());
            }
            // the narrower gray types: extremes and monotonicity as well
            let (y4, y2) = (Gray4::from(c).luma(), Gray2::from(c).luma());
            if (black && (y4 != 0 || y2 != 0)) || (white && (y4 != 15 || y2 != 3)) {
                ex.fail(idx, "rgb_to_gray:extreme", format!("{:?} -> Gray4({}) / Gray2({})", c, y4, y2), case());
            }
            let g4 = |r: u8, g: u8, b: u8| Gray4::from(F::mk(r, g, b)).luma();
            let g2 = |r: u8, g: u8, b: u8| Gray2::from(F::mk(r, g, b)).luma();
            if (r > 0 && (g4(r - 1, g, b) > y4 || g2(r - 1, g, b) > y2)) || (g > 0 && (g4(r, g - 1, b) > y4 || g2(r, g - 1, b) > y2)) || (b > 0 && (g4(r, g, b - 1) > y4 || g2(r, g, b - 1) > y2)) {
                ex.fail(idx, "rgb_to_gray:not_monotone", format!("{:?} -> Gray4({}) / Gray2({}) is darker than a predecessor along a channel", c, y4, y2), case());
            }
            // binary
            let on = BinaryColor::from(c).is_on();
            if on != (y8 >= 128) {
                ex.fail(idx, "rgb_to_binary", format!("{:?} -> {:?} but Gray8 luma is {}", c, on, y8), case());
            }
            if !(black || white) {
                nt += 1;
            }
        }
        ex.add((hi - lo) as u64, nt);
    });
    ex.sample(|| format!("{} -> Gray2/Gray4/Gray8/BinaryColor: {} source colours", F::N, src.len()));
}

fn rgb_to_gray_binary(ex: &Ex) {
    // (the full 2^24 cube of the 24-bit sources costs a few seconds on 16 cores: both tiers are complete)
    let full = true;
    let mut base = 0u64;
    macro_rules! all { ($($f:ident),+) => { $( rgb_gray::<$f>(ex, base, full); base += 1 << 25; )+ }; }
    all!(Rgb332, Rgb444, Rgb555, Bgr555, Rgb565, Bgr565, Rgb666, Bgr666, Rgb888, Bgr888);
    let _ = base;
}


include!(concat!(env!("OUT_DIR"), "/web_colors.rs"));

/// The named colours (`WebColors::CSS_*`, 8 RGB / BGR types) are the documented 8-bit values scaled with the
/// same conversion: each constant equals `T::from(Rgb888::new(r, g, b))` and is the nearest value per channel.
fn web_colors_check(ex: &Ex) {
    use embedded_graphics::pixelcolor::{Bgr555, Bgr565, Bgr666, Bgr888, Rgb555, Rgb565, Rgb666, Rgb888, RgbColor};
    ex.par(8, |i| {
        let (mut n, mut nt) = (0u64, 0u64);
        macro_rules! go {
            ($t:ty) => {{
                // the eight constants of RgbColor are the corners of the colour cube
                let (mr, mg, mb) = (<$t>::MAX_R, <$t>::MAX_G, <$t>::MAX_B);
                for (name, c, exp) in [
                    ("BLACK", <$t>::BLACK, (0, 0, 0)),
                    ("RED", <$t>::RED, (mr, 0, 0)),
                    ("GREEN", <$t>::GREEN, (0, mg, 0)),
                    ("BLUE", <$t>::BLUE, (0, 0, mb)),
                    ("YELLOW", <$t>::YELLOW, (mr, mg, 0)),
                    ("MAGENTA", <$t>::MAGENTA, (mr, 0, mb)),
                    ("CYAN", <$t>::CYAN, (0, mg, mb)),
                    ("WHITE", <$t>::WHITE, (mr, mg, mb)),
                ] {
                    n += 1;
                    if (c.r(), c.g(), c.b()) != exp {
                        ex.fail(i * 1000 + 900 + n, String::from("rgb_constant"), format!("{}::{} = {:?}, expected channels {:?}", stringify!($t), name, c, exp), String::from(name));
                    }
                }
                for (name, (r, g, b), c) in web_colors::<$t>() {
                    n += 1;
                    let conv = <$t>::from(Rgb888::new(r, g, b));
                    if c != conv {
                        ex.fail(i * 1000 + n, String::from("web_color:differs_from_conversion"), format!("{}::{} = {:?}, the conversion of Rgb888({}, {}, {}) is {:?}", stringify!($t), name, c, r, g, b, conv), String::from(name));
                        continue;
                    }
                    let near = |v8: u8, v: u8, max: u8| 2 * (v as i64 * 255 - v8 as i64 * max as i64).abs() <= 255;
                    if !(near(r, c.r(), <$t>::MAX_R) && near(g, c.g(), <$t>::MAX_G) && near(b, c.b(), <$t>::MAX_B)) {
                        ex.fail(i * 1000 + n, String::from("web_color:not_nearest"), format!("{}::{} = {:?} is not the nearest value to ({}, {}, {}) / 255 in every channel", stringify!($t), name, c, r, g, b), String::from(name));
                    }
                    nt += u64::from(![0u8, 255].contains(&r) || ![0u8, 255].contains(&g) || ![0u8, 255].contains(&b));
                }
            }};
        }
        match i {
            0 => go!(Rgb555),
            1 => go!(Rgb565),
            2 => go!(Rgb666),
            3 => go!(Rgb888),
            4 => go!(Bgr555),
            5 => go!(Bgr565),
            6 => go!(Bgr666),
            _ => go!(Bgr888),
        }
        ex.add(n, nt);
        ex.sample(|| format!("colour type {}: {} named colours", i, n));
    });
}
