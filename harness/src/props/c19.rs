//! C19 — triangles cover their interior; polylines are the union of their segments.

use crate::engine::*;
use crate::ensure;
use crate::exact::{dist2_point_segment, in_triangle, orient};
use crate::gen::{self, *};
use crate::targets::*;
use embedded_graphics::primitives::{PointsIter, Primitive};
use embedded_graphics::transform::Transform;
use embedded_graphics::Drawable;
use std::collections::BTreeSet;

pub fn prop() -> Prop {
    Prop {
        id: "C19",
        level: "exploration",
        rule: "triangles: complete enumeration of all vertex triples on a 5x5 grid (quick) / 7x7 grid (thorough) straddling the axes, including colinear and coincident vertices, plus proptest tapes with vertices to +-40; polylines: tapes with 0..=6 vertices, repeated vertices and reversals, with and without translate. Oracle: exact i64 orientation tests (every lattice point inside or on the boundary of the mathematical triangle is covered; every covered point is inside or within 1 px Euclidean distance of an edge segment), identical point sets for all 6 vertex orders, two triangles sharing an edge (fourth vertex on the other side) leave no lattice point of the union uncovered and both contain the Bresenham line of the shared edge (end points sorted by (y,x)); a 1-px outline (any alignment) equals the union of the three edge lines where each edge may be rasterised in either direction, is unchanged by adding a fill of another colour, and covers the same set when the fill has the stroke's colour; polyline points() as a sequence equals the concatenated segment lines with the first point of each following segment dropped, and the 1-px styled polyline equals the union. Non-trivial: triangle with area != 0 and no axis-parallel edge; polyline with >= 3 vertices and a repeated vertex or reversal.",
        assumptions: vec![
            "each outline edge may be rasterised in either direction (the statement does not fix one)",
            "Line::points() is the segment rasterisation (pinned by C17)",
        ],
        subs: vec![
            Sub::enumerate("triangles_grid", triangles_grid),
            Sub::tape("triangles_random", 32, 150_000, 7_500_000, triangles_random),
            Sub::tape("triangles_large", 32, 2_000, 100_000, triangles_large),
            Sub::tape("polylines", 64, 200_000, 10_000_000, polylines),
            Sub::tape("huge_outlines", 48, 240, 12_000, huge_outlines),
        ],
    }
}

type S = BTreeSet<(i32, i32)>;
fn set(i: impl Iterator<Item = Point>) -> S {
    i.map(|p| (p.y, p.x)).collect()
}
fn pt(k: (i32, i32)) -> Point {
    Point::new(k.1, k.0)
}

fn check_cover(a: Point, b: Point, c: Point, s: &S, what: &str) -> Res {
    let area = orient(a, b, c);
    let t = Triangle::new(a, b, c);
    let bb = t.bounding_box();
    if area != 0 {
        for p in bb.points() {
            if in_triangle(a, b, c, p) {
                ensure!(s.contains(&(p.y, p.x)), format!("triangle:{}_interior_missing", what), "{:?} lies inside the mathematical triangle but is not covered", p);
            }
        }
    }
    for &k in s {
        let p = pt(k);
        if !(area != 0 && in_triangle(a, b, c, p)) {
            let d2 = dist2_point_segment(a, b, p).min(dist2_point_segment(b, c, p)).min(dist2_point_segment(c, a, p));
            ensure!(d2 <= 1.0 + 1e-9, format!("triangle:{}_far_from_edge", what), "{:?} is covered but lies outside the triangle, {:.3} px from the nearest edge", p, d2.sqrt());
        }
    }
    Ok(())
}

fn check_triangle(a: Point, b: Point, c: Point, d: Option<Point>) -> Res {
    let t = Triangle::new(a, b, c);
    let s = set(t.points());
    check_cover(a, b, c, &s, "points")?;
    // the rendered filled triangle
    let mut tgt = NativeT::<Rgb888>::new();
    tgt.0.log = false;
    t.into_styled(PrimitiveStyle::with_fill(Rgb888::nth(1))).draw(&mut tgt).map_err(|e| Fail { sig: "triangle:draw_error".into(), detail: format!("{:?}", e) })?;
    let drawn: S = tgt.0.map.keys().map(|&(x, y)| (y, x)).collect();
    check_cover(a, b, c, &drawn, "filled")?;
    // a fill without stroke does not depend on the stroke alignment or on the winding (non-degenerate triangles;
    // the drawn fill of the other vertex orders, not only points())
    if orient(a, b, c) != 0 {
        for align in [StrokeAlignment::Inside, StrokeAlignment::Outside] {
            for (vo, perm) in [[a, b, c], [a, c, b], [c, b, a]].iter().enumerate() {
                // (a stroke of width 0 is no stroke, whatever its colour: none, the fill's colour, another colour)
                let sb = PrimitiveStyleBuilder::new().fill_color(Rgb888::nth(1)).stroke_alignment(align).stroke_width(0);
                let style = match (vo + (align == StrokeAlignment::Outside) as usize) % 3 {
                    0 => sb.build(),
                    1 => sb.stroke_color(Rgb888::nth(1)).build(),
                    _ => sb.stroke_color(Rgb888::nth(2)).build(),
                };
                let mut t2 = NativeT::<Rgb888>::new();
                t2.0.log = false;
                Triangle::new(perm[0], perm[1], perm[2]).into_styled(style).draw(&mut t2).map_err(|e| Fail { sig: "triangle:draw_error".into(), detail: format!("{:?}", e) })?;
                let d2: S = t2.0.map.keys().map(|&(x, y)| (y, x)).collect();
                ensure!(d2 == drawn, "triangle:fill_depends_on_alignment_or_winding", "fill without stroke, alignment {:?}, vertex order #{}: {} pixels, the plain fill has {}; differing {:?}", align, vo, d2.len(), drawn.len(), d2.symmetric_difference(&drawn).take(6).map(|k| pt(*k)).collect::<Vec<_>>());
            }
        }
    }
    // vertex order
    for perm in [[a, c, b], [b, a, c], [b, c, a], [c, a, b], [c, b, a]] {
        let s2 = set(Triangle::new(perm[0], perm[1], perm[2]).points());
        ensure!(s2 == s, "triangle:vertex_order", "points() differ for vertex order {:?}: {:?}", perm, s.symmetric_difference(&s2).map(|k| pt(*k)).collect::<Vec<_>>());
    }
    // one pixel outline, any alignment: union of the three edge lines, each in some direction
    for align in [StrokeAlignment::Inside, StrokeAlignment::Center, StrokeAlignment::Outside] {
        let style = PrimitiveStyleBuilder::new().stroke_color(Rgb888::nth(2)).stroke_width(1).stroke_alignment(align).build();
        let outl: S = set(t.into_styled(style).pixels().map(|p| p.0));
        let edges = [(a, b), (b, c), (c, a)];
        let fw: Vec<S> = edges.iter().map(|(x, y)| set(Line::new(*x, *y).points())).collect();
        let bw: Vec<S> = edges.iter().map(|(x, y)| set(Line::new(*y, *x).points())).collect();
        let mut ok = false;
        for mask in 0..8 {
            let mut u = S::new();
            for i in 0..3 {
                u.extend(if mask >> i & 1 == 0 { fw[i].iter() } else { bw[i].iter() });
            }
            if u == outl {
                ok = true;
                break;
            }
        }
        if !ok {
            let mut u = S::new();
            for i in 0..3 {
                u.extend(fw[i].iter());
                u.extend(bw[i].iter());
            }
            let extra: Vec<_> = outl.difference(&u).map(|k| pt(*k)).collect();
            return fail(
                "triangle:outline_not_edge_lines",
                format!("1-px outline ({:?}) is not the union of the three edge lines in any direction; pixels on no edge line: {:?}; outline has {} pixels", align, extra, outl.len()),
            );
        }
        // the outline does not depend on the fill or on the colours: with a fill of another colour the
        // stroke-coloured pixels are the same outline, and with a fill of the stroke's colour the
        // covered set is the same as with two colours
        let both = PrimitiveStyleBuilder::from(&style).fill_color(Rgb888::nth(1)).build();
        let px: Vec<_> = t.into_styled(both).pixels().collect();
        let stroke_px: S = set(px.iter().filter(|p| p.1 == Rgb888::nth(2)).map(|p| p.0));
        let all_px: S = set(px.iter().map(|p| p.0));
        ensure!(stroke_px == outl, "triangle:outline_changes_with_fill", "1-px outline ({:?}) with a fill of another colour differs from the outline without fill: {:?}", align, stroke_px.symmetric_difference(&outl).map(|k| pt(*k)).collect::<Vec<_>>());
        let same = PrimitiveStyleBuilder::from(&style).fill_color(Rgb888::nth(2)).build();
        let mut tgt = NativeT::<Rgb888>::new();
        tgt.0.log = false;
        t.into_styled(same).draw(&mut tgt).map_err(|e| Fail { sig: "triangle:draw_error".into(), detail: format!("{:?}", e) })?;
        let same_px: S = tgt.0.map.keys().map(|&(x, y)| (y, x)).collect();
        ensure!(same_px == all_px, "triangle:coverage_depends_on_colours", "1-px outline ({:?}) plus fill covers different pixels when stroke and fill have the same colour: {:?}", align, same_px.symmetric_difference(&all_px).map(|k| pt(*k)).collect::<Vec<_>>());
    }
    // two triangles sharing the edge a-b
    if let Some(d) = d {
        let t2 = Triangle::new(a, b, d);
        let s2 = set(t2.points());
        let env = t.bounding_box().envelope(&t2.bounding_box());
        for p in env.points() {
            if in_triangle(a, b, c, p) || in_triangle(a, b, d, p) {
                ensure!(s.contains(&(p.y, p.x)) || s2.contains(&(p.y, p.x)), "triangle:gap_between_adjacent", "{:?} lies in the union of the adjacent triangles {:?} / {:?} but is covered by neither", p, t, t2);
            }
        }
        let mut v = [a, b];
        v.sort_by_key(|p| (p.y, p.x));
        let e = set(Line::new(v[0], v[1]).points());
        ensure!(e.is_subset(&s) && e.is_subset(&s2), "triangle:shared_edge_pixels", "the line of the shared edge {:?}-{:?} is not contained in both triangles: missing {:?} / {:?}", v[0], v[1], e.difference(&s).map(|k| pt(*k)).collect::<Vec<_>>(), e.difference(&s2).map(|k| pt(*k)).collect::<Vec<_>>());
    }
    Ok(())
}

fn nontrivial_triangle(a: Point, b: Point, c: Point) -> bool {
    orient(a, b, c) != 0 && [(a, b), (b, c), (c, a)].iter().all(|(p, q)| p.x != q.x && p.y != q.y)
}

fn triangles_grid(ex: &Ex) {
    let g: u64 = ex.tier.pick(5, 7);
    let cells = g * g;
    let p = |k: u64| Point::new((k % g) as i32 - 2, (k / g) as i32 - 3);
    ex.par(cells * cells, |i| {
        let (a, b) = (p(i / cells), p(i % cells));
        let mut nt = 0;
        for k in 0..cells {
            let c = p(k);
            // fourth vertex: mirror image of c about the midpoint of a-b (other side of the edge)
            let d = if orient(a, b, c) != 0 { Some(a + b - c) } else { None };
            let r = check_triangle(a, b, c, d);
            ex.check(i * cells + k, r, || format!("{:?} fourth vertex {:?}", Triangle::new(a, b, c), d));
            if nontrivial_triangle(a, b, c) {
                nt += 1;
                if (i * cells + k) % 7919 == 13 {
                    ex.sample(|| format!("{:?} fourth vertex {:?}", Triangle::new(a, b, c), d));
                }
            }
        }
        ex.add(cells, nt);
    });
}

fn triangles_random(d: &mut Dec, cx: &mut Cx) -> Res {
    let r = if d.ratio(1, 3) { 40 } else { 9 };
    let (a, b, c) = (gen::point(d, r), gen::point(d, r), gen::point(d, r));
    let (b, c) = gen::structure_triangle(d, a, b, c);
    // fourth point on the other side of a-b (if any)
    let mut dd = gen::point(d, r);
    let o = orient(a, b, c);
    if o != 0 && orient(a, b, dd).signum() == o.signum() {
        // reflect through the midpoint of a-b: lands on the other side
        dd = a + b - dd;
    }
    let fourth = if o != 0 && orient(a, b, dd) != 0 && orient(a, b, dd).signum() != o.signum() { Some(dd) } else { None };
    let far = gen::far_offset(d);
    let (a, b, c, fourth) = (a + far, b + far, c + far, fourth.map(|p| p + far));
    cx.describe(|| format!("{:?} fourth vertex {:?}", Triangle::new(a, b, c), fourth));
    cx.class(if o == 0 { "degenerate" } else if fourth.is_some() { "with_adjacent" } else { "single" });
    cx.nontrivial(nontrivial_triangle(a, b, c));
    check_triangle(a, b, c, fourth)?;
    gen::iterator_protocol(&|| Triangle::new(a, b, c).points(), d, "triangle:points")
}

fn polylines(d: &mut Dec, cx: &mut Cx) -> Res {
    let r = if d.ratio(1, 4) { 30 } else { 7 };
    let v = gen::polyline_points(d, 6, r);
    let tr = if d.bool() { Point::zero() } else { gen::point(d, 9) };
    // far placement: through the vertices or through `translate`
    let far = gen::far_offset(d);
    let (v, tr) = if d.aux_u(5, 0, 1) == 0 { (v.iter().map(|p| *p + far).collect::<Vec<_>>(), tr) } else { (v, tr + far) };
    cx.describe(|| format!("Polyline {:?} translate {:?}", v, tr));
    let pl = Polyline::new(&v).translate(tr);
    let got: Vec<Point> = pl.points().collect();
    let mut exp: Vec<Point> = vec![];
    if v.len() >= 2 {
        for (i, w) in v.windows(2).enumerate() {
            exp.extend(Line::new(w[0] + tr, w[1] + tr).points().skip(usize::from(i != 0)));
        }
    }
    ensure!(got == exp, "polyline:points_sequence", "points() yields {} points {:?}, expected the concatenated segment lines {:?}", got.len(), &got[..got.len().min(12)], &exp[..exp.len().min(12)]);
    let mut t = NativeT::<Rgb888>::new();
    t.0.log = false;
    pl.into_styled(PrimitiveStyle::with_stroke(Rgb888::nth(2), 1)).draw(&mut t).map_err(|e| Fail { sig: "polyline:draw_error".into(), detail: format!("{:?}", e) })?;
    let drawn: S = t.0.map.keys().map(|&(x, y)| (y, x)).collect();
    let union = set(exp.iter().copied());
    ensure!(drawn == union, "polyline:styled_union", "1-px styled polyline differs from the union of its segment lines: {:?}", drawn.symmetric_difference(&union).map(|k| pt(*k)).collect::<Vec<_>>());
    let px: S = set(pl.into_styled(PrimitiveStyle::with_stroke(Rgb888::nth(2), 1)).pixels().map(|p| p.0));
    ensure!(px == union, "polyline:pixels_union", "pixels() of the 1-px styled polyline differ from the union of its segment lines: {:?}", px.symmetric_difference(&union).map(|k| pt(*k)).collect::<Vec<_>>());
    let repeated = v.windows(2).any(|w| w[0] == w[1]) || v.windows(3).any(|w| w[0] == w[2]);
    cx.class(match v.len() {
        0 | 1 => "empty",
        2 => "single_segment",
        _ => "multi_segment",
    });
    cx.nontrivial(v.len() >= 3 && repeated);
    gen::iterator_protocol(&|| Polyline::new(&v).translate(tr).points(), d, "polyline:points")
}


/// Triangles spanning 100..=300 px.
/// One-pixel outlines of triangles with edges of 1025..=28000 px and one-pixel polylines with such segments
/// (coordinates within +-14000): `pixels()` costs O(perimeter), so the outline clause applies unchanged — the
/// outline is the union of the three edge lines, each in one of its two directions; the polyline is the union
/// of its segment lines. (The fill clauses would cost O(area) and stay with the sub-checks up to 1024 px.)
fn huge_outlines(d: &mut Dec, cx: &mut Cx) -> Res {
    let big = |d: &mut Dec| match d.u(0, 3) {
        0 => d.pick(&[4095, 4096, 4097, 8191, 8193, 16383, 16384, 16385, 16387, 21845, 21847, 27999]) * if d.bool() { 1 } else { -1 },
        1 => d.i(-3000, 3000),
        _ => d.i(-28_000, 28_000),
    };
    let vertex = |d: &mut Dec, from: Point| {
        let p = from + Point::new(big(d), big(d));
        Point::new(p.x.clamp(-14_000, 14_000), p.y.clamp(-14_000, 14_000))
    };
    let a = Point::new(d.i(-14_000, 14_000), d.i(-14_000, 14_000));
    if d.ratio(2, 3) {
        let (b, c) = (vertex(d, a), vertex(d, a));
        let (b, c) = gen::structure_triangle(d, a, b, c);
        let (b, c) = (Point::new(b.x.clamp(-14_000, 14_000), b.y.clamp(-14_000, 14_000)), Point::new(c.x.clamp(-14_000, 14_000), c.y.clamp(-14_000, 14_000)));
        let t = Triangle::new(a, b, c);
        cx.describe(|| format!("{:?} (1-px outline)", t));
        cx.class("triangle_outline");
        let longest = [(a, b), (b, c), (c, a)].iter().map(|(p, q)| (p.x - q.x).abs().max((p.y - q.y).abs())).max().unwrap();
        cx.nontrivial(longest >= 1025 && orient(a, b, c) != 0);
        let align = d.pick(&[StrokeAlignment::Inside, StrokeAlignment::Center, StrokeAlignment::Outside]);
        let style = PrimitiveStyleBuilder::new().stroke_color(Rgb888::nth(2)).stroke_width(1).stroke_alignment(align).build();
        let mut outl = S::new();
        let budget = 3 * 4 * 30_000usize;
        for (k, p) in t.into_styled(style).pixels().enumerate() {
            ensure!(k < budget, "triangle:outline_too_many_pixels", "the 1-px outline yields more than {} pixels", budget);
            outl.insert((p.0.y, p.0.x));
        }
        let edges = [(a, b), (b, c), (c, a)];
        let fw: Vec<S> = edges.iter().map(|(x, y)| set(Line::new(*x, *y).points())).collect();
        let bw: Vec<S> = edges.iter().map(|(x, y)| set(Line::new(*y, *x).points())).collect();
        for mask in 0..8 {
            let mut u = S::new();
            for i in 0..3 {
                u.extend(if mask >> i & 1 == 0 { fw[i].iter() } else { bw[i].iter() });
            }
            if u == outl {
                return Ok(());
            }
        }
        let mut u = S::new();
        for i in 0..3 {
            u.extend(fw[i].iter());
            u.extend(bw[i].iter());
        }
        let extra: Vec<_> = outl.difference(&u).take(6).map(|k| pt(*k)).collect();
        let missing = (0..3).map(|i| fw[i].intersection(&bw[i]).filter(|k| !outl.contains(*k)).count()).sum::<usize>();
        return fail(
            "triangle:outline_not_edge_lines",
            format!("1-px outline ({:?}) is not the union of the three edge lines in any direction; {} pixels on no edge line (first {:?}); {} edge pixels common to both directions are not drawn; outline has {} pixels", align, outl.difference(&u).count(), extra, missing, outl.len()),
        );
    }
    let n = d.u(2, 5);
    let mut v = vec![a];
    for _ in 1..n {
        let last = *v.last().unwrap();
        v.push(vertex(d, last));
    }
    cx.describe(|| format!("Polyline {:?} (1 px)", v));
    cx.class("polyline");
    cx.nontrivial(true);
    let style = PrimitiveStyle::with_stroke(Rgb888::nth(2), 1);
    let mut drawn = S::new();
    for (k, p) in Polyline::new(&v).into_styled(style).pixels().enumerate() {
        ensure!(k < 8 * 60_000, "polyline:too_many_pixels", "the 1-px polyline yields more than {} pixels", 8 * 60_000);
        drawn.insert((p.0.y, p.0.x));
    }
    let mut u = S::new();
    for w in v.windows(2) {
        u.extend(Line::new(w[0], w[1]).points().map(|p| (p.y, p.x)));
    }
    if drawn != u {
        return fail("polyline:styled_not_union", format!("1-px polyline pixels() has {} pixels, the union of its segment lines {}; first only drawn {:?}, first only in the union {:?}", drawn.len(), u.len(), drawn.difference(&u).next().map(|k| pt(*k)), u.difference(&drawn).next().map(|k| pt(*k))));
    }
    Ok(())
}

fn triangles_large(d: &mut Dec, cx: &mut Cx) -> Res {
    // one large triangle in six spans up to 1024 px (display scale), the others 100..=300
    let hi = if d.aux_u(7, 0, 5) == 5 { 1024 } else { 300 };
    let Shape::Triangle(t) = gen::large_shape(d, 4, 100, hi) else { unreachable!() };
    let far = gen::far_offset(d);
    let t = t.translate(far);
    let [a, b, c] = t.vertices;
    let o = orient(a, b, c);
    let fourth = if o != 0 { Some(a + b - c) } else { None };
    cx.describe(|| format!("{:?} fourth vertex {:?}", t, fourth));
    cx.class(if o == 0 { "degenerate" } else { "with_adjacent" });
    cx.nontrivial(nontrivial_triangle(a, b, c));
    check_triangle(a, b, c, fourth)
}
