//! C11 — raw pixel load/store and iteration round-trip in both data orders.

use crate::engine::*;
use crate::ensure;
use embedded_graphics::iterator::raw::RawDataSlice;
use embedded_graphics::pixelcolor::raw::{
    BigEndianLsb0, DataOrder, LittleEndianMsb0, RawData, RawU1, RawU16, RawU2, RawU24, RawU32, RawU4, RawU8,
};

pub fn prop() -> Prop {
    Prop {
        id: "C11",
        level: "exploration",
        rule: "complete enumeration over 7 raw types x 2 data orders x buffer lengths 0..=9 x 4 background patterns (00, FF, AA, pseudo-random) x every pixel index up to 3 past the end x values (all values for <= 8 bit, all 65536 16-bit values in the thorough tier / 4096 strided + boundary values in the quick tier, boundary + pseudo-random values for 24/32 bit), plus proptest tapes for iterator scripts (random data, any mix of next() and nth(k), k also huge). Oracle: an independent reference of the documented layout (little-endian bytes + MSB-first sub-byte pixels, or big-endian bytes + LSB-first sub-byte pixels): after store the whole buffer equals the reference store (so only the bits of pixel i change), load returns the value and agrees with the reference on every index, out-of-range indices give Err/None and leave the buffer unchanged; the iterator yields load(0), load(1), ..., nth(k) skips k items, size_hint brackets the number of remaining items after every step. Non-trivial: index > 0 and (sub-byte: index not at a byte boundary; multi-byte: the value's bytes pairwise different).",
        assumptions: vec![
            "24- and 32-bit values are sampled (boundary values and 2000 pseudo-random values), not enumerated",
        ],
        subs: vec![
            Sub::enumerate("store_load", store_load),
            Sub::tape("iterator_scripts", 64, 300_000, 15_000_000, iterator_scripts),
            Sub::tape("size_hint_large", 24, 300_000, 15_000_000, size_hint_large),
            Sub::tape("long_buffers", 64, 200_000, 10_000_000, long_buffers),
        ],
    }
}

// ---- independent layout reference ----------------------------------------------------------

pub fn ref_load(buf: &[u8], bpp: u32, be: bool, idx: usize) -> Option<u32> {
    if bpp < 8 {
        let ppb = (8 / bpp) as usize;
        let byte = *buf.get(idx / ppb)?;
        let k = (idx % ppb) as u32;
        let shift = if be { k * bpp } else { (ppb as u32 - 1 - k) * bpp };
        Some(((byte >> shift) as u32) & ((1 << bpp) - 1))
    } else {
        let nb = (bpp / 8) as usize;
        let start = idx.checked_mul(nb)?;
        let slice = buf.get(start..start.checked_add(nb)?)?;
        let mut v: u32 = 0;
        if be {
            for b in slice {
                v = v << 8 | *b as u32;
            }
        } else {
            for b in slice.iter().rev() {
                v = v << 8 | *b as u32;
            }
        }
        Some(v)
    }
}

/// Returns false (and leaves the buffer alone) if the pixel is not completely inside the buffer.
pub fn ref_store(buf: &mut [u8], bpp: u32, be: bool, idx: usize, v: u32) -> bool {
    if bpp < 8 {
        let ppb = (8 / bpp) as usize;
        let Some(byte) = buf.get_mut(idx / ppb) else { return false };
        let k = (idx % ppb) as u32;
        let shift = if be { k * bpp } else { (ppb as u32 - 1 - k) * bpp };
        let mask = ((1u32 << bpp) - 1) as u8;
        *byte = (*byte & !(mask << shift)) | (((v as u8) & mask) << shift);
        true
    } else {
        let nb = (bpp / 8) as usize;
        let Some(start) = idx.checked_mul(nb) else { return false };
        let Some(end) = start.checked_add(nb) else { return false };
        let Some(slice) = buf.get_mut(start..end) else { return false };
        for (i, b) in slice.iter_mut().enumerate() {
            let sh = if be { 8 * (nb - 1 - i) } else { 8 * i };
            *b = (v >> sh) as u8;
        }
        true
    }
}

fn background(pattern: u32, len: usize) -> Vec<u8> {
    (0..len)
        .map(|i| match pattern {
            0 => 0x00,
            1 => 0xFF,
            2 => 0xAA,
            _ => (i as u32).wrapping_mul(0x9E37_79B1).wrapping_add(0x1234_5678).rotate_left(7) as u8,
        })
        .collect()
}

fn values(bpp: u32, thorough: bool) -> Vec<u32> {
    match bpp {
        1 | 2 | 4 | 8 => (0..(1u32 << bpp)).collect(),
        16 if thorough => (0..65536).collect(),
        _ => {
            let mask: u32 = if bpp == 32 { u32::MAX } else { (1 << bpp) - 1 };
            let mut v: Vec<u32> = vec![0, 1, mask, mask - 1, 0x0102_0304 & mask, 0x8040_2010 & mask, 0x00FF_00FF & mask, 0xFF00_FF00 & mask, 0xA55A_C33C & mask, 0x1234_5678 & mask];
            for i in 0..bpp {
                v.push(1 << i);
                v.push(mask ^ (1 << i));
            }
            let n = if bpp == 16 { 4096 } else { 2000 };
            let mut x: u32 = 0x2545_F491;
            for i in 0..n {
                x ^= x << 13;
                x ^= x >> 17;
                x ^= x << 5;
                v.push(if bpp == 16 { (i * 16 + (x & 15)) & mask } else { x & mask });
            }
            v
        }
    }
}

fn check_store_load<R, O>(bpp: u32, be: bool, len: usize, pattern: u32, thorough: bool) -> Result<(u64, u64), (Fail, String)>
where
    R: RawData + Copy + PartialEq + core::fmt::Debug,
    R::Storage: Into<u32>,
    O: DataOrder,
{
    let base = background(pattern, len);
    let npix = len * 8 / bpp as usize;
    let vals = values(bpp, thorough);
    let (mut n, mut nt) = (0u64, 0u64);
    let mut inner = || -> Result<(), (Fail, String)> {
        for idx in 0..npix + 4 {
            // (the last +1 index probes a partially present multi-byte pixel as well)
            for &v in &vals {
                let case = || format!("{} bit {} order, buffer {:02x?}, store value {:#x} at index {}", bpp, if be { "BigEndianLsb0" } else { "LittleEndianMsb0" }, base, v, idx);
                let wrap = |r: Res| r.map_err(|f| (f, case()));
                n += 1;
                let mut got = base.clone();
                let mut exp = base.clone();
                let ok_ref = ref_store(&mut exp, bpp, be, idx, v);
                let raw = R::from_u32(v);
                let res = raw.store::<O>(&mut got, idx);
                wrap((|| {
                    ensure!(res.is_ok() == ok_ref, "store:result", "store returned {:?}, the pixel is {} the buffer", res, if ok_ref { "inside" } else { "outside" });
                    ensure!(got == exp, if ok_ref { "store:bytes" } else { "store:out_of_range_modifies" }, "buffer after store {:02x?}, documented layout gives {:02x?}", got, exp);
                    let l = R::load::<O>(&got, idx);
                    if ok_ref {
                        ensure!(l == Some(raw), "load:roundtrip", "load after store returns {:?}, stored {:?}", l, raw);
                    } else {
                        ensure!(l.is_none(), "load:out_of_range", "load at an index outside the buffer returns {:?}", l);
                    }
                    Ok(())
                })())?;
                // all pixels agree with the reference reader (only for a few values: cost)
                if v == vals[0] || v == vals[vals.len() / 2] || v == *vals.last().unwrap() {
                    for j in 0..npix + 4 {
                        let l: Option<u32> = R::load::<O>(&got, j).map(|r| r.into_inner().into());
                        let e = ref_load(&got, bpp, be, j);
                        wrap((|| {
                            ensure!(l == e, "load:layout", "load(index {}) = {:?}, documented layout gives {:?} (buffer {:02x?})", j, l, e, got);
                            Ok(())
                        })())?;
                    }
                }
                let bytes_differ = {
                    let b = v.to_le_bytes();
                    let nb = (bpp / 8).max(1) as usize;
                    (0..nb).all(|i| (0..nb).all(|j| i == j || b[i] != b[j]))
                };
                if ok_ref && idx > 0 && (if bpp < 8 { idx % (8 / bpp as usize) != 0 } else { bpp > 8 && bytes_differ }) {
                    nt += 1;
                }
            }
        }
        // huge indices: rejected, nothing changes (in unchecked builds index * bytes would wrap)
        // every single high bit, pairs of high bits and "all bits above k" combined with low bits that
        // address an existing pixel (an index computation that shifts or truncates would alias them)
        let px = base.len() * 8 / bpp as usize;
        let mut huge: Vec<usize> = vec![usize::MAX, usize::MAX / 2 + 1, usize::MAX / 3 + 1, usize::MAX / 4 + 1, usize::MAX / 8 + 1, 1 << 40, 1 << 32];
        for k in 31..64u32 {
            for i in [0usize, 1, px / 2, px.saturating_sub(1)] {
                huge.push((1usize << k) + i);
                huge.push((3usize << (k - 1)) + i);
                huge.push((usize::MAX << k) + i);
            }
        }
        huge.push(usize::MAX - 1);
        huge.push(usize::MAX - px);
        for idx in huge {
            let v = vals[vals.len() / 2];
            n += 1;
            let mut got = base.clone();
            let res = R::from_u32(v).store::<O>(&mut got, idx);
            let l = R::load::<O>(&got, idx);
            let case = || format!("{} bit {} order, buffer {:02x?}, store value {:#x} at index {}", bpp, if be { "BigEndianLsb0" } else { "LittleEndianMsb0" }, base, v, idx);
            (|| {
                ensure!(res.is_err() && got == base, "store:huge_index", "store at index {} returned {:?}, buffer {:02x?}", idx, res, got);
                ensure!(l.is_none(), "load:huge_index", "load at index {} returned {:?}", idx, l);
                Ok(())
            })()
            .map_err(|f| (f, case()))?;
        }
        Ok(())
    };
    inner()?;
    Ok((n, nt))
}

macro_rules! all_combos {
    ($m:ident) => {
        $m!(RawU1, 1);
        $m!(RawU2, 2);
        $m!(RawU4, 4);
        $m!(RawU8, 8);
        $m!(RawU16, 16);
        $m!(RawU24, 24);
        $m!(RawU32, 32);
    };
}

fn store_load(ex: &Ex) {
    let thorough = ex.tier == Tier::Thorough;
    if !thorough {
        ex.incomplete();
    }
    // items: combo (14) x len (10) x pattern (4)
    ex.par(14 * 10 * 4, |i| {
        let combo = i / 40;
        let len = ((i % 40) / 4) as usize;
        let pattern = (i % 4) as u32;
        let be = combo % 2 == 1;
        let mut k = 0;
        macro_rules! go {
            ($t:ty, $bpp:expr) => {
                if combo / 2 == k {
                    let r = if be { check_store_load::<$t, BigEndianLsb0>($bpp, true, len, pattern, thorough) } else { check_store_load::<$t, LittleEndianMsb0>($bpp, false, len, pattern, thorough) };
                    match r {
                        Ok((n, nt)) => ex.add(n, nt),
                        Err((f, case)) => ex.fail(i, f.sig, f.detail, case),
                    }
                    if len == 5 && pattern == 3 {
                        ex.sample(|| format!("{} bit, {} order, buffer length {}, pattern {}, every index 0..={} x {} values", $bpp, if be { "BigEndianLsb0" } else { "LittleEndianMsb0" }, len, pattern, len * 8 / $bpp + 3, values($bpp, thorough).len()));
                    }
                }
                k += 1;
            };
        }
        all_combos!(go);
        let _ = k;
    });
}

// ---- iterator scripts ------------------------------------------------------------------------

fn script<R, O>(d: &mut Dec, cx: &mut Cx, bpp: u32, be: bool) -> Res
where
    R: RawData + Copy + PartialEq + core::fmt::Debug,
    R::Storage: Into<u32>,
    O: DataOrder,
{
    let len = d.u(0, 12) as usize;
    let data: Vec<u8> = (0..len).map(|_| d.u(0, 255) as u8).collect();
    let steps = d.u(1, 10);
    let mut ops: Vec<Option<usize>> = vec![];
    for _ in 0..steps {
        ops.push(match d.u(0, 9) {
            0..=3 => None,
            4..=7 => Some(d.u(0, 5) as usize),
            8 => Some(d.u(0, 40) as usize),
            _ => Some(match d.u(0, 2) {
                0 => d.pick(&[usize::MAX, usize::MAX / 2, usize::MAX / 4 + 1, 1 << 40, 1 << 31]),
                // a high bit (or all bits above it) plus a small skip that would land inside the buffer
                1 => (1usize << d.u(31, 63)) + d.u(0, 12) as usize,
                _ => (usize::MAX << d.u(31, 63)) + d.u(0, 12) as usize,
            }),
        });
    }
    cx.describe(|| format!("{} bit {} order, data {:02x?}, script {:?} (None = next(), Some(k) = nth(k))", bpp, if be { "BigEndianLsb0" } else { "LittleEndianMsb0" }, data, ops));
    cx.class(match bpp {
        1 | 2 | 4 => "sub_byte",
        8 => "byte",
        _ => "multi_byte",
    });
    let total = len * 8 / bpp as usize;
    // full iteration equals load(0), load(1), ...
    let items: Vec<R> = RawDataSlice::<R, O>::new(&data).into_iter().take(total + 8).collect();
    ensure!(items.len() == total, "iterator:count", "the iterator yields {} items, the buffer holds {} complete pixels", items.len(), total);
    for (i, it) in items.iter().enumerate() {
        let l = R::load::<O>(&data, i);
        ensure!(l == Some(*it), "iterator:item", "item {} is {:?} but load({}) = {:?}", i, it, i, l);
        let v: u32 = it.into_inner().into();
        ensure!(Some(v) == ref_load(&data, bpp, be, i), "iterator:layout", "item {} is {:#x}, documented layout gives {:?}", i, v, ref_load(&data, bpp, be, i));
    }
    // script
    let mut it = RawDataSlice::<R, O>::new(&data).into_iter();
    let mut pos: usize = 0; // model: index of the next item
    let hint = |it: &dyn Iterator<Item = R>, pos: usize, when: &str| -> Res {
        let remaining = total.saturating_sub(pos);
        let (lo, hi) = it.size_hint();
        ensure!(lo <= remaining && hi.map_or(true, |h| h >= remaining), "iterator:size_hint", "size_hint {:?} {} but {} items remain", (lo, hi), when, remaining);
        Ok(())
    };
    hint(&it, pos, "initially")?;
    let mut skipped = false;
    for (k, op) in ops.iter().enumerate() {
        let (got, expect) = match op {
            None => {
                let e = if pos < total { Some(items[pos]) } else { None };
                if pos < total {
                    pos += 1;
                }
                (it.next(), e)
            }
            Some(n) => {
                skipped |= *n > 0;
                let target = pos.saturating_add(*n);
                let e = if target < total { Some(items[target]) } else { None };
                pos = if target < total { target + 1 } else { total };
                (it.nth(*n), e)
            }
        };
        ensure!(got == expect, "iterator:script_item", "step {} ({:?}) returned {:?}, expected {:?}", k, op, got, expect);
        if expect.is_none() {
            // after exhaustion the position of the model is the end
            pos = total;
        }
        hint(&it, pos, &format!("after step {}", k))?;
    }
    cx.nontrivial(total >= 2 && skipped);
    crate::gen::iterator_protocol_noclone(&|| RawDataSlice::<R, O>::new(&data).into_iter(), d, "iterator")
}

fn iterator_scripts(d: &mut Dec, cx: &mut Cx) -> Res {
    let combo = d.u(0, 13);
    let be = combo % 2 == 1;
    let mut k = 0;
    let mut out: Option<Res> = None;
    macro_rules! go {
        ($t:ty, $bpp:expr) => {
            if combo / 2 == k && out.is_none() {
                out = Some(if be { script::<$t, BigEndianLsb0>(d, cx, $bpp, true) } else { script::<$t, LittleEndianMsb0>(d, cx, $bpp, false) });
            }
            k += 1;
        };
    }
    all_combos!(go);
    let _ = k;
    out.unwrap()
}


// ---- long buffers ----------------------------------------------------------------------------

/// Buffers of 250..=700 bytes, one in 40 of 8..64 KiB: pixel indices, byte offsets and bit offsets beyond
/// 255 and beyond 65535 (index arithmetic in a narrower type would alias them). A few stores, then loads and an iterator positioned with `nth`.
fn long_case<R, O>(d: &mut Dec, cx: &mut Cx, bpp: u32, be: bool) -> Res
where
    R: RawData + Copy + PartialEq + core::fmt::Debug,
    R::Storage: Into<u32>,
    O: DataOrder,
{
    // one case in 40: a buffer in which the pixel index (sub-byte types) or the byte offset crosses 2^16
    let huge = d.u(0, 39) == 39;
    let len = if huge {
        (if bpp < 8 { 65536 * bpp as usize / 8 } else { 65536 }) + 8 + d.u(0, 24) as usize
    } else {
        match d.u(0, 3) {
            0 => d.pick(&[255usize, 256, 257, 511, 512, 513]),
            _ => d.u(250, 700) as usize,
        }
    };
    let mut x = d.raw() | 1;
    let mut buf: Vec<u8> = (0..len)
        .map(|_| {
            x ^= x << 13;
            x ^= x >> 17;
            x ^= x << 5;
            x as u8
        })
        .collect();
    let npix = len * 8 / bpp as usize;
    let mask = if bpp == 32 { u32::MAX } else { (1u32 << bpp) - 1 };
    // indices: around the powers of two in pixel units and in byte units, the end, and anywhere
    let ppb8 = |bytes: usize| bytes * 8 / bpp as usize;
    let index = |d: &mut Dec| -> usize {
        if huge && d.ratio(3, 4) {
            // around pixel 2^16 and around byte 2^16
            let centre = if d.bool() { 65536 } else { 65536 * 8 / bpp as usize };
            return (centre + d.u(0, 6) as usize).saturating_sub(3).min(npix + 2);
        }
        match d.u(0, 4) {
            0 => (d.pick(&[255usize, 256, 257, 511, 512, 513, 1023, 1024, 2047, 2048, 4095, 4096]) + d.u(0, 2) as usize).min(npix + 2),
            1 => (ppb8(d.pick(&[255usize, 256, 257, 511, 512])) + d.u(0, 8) as usize).saturating_sub(4).min(npix + 2),
            2 => npix.saturating_sub(d.u(0, 3) as usize) + d.u(0, 3) as usize,
            _ => d.u(0, npix as u32 + 2) as usize,
        }
    };
    let nstores = if huge { 1 } else { d.u(1, 4) };
    let mut stores = vec![];
    for _ in 0..nstores {
        let idx = index(d);
        let v = d.raw() & mask;
        stores.push((idx, v));
    }
    let probes: Vec<usize> = (0..6).map(|_| index(d)).collect();
    let skip = index(d);
    cx.describe(|| format!("{} bit {} order, {} bytes; stores (index, value) {:x?}; loads at {:?}; nth({})", bpp, if be { "BigEndianLsb0" } else { "LittleEndianMsb0" }, len, stores, probes, skip));
    cx.class(match (huge, bpp) {
        (true, _) => "offsets_beyond_65535",
        (_, 1 | 2 | 4) => "sub_byte",
        (_, 8) => "byte",
        _ => "multi_byte",
    });
    for (idx, v) in &stores {
        let mut exp = buf.clone();
        let ok_ref = ref_store(&mut exp, bpp, be, *idx, *v);
        let res = R::from_u32(*v).store::<O>(&mut buf, *idx);
        ensure!(res.is_ok() == ok_ref, "long:store_result", "store at index {} of {} pixels returned {:?}", idx, npix, res);
        if buf != exp {
            let first = buf.iter().zip(exp.iter()).position(|(a, b)| a != b).unwrap();
            return fail("long:store_bytes", format!("after store({:#x}, index {}) byte {} is {:#04x}, the documented layout gives {:#04x}", v, idx, first, buf[first], exp[first]));
        }
        if ok_ref {
            let l = R::load::<O>(&buf, *idx).map(|r| r.into_inner().into());
            ensure!(l == Some(*v), "long:load_after_store", "load({}) after store({:#x}) returns {:x?}", idx, v, l);
        }
    }
    for idx in &probes {
        let l: Option<u32> = R::load::<O>(&buf, *idx).map(|r| r.into_inner().into());
        ensure!(l == ref_load(&buf, bpp, be, *idx), "long:load", "load({}) = {:x?}, documented layout gives {:x?}", idx, l, ref_load(&buf, bpp, be, *idx));
    }
    let mut it = RawDataSlice::<R, O>::new(&buf).into_iter();
    let got: Option<u32> = it.nth(skip).map(|r| r.into_inner().into());
    ensure!(got == ref_load(&buf, bpp, be, skip), "long:nth", "nth({}) = {:x?}, documented layout gives {:x?}", skip, got, ref_load(&buf, bpp, be, skip));
    let remaining = npix.saturating_sub(skip + 1);
    let (lo, hi) = it.size_hint();
    ensure!(lo <= remaining && hi.map_or(true, |h| h >= remaining), "long:size_hint", "size_hint {:?} after nth({}) but {} items remain", (lo, hi), skip, remaining);
    let next: Option<u32> = it.next().map(|r| r.into_inner().into());
    ensure!(next == ref_load(&buf, bpp, be, skip + 1).filter(|_| skip + 1 < npix), "long:next_after_nth", "next() after nth({}) = {:x?}", skip, next);
    cx.nontrivial(stores.iter().any(|(i, _)| *i >= 256 && *i < npix));
    Ok(())
}

fn long_buffers(d: &mut Dec, cx: &mut Cx) -> Res {
    let combo = d.u(0, 13);
    let be = combo % 2 == 1;
    let mut k = 0;
    let mut out: Option<Res> = None;
    macro_rules! go {
        ($t:ty, $bpp:expr) => {
            if combo / 2 == k && out.is_none() {
                out = Some(if be { long_case::<$t, BigEndianLsb0>(d, cx, $bpp, true) } else { long_case::<$t, LittleEndianMsb0>(d, cx, $bpp, false) });
            }
            k += 1;
        };
    }
    all_combos!(go);
    let _ = k;
    out.unwrap()
}


// ---- size_hint / nth on buffers up to 16 MiB -----------------------------------------------------

/// One zeroed 16 MiB buffer shared by all cases (slices of it are the "buffers": only lengths matter here).
fn big_zero() -> &'static [u8] {
    static BIG: std::sync::OnceLock<Vec<u8>> = std::sync::OnceLock::new();
    BIG.get_or_init(|| vec![0u8; 1 << 24])
}

fn size_hint_case<R, O>(d: &mut Dec, cx: &mut Cx, bpp: u32, be: bool) -> Res
where
    R: RawData + Copy + PartialEq + core::fmt::Debug,
    R::Storage: Into<u32>,
    O: DataOrder,
{
    // lengths around the powers of two up to 2^24 (every residue modulo 3 and 4), or anywhere
    let len = match d.u(0, 2) {
        0 => ((1usize << d.u(8, 24)) + d.u(0, 12) as usize).saturating_sub(6).min(1 << 24),
        1 => ((3usize << d.u(8, 22)) + d.u(0, 12) as usize).saturating_sub(6).min(1 << 24),
        _ => d.u(0, 1 << 24) as usize,
    };
    let data = &big_zero()[..len];
    let total = (len as u64 * 8 / bpp as u64) as usize;
    cx.describe(|| format!("{} bit {} order, buffer of {} bytes = {} pixels", bpp, if be { "BigEndianLsb0" } else { "LittleEndianMsb0" }, len, total));
    cx.class(if len >= 1 << 21 { "at_least_2_MiB" } else if len >= 1 << 16 { "at_least_64_KiB" } else { "below_64_KiB" });
    let hint = |it: &dyn Iterator<Item = R>, remaining: usize, when: &str| -> Res {
        let (lo, hi) = it.size_hint();
        ensure!(lo <= remaining && hi.map_or(true, |h| h >= remaining), "large:size_hint", "size_hint() = {:?} {} but {} items remain ({} bytes)", (lo, hi), when, remaining, len);
        Ok(())
    };
    let mut it = RawDataSlice::<R, O>::new(data).into_iter();
    hint(&it, total, "on the fresh iterator")?;
    // skip to a position near the end or anywhere
    let k = match d.u(0, 2) {
        0 => total.saturating_sub(d.u(1, 4) as usize),
        1 => d.u(0, total as u32) as usize,
        _ => total + d.u(0, 3) as usize,
    };
    let x = it.nth(k);
    ensure!(x.is_some() == (k < total), "large:nth", "nth({}) on {} pixels returned {:?}", k, total, x);
    let remaining = total.saturating_sub(k + 1);
    hint(&it, remaining, &format!("after nth({})", k))?;
    if remaining <= 8 {
        let c = it.count();
        ensure!(c == remaining, "large:count", "count() after nth({}) = {}, {} items remain", k, c, remaining);
    }
    cx.nontrivial(len >= 1 << 16);
    Ok(())
}

fn size_hint_large(d: &mut Dec, cx: &mut Cx) -> Res {
    let combo = d.u(0, 13);
    let be = combo % 2 == 1;
    let mut k = 0;
    let mut out: Option<Res> = None;
    macro_rules! go {
        ($t:ty, $bpp:expr) => {
            if combo / 2 == k && out.is_none() {
                out = Some(if be { size_hint_case::<$t, BigEndianLsb0>(d, cx, $bpp, true) } else { size_hint_case::<$t, LittleEndianMsb0>(d, cx, $bpp, false) });
            }
            k += 1;
        };
    }
    all_combos!(go);
    let _ = k;
    out.unwrap()
}
