//! C16 — Rectangle operations agree with the set of points they describe.

use crate::engine::*;
use crate::ensure;
use embedded_graphics::geometry::{AnchorPoint, AnchorX, AnchorY, Point, Size};
use embedded_graphics::primitives::{ContainsPoint, PointsIter, Rectangle};

pub fn prop() -> Prop {
    Prop {
        id: "C16",
        level: "exploration",
        rule: "pairs/singles of rectangles: complete enumeration of all rectangles with top-left in [-2,3]^2 and size 0..=4 (quick) / 0..=6 (thorough) as ordered pairs, plus proptest tapes decoding to rectangles with coordinates and sizes up to 2^20. Oracle: explicit point sets (grid) and interval arithmetic + probe points (random). Non-trivial pair: the two rectangles properly overlap (intersection non-empty and different from both); non-trivial single: both sides >= 2. Distinct = distinct decoded cases (fingerprint of decoded values; enumeration items are distinct by construction).",
        assumptions: vec![
            "envelope is judged by the documented rule that a zero-sized side counts as 1",
            "offset(n) is only required to move every side by n while the rectangle and its result are non-degenerate",
            "a centre anchor may move by at most one pixel under resized()",
        ],
        subs: vec![
            Sub::enumerate("pairs_grid", pairs_grid),
            Sub::enumerate("single_grid", single_grid),
            Sub::tape("pairs_random", 24, 500_000, 25_000_000, pairs_random),
            Sub::tape("single_random", 24, 200_000, 10_000_000, single_random),
        ],
    }
}

const ANCHORS: [AnchorPoint; 9] = [
    AnchorPoint::TopLeft,
    AnchorPoint::TopCenter,
    AnchorPoint::TopRight,
    AnchorPoint::CenterLeft,
    AnchorPoint::Center,
    AnchorPoint::CenterRight,
    AnchorPoint::BottomLeft,
    AnchorPoint::BottomCenter,
    AnchorPoint::BottomRight,
];

fn grid_rects(max: u32) -> Vec<Rectangle> {
    let mut v = vec![];
    for x in -2..=3 {
        for y in -2..=3 {
            for w in 0..=max {
                for h in 0..=max {
                    v.push(Rectangle::new(Point::new(x, y), Size::new(w, h)));
                }
            }
        }
    }
    v
}

/// Explicit point set of a rectangle from its definition (top-left + size), row-major.
fn pts_def(r: &Rectangle) -> Vec<(i32, i32)> {
    let mut v = vec![];
    for y in 0..r.size.height as i32 {
        for x in 0..r.size.width as i32 {
            v.push((r.top_left.y + y, r.top_left.x + x));
        }
    }
    v
}

fn pts_api(r: &Rectangle) -> Vec<(i32, i32)> {
    r.points().map(|p| (p.y, p.x)).collect()
}

fn inter_sorted(a: &[(i32, i32)], b: &[(i32, i32)]) -> Vec<(i32, i32)> {
    let (mut i, mut j) = (0, 0);
    let mut out = vec![];
    while i < a.len() && j < b.len() {
        match a[i].cmp(&b[j]) {
            std::cmp::Ordering::Less => i += 1,
            std::cmp::Ordering::Greater => j += 1,
            std::cmp::Ordering::Equal => {
                out.push(a[i]);
                i += 1;
                j += 1;
            }
        }
    }
    out
}

/// Expected envelope by the documented rule (zero size counts as 1), in i64.
fn expected_envelope(a: &Rectangle, b: &Rectangle) -> Rectangle {
    let f = |r: &Rectangle| {
        (
            r.top_left.x as i64,
            r.top_left.y as i64,
            r.top_left.x as i64 + (r.size.width.max(1)) as i64,
            r.top_left.y as i64 + (r.size.height.max(1)) as i64,
        )
    };
    let (a0, a1, a2, a3) = f(a);
    let (b0, b1, b2, b3) = f(b);
    let (x0, y0, x1, y1) = (a0.min(b0), a1.min(b1), a2.max(b2), a3.max(b3));
    Rectangle::new(
        Point::new(x0 as i32, y0 as i32),
        Size::new((x1 - x0) as u32, (y1 - y0) as u32),
    )
}

fn check_pair_sets(a: &Rectangle, b: &Rectangle, sa: &[(i32, i32)], sb: &[(i32, i32)]) -> Res {
    let r = a.intersection(b);
    let exp = inter_sorted(sa, sb);
    let got = pts_api(&r);
    ensure!(got == exp, "intersection:points", "{:?} ∩ {:?} = {:?}: points {:?}, expected {:?}", a, b, r, got, exp);
    ensure!(!exp.is_empty() || r.is_zero_sized(), "intersection:not_zero_sized", "{:?} ∩ {:?} = {:?} should be zero sized", a, b, r);
    let r2 = b.intersection(a);
    ensure!(pts_api(&r2) == got, "intersection:order", "{:?} ∩ {:?}: {:?} vs swapped {:?}", a, b, r, r2);
    let e = a.envelope(b);
    let ee = expected_envelope(a, b);
    ensure!(e == ee, "envelope", "envelope({:?}, {:?}) = {:?}, expected {:?}", a, b, e, ee);
    Ok(())
}

fn pairs_grid(ex: &Ex) {
    let rects = grid_rects(ex.tier.pick(4, 6));
    let sets: Vec<_> = rects.iter().map(pts_def).collect();
    let n = rects.len() as u64;
    ex.par(n, |i| {
        let a = &rects[i as usize];
        let mut nt = 0;
        for (j, b) in rects.iter().enumerate() {
            let r = check_pair_sets(a, b, &sets[i as usize], &sets[j]);
            let inter = inter_sorted(&sets[i as usize], &sets[j]);
            if !inter.is_empty() && inter.len() != sets[i as usize].len() && inter.len() != sets[j].len() {
                nt += 1;
                if i % 97 == 5 && j % 89 == 3 {
                    ex.sample(|| format!("{:?} x {:?} -> {:?}", a, b, a.intersection(b)));
                }
            }
            ex.check(i * n + j as u64, r, || format!("a={:?} b={:?}", a, b));
        }
        ex.add(n, nt);
    });
}

fn check_single(r: &Rectangle, small: bool, resize_to: Size) -> Res {
    let (x0, y0, w, h) = (
        r.top_left.x as i64,
        r.top_left.y as i64,
        r.size.width as i64,
        r.size.height as i64,
    );
    let br = r.bottom_right();
    let expbr = if w > 0 && h > 0 {
        Some(Point::new((x0 + w - 1) as i32, (y0 + h - 1) as i32))
    } else {
        None
    };
    ensure!(br == expbr, "bottom_right", "{:?}.bottom_right() = {:?}, expected {:?}", r, br, expbr);
    let c = r.center();
    let expc = Point::new((x0 + (w - 1).max(0) / 2) as i32, (y0 + (h - 1).max(0) / 2) as i32);
    ensure!(c == expc, "center", "{:?}.center() = {:?}, expected {:?}", r, c, expc);
    let wc = Rectangle::with_center(c, r.size);
    ensure!(wc == *r, "with_center_identity", "with_center({:?}, {:?}) = {:?} != {:?}", c, r.size, wc, r);
    if let Some(br) = br {
        for (p, q) in [
            (r.top_left, br),
            (br, r.top_left),
            (Point::new(r.top_left.x, br.y), Point::new(br.x, r.top_left.y)),
            (Point::new(br.x, r.top_left.y), Point::new(r.top_left.x, br.y)),
        ] {
            let k = Rectangle::with_corners(p, q);
            ensure!(k == *r, "with_corners", "with_corners({:?}, {:?}) = {:?} != {:?}", p, q, k, r);
        }
    }
    ensure!(
        r.rows() == (y0 as i32..(y0 + h) as i32) && r.columns() == (x0 as i32..(x0 + w) as i32),
        "rows_columns",
        "{:?}: rows {:?} columns {:?}", r, r.rows(), r.columns()
    );
    if small {
        // explicit point set: points() row-major, contains() <=> member on box + margin 2
        let def = pts_def(r);
        let api = pts_api(r);
        ensure!(def == api, "points", "{:?}.points() = {:?}, expected {:?}", r, api, def);
        for y in (y0 as i32 - 2)..=((y0 + h) as i32 + 2) {
            for x in (x0 as i32 - 2)..=((x0 + w) as i32 + 2) {
                let member = def.binary_search(&(y, x)).is_ok();
                let p = Point::new(x, y);
                ensure!(Rectangle::contains(r, p) == member, "contains", "{:?}.contains({:?}) = {}", r, p, !member);
                ensure!(ContainsPoint::contains(r, p) == member, "contains_trait", "ContainsPoint::contains({:?}, {:?}) = {}", r, p, !member);
            }
        }
    } else {
        // probe points around the four corners
        for (cx, cy) in [(x0, y0), (x0 + w - 1, y0), (x0, y0 + h - 1), (x0 + w - 1, y0 + h - 1)] {
            for dx in -1..=1i64 {
                for dy in -1..=1i64 {
                    let (px, py) = (cx + dx, cy + dy);
                    let member = px >= x0 && px < x0 + w && py >= y0 && py < y0 + h;
                    let p = Point::new(px as i32, py as i32);
                    ensure!(Rectangle::contains(r, p) == member, "contains", "{:?}.contains({:?}) = {}", r, p, !member);
                }
            }
        }
    }
    for (k, a) in ANCHORS.into_iter().enumerate() {
        // the decomposition of the nine anchors, by position in the (row-major) table, not by the library
        let (tx, ty) = ([AnchorX::Left, AnchorX::Center, AnchorX::Right][k % 3], [AnchorY::Top, AnchorY::Center, AnchorY::Bottom][k / 3]);
        ensure!(a.x() == tx && a.y() == ty && AnchorPoint::from_xy(tx, ty) == a, "anchor_decomposition", "{:?}: x() = {:?}, y() = {:?}, from_xy({:?}, {:?}) = {:?}", a, a.x(), a.y(), tx, ty, AnchorPoint::from_xy(tx, ty));
        let p = r.anchor_point(a);
        let exx = match a.x() {
            AnchorX::Left => x0,
            AnchorX::Center => x0 + (w.max(1) - 1) / 2,
            AnchorX::Right => x0 + w.max(1) - 1,
        };
        let exy = match a.y() {
            AnchorY::Top => y0,
            AnchorY::Center => y0 + (h.max(1) - 1) / 2,
            AnchorY::Bottom => y0 + h.max(1) - 1,
        };
        ensure!((p.x as i64, p.y as i64) == (exx, exy), "anchor_point", "{:?}.anchor_point({:?}) = {:?}, expected ({}, {})", r, a, p, exx, exy);
        ensure!(r.anchor_x(a.x()) as i64 == exx && r.anchor_y(a.y()) as i64 == exy, "anchor_xy", "{:?} anchor_x/anchor_y {:?}", r, a);
        let rs = r.resized(resize_to, a);
        let q = rs.anchor_point(a);
        let tol_x = i32::from(a.x() == AnchorX::Center);
        let tol_y = i32::from(a.y() == AnchorY::Center);
        ensure!(
            rs.size == resize_to && (q.x - p.x).abs() <= tol_x && (q.y - p.y).abs() <= tol_y,
            "resized",
            "{:?}.resized({:?}, {:?}) = {:?}: anchor {:?} -> {:?}", r, resize_to, a, rs, p, q
        );
        let rw = r.resized_width(resize_to.width, a.x());
        ensure!(
            rw.size == Size::new(resize_to.width, r.size.height) && rw.top_left.y == r.top_left.y && (rw.anchor_x(a.x()) - p.x).abs() <= tol_x,
            "resized_width",
            "{:?}.resized_width({}, {:?}) = {:?}", r, resize_to.width, a.x(), rw
        );
        let rh = r.resized_height(resize_to.height, a.y());
        ensure!(
            rh.size == Size::new(r.size.width, resize_to.height) && rh.top_left.x == r.top_left.x && (rh.anchor_y(a.y()) - p.y).abs() <= tol_y,
            "resized_height",
            "{:?}.resized_height({}, {:?}) = {:?}", r, resize_to.height, a.y(), rh
        );
    }
    for o in -5..=5i32 {
        let q = r.offset(o);
        if w > 0 && h > 0 && w + 2 * o as i64 > 0 && h + 2 * o as i64 > 0 {
            let exp = Rectangle::new(
                Point::new((x0 - o as i64) as i32, (y0 - o as i64) as i32),
                Size::new((w + 2 * o as i64) as u32, (h + 2 * o as i64) as u32),
            );
            ensure!(q == exp, "offset", "{:?}.offset({}) = {:?}, expected {:?}", r, o, q, exp);
        } else {
            // degenerate: the result must at least have the saturated size
            let ew = (w + 2 * o as i64).max(0) as u32;
            let eh = (h + 2 * o as i64).max(0) as u32;
            ensure!(q.size == Size::new(ew, eh), "offset_size", "{:?}.offset({}) = {:?}, expected size {}x{}", r, o, q, ew, eh);
        }
    }
    Ok(())
}

fn single_grid(ex: &Ex) {
    let rects = grid_rects(ex.tier.pick(4, 6));
    let n = rects.len() as u64;
    let targets: Vec<Size> = (0..=6).flat_map(|w| (0..=6).map(move |h| Size::new(w, h))).collect();
    ex.par(n, |i| {
        let r = &rects[i as usize];
        for (k, t) in targets.iter().enumerate() {
            let res = check_single(r, true, *t);
            ex.check(i * 64 + k as u64, res, || format!("{:?} resize_to={:?}", r, t));
        }
        let nt = u64::from(r.size.width >= 2 && r.size.height >= 2);
        ex.add(targets.len() as u64, nt * targets.len() as u64);
        if i % 211 == 7 {
            ex.sample(|| format!("{:?} with all 9 anchors, resize targets 0..=6 x 0..=6, offsets -5..=5", r));
        }
    });
}

fn big_rect(d: &mut Dec) -> Rectangle {
    let r = match d.u(0, 2) {
        0 => 8,
        1 => 1000,
        _ => 1 << 20,
    };
    let m = match d.u(0, 2) {
        0 => 8,
        1 => 1000,
        _ => 1 << 20,
    };
    Rectangle::new(
        Point::new(d.i(-r, r), d.i(-r, r)),
        Size::new(d.u(0, m), d.u(0, m)),
    )
}

fn pairs_random(d: &mut Dec, cx: &mut Cx) -> Res {
    let a = big_rect(d);
    // second rectangle: independent, or derived from the first so that overlaps are frequent
    let b = match d.u(0, 3) {
        0 => big_rect(d),
        _ => {
            let dx = d.i(-(a.size.width as i32) - 2, a.size.width as i32 + 2);
            let dy = d.i(-(a.size.height as i32) - 2, a.size.height as i32 + 2);
            let w = d.u(0, a.size.width * 2 + 2);
            let h = d.u(0, a.size.height * 2 + 2);
            // auxiliary words 5..=7: half of the derived rectangles are aligned with the first one: same
            // origin, touching or overlapping by exactly one column / row, same size or half of it
            let (aw, ah) = (a.size.width as i32, a.size.height as i32);
            let align = |k: u32, full: i32, free: i32| match k {
                0 => 0,
                1 => full,
                2 => -full,
                3 => full - 1,
                4 => -(full - 1),
                5 => full + 1,
                _ => free,
            };
            let (dx, dy, w, h) = if d.aux_u(5, 0, 1) == 1 {
                let kx = d.aux_u(6, 0, 48);
                let ky = d.aux_u(7, 0, 48);
                let pick_size = |k: u32, full: u32, free: u32| match k {
                    0 | 1 => full,
                    2 => full / 2,
                    3 => 1,
                    4 => full + 1,
                    _ => free,
                };
                (align(kx % 7, aw, dx), align(ky % 7, ah, dy), pick_size(kx / 7, a.size.width, w), pick_size(ky / 7, a.size.height, h))
            } else {
                (dx, dy, w, h)
            };
            Rectangle::new(a.top_left + Point::new(dx, dy), Size::new(w, h))
        }
    };
    cx.describe(|| format!("a={:?} b={:?}", a, b));
    let iv = |r: &Rectangle| {
        (
            r.top_left.x as i64,
            r.top_left.y as i64,
            r.top_left.x as i64 + r.size.width as i64,
            r.top_left.y as i64 + r.size.height as i64,
        )
    };
    let (a0, a1, a2, a3) = iv(&a);
    let (b0, b1, b2, b3) = iv(&b);
    let (x0, y0, x1, y1) = (a0.max(b0), a1.max(b1), a2.min(b2), a3.min(b3));
    let nonempty = x0 < x1 && y0 < y1;
    let r = a.intersection(&b);
    if nonempty {
        let exp = Rectangle::new(
            Point::new(x0 as i32, y0 as i32),
            Size::new((x1 - x0) as u32, (y1 - y0) as u32),
        );
        ensure!(r == exp, "intersection:points", "{:?} ∩ {:?} = {:?}, expected {:?}", a, b, r, exp);
    } else {
        ensure!(r.is_zero_sized(), "intersection:not_zero_sized", "{:?} ∩ {:?} = {:?} should be zero sized", a, b, r);
    }
    let r2 = b.intersection(&a);
    ensure!(
        (r.is_zero_sized() && r2.is_zero_sized()) || r == r2,
        "intersection:order",
        "{:?} ∩ {:?}: {:?} vs swapped {:?}", a, b, r, r2
    );
    // probe points: membership in the result <=> membership in both
    for &(px, py) in &[(x0, y0), (x1 - 1, y1 - 1), (x0 - 1, y0), (x1, y1 - 1), (a0, a1), (b0, b1), (a2 - 1, a3 - 1), (b2 - 1, b3 - 1)] {
        let p = Point::new(px as i32, py as i32);
        let both = a.contains(p) && b.contains(p);
        ensure!(r.contains(p) == both, "intersection:member", "{:?} ∩ {:?} = {:?}: point {:?} in result = {}, in both = {}", a, b, r, p, !both, both);
    }
    let e = a.envelope(&b);
    let ee = expected_envelope(&a, &b);
    ensure!(e == ee, "envelope", "envelope({:?}, {:?}) = {:?}, expected {:?}", a, b, e, ee);
    let proper = nonempty && r != a && r != b;
    cx.class(if proper { "proper_overlap" } else if nonempty { "nested" } else { "disjoint" });
    cx.nontrivial(proper);
    Ok(())
}

fn single_random(d: &mut Dec, cx: &mut Cx) -> Res {
    let r = big_rect(d);
    let t = Size::new(d.u(0, 40), d.u(0, 40));
    cx.describe(|| format!("{:?} resize_to={:?}", r, t));
    ensure!(Rectangle::new_at_origin(r.size) == Rectangle::new(Point::zero(), r.size) && Rectangle::zero() == Rectangle::new(Point::zero(), Size::zero()), "constructors", "new_at_origin / zero");
    cx.nontrivial(r.size.width >= 2 && r.size.height >= 2);
    cx.class(if r.is_zero_sized() { "zero_sized" } else { "non_empty" });
    check_single(&r, r.size.width <= 12 && r.size.height <= 12, t)?;
    // iterator protocol of points() on a rectangle of the same origin and a size of at most 40x40
    let small = Rectangle::new(r.top_left, Size::new(r.size.width.min(t.width), r.size.height.min(t.height)));
    crate::gen::iterator_protocol(&|| small.points(), d, "points")
}
