//! C01 — one image per drawable, whichever drawing path the target offers.

use crate::engine::*;
use crate::items::*;
use crate::targets::*;
use embedded_graphics::draw_target::DrawTargetExt;
use embedded_graphics::geometry::{Point, Size};
use embedded_graphics::pixelcolor::{BinaryColor, Gray4, Rgb565, Rgb888};
use embedded_graphics::primitives::Rectangle;

pub fn prop() -> Prop {
    Prop {
        id: "C01",
        level: "exploration",
        rule: "proptest tapes decoding to a drawable: one of 8 styled primitives (solid stroke, fill/stroke colour present or absent, width 0..=12 with a tail to 40, three alignments), polyline (0..=6 vertices, optional translate), Image<ImageRaw> / Image<SubImage> (sizes 0..=17, both data orders, nested sub-images, with_center) or Text (random built-in font, colours/decorations, multi-line), positions in [-40,40] (so partly or fully at negative coordinates), colour type cycling through BinaryColor, Gray4, Rgb565, Rgb888. Oracle (differential): pixel map of draw() on a draw_iter-only target == draw() on a native-fill target == pixels() through draw_iter (styled primitives, polylines); additionally both targets through a clipped() window cut out of the drawable's box must agree with the unclipped map restricted to the window. Non-trivial: >= 2 pixels painted and at least one native fill_solid/fill_contiguous call was made on the native target.",
        assumptions: vec![
            "the two reference targets implement the documented meaning of draw_iter / fill_contiguous / fill_solid / clear and never clip",
            "sizes <= 40 (images <= 17), stroke widths <= 40",
        ],
        subs: vec![
            Sub::tape("primitives", 64, 240_000, 12_000_000, |d, cx| run(d, cx, 0)).with_fp(),
            Sub::tape("primitives_large", 64, 3_000, 150_000, |d, cx| run(d, cx, 4)),
            Sub::tape("polylines", 72, 40_000, 2_000_000, |d, cx| run(d, cx, 1)),
            Sub::tape("images", 400, 50_000, 2_500_000, |d, cx| run(d, cx, 2)),
            Sub::tape("text", 300, 40_000, 2_000_000, |d, cx| run(d, cx, 3)),
            Sub::tape("huge_sampled_rows", 400, 240, 12_000, huge),
        ],
    }
}

fn run(d: &mut Dec, cx: &mut Cx, group: u32) -> Res {
    let kind = match group {
        0 => d.u(0, 7),
        4 => 100 + d.u(0, 7),
        1 => 8,
        2 => 9,
        _ => 10,
    };
    match d.u(0, 3) {
        0 => check::<BinaryColor>(d, cx, kind),
        1 => check::<Gray4>(d, cx, kind),
        2 => check::<Rgb565>(d, cx, kind),
        _ => check::<Rgb888>(d, cx, kind),
    }
}

fn err(kind: &str, what: &str, e: Fault) -> Fail {
    Fail { sig: format!("{}:{}_error", kind, what), detail: format!("unexpected error {:?} from a target that never fails", e) }
}

fn check<C: ImgCol>(d: &mut Dec, cx: &mut Cx, kind: u32) -> Res {
    let big = d.ratio(1, 5);
    let dom = ItemDom { r: 40, max: if big { 40 } else { 16 }, max_width: if d.ratio(1, 8) { 40 } else { 12 }, dotted: false, text_len: 12 };
    // kinds >= 100: styled primitives of 100..=300 px (sub-check "primitives_large")
    let (item, kind) = if kind >= 100 {
        let st = crate::gen::style::<C>(d, 40);
        (Item::Styled(crate::gen::large_shape(d, kind - 100, 100, 300), st), kind - 100)
    } else {
        (gen_item::<C>(d, kind, dom), kind)
    };
    let item = item.placed(crate::gen::far_offset(d));
    // clip window: derived from the item's bounding box so that it usually cuts the drawable
    let bb = item.bounding_box();
    let win = {
        let w = bb.size.width.max(1) as i32;
        let h = bb.size.height.max(1) as i32;
        let x0 = bb.top_left.x + d.i(-2, w);
        let y0 = bb.top_left.y + d.i(-2, h);
        Rectangle::new(Point::new(x0, y0), Size::new(d.u(0, w as u32 + 2), d.u(0, h as u32 + 2)))
    };
    let target_box = if d.bool() { win } else { BIG_BOX };
    cx.describe(|| format!("{} clip_window={:?} target_box={:?}", item.desc(), win, target_box));
    cx.class(KIND_NAMES[kind as usize]);
    let k = item.kind();

    // the targets report a small bounding box (the window) in half of the cases, so the drawable is
    // usually partly or fully outside the target; the recorders do not clip, so the complete maps
    // are compared
    let mut a = IterT::<C>::with_box(target_box);
    item.draw(&mut a).map_err(|e| err(k, "draw_iter_only", e))?;
    let mut b = NativeT::<C>::with_box(target_box);
    item.draw(&mut b).map_err(|e| err(k, "draw_native", e))?;
    if let Some(df) = diff_maps("draw() on draw_iter-only target", &a.0.map, "draw() on native-fill target", &b.0.map) {
        return fail(format!("{}:native_vs_iter", k), df);
    }
    let mut c = IterT::<C>::with_box(target_box);
    if let Some(r) = item.draw_pixels(&mut c) {
        r.map_err(|e| err(k, "pixels", e))?;
        if let Some(df) = diff_maps("draw()", &a.0.map, "pixels() via draw_iter", &c.0.map) {
            return fail(format!("{}:pixels_vs_draw", k), df);
        }
    }
    // through a clip window
    let mut ca = IterT::<C>::new();
    item.draw(&mut ca.clipped(&win)).map_err(|e| err(k, "draw_clipped_iter_only", e))?;
    let mut cb = NativeT::<C>::new();
    item.draw(&mut cb.clipped(&win)).map_err(|e| err(k, "draw_clipped_native", e))?;
    let expected: Map<C> = a.0.map.iter().filter(|(&(x, y), _)| win.contains(Point::new(x, y))).map(|(k, v)| (*k, *v)).collect();
    if let Some(df) = diff_maps("draw() restricted to the window", &expected, "draw() through clipped() on draw_iter-only target", &ca.0.map) {
        return fail(format!("{}:clipped_iter", k), df);
    }
    if let Some(df) = diff_maps("draw() restricted to the window", &expected, "draw() through clipped() on native-fill target", &cb.0.map) {
        return fail(format!("{}:clipped_native", k), df);
    }
    let native_calls = b.0.calls.iter().filter(|c| matches!(c, Call::FillSolid(..) | Call::FillContiguous(..))).count();
    cx.nontrivial(a.0.map.len() >= 2 && native_calls >= 1);
    cx.count("native_fill_calls", native_calls as u64);
    cx.count("clipped_cases_cut", u64::from(!expected.is_empty() && expected.len() < a.0.map.len()));
    Ok(())
}


/// Styled primitives of 1025..=3000 px (closed shapes with fitting radii, triangles, lines, strokes to 200)
/// on a row-sampling target: `draw()` with native fills, `draw()` on a draw_iter-only target (trait
/// defaults: O(area) pixels) and `pixels()` through `draw_iter` must leave the same colours on every probe
/// of about 50 sampled rows (run ends of all three routes +-2, box edges, random columns).
fn huge(d: &mut Dec, cx: &mut Cx) -> Res {
    use crate::gen::{self, Shape};
    use embedded_graphics::primitives::{Circle, CornerRadii, Ellipse, Line, RoundedRectangle, Triangle};
    type C = Rgb888;
    let kind = d.u(0, 5);
    let big = |d: &mut Dec| match d.u(0, 2) {
        0 => (d.pick(&[1024u32, 1448, 2048, 2896]) as i32 + d.i(-3, 3)).clamp(1025, 3000) as u32,
        _ => d.u(1025, 3000),
    };
    let (w, h) = match d.u(0, 3) {
        0 => (big(d), d.u(1, 80)),
        1 => (d.u(1, 80), big(d)),
        _ => (big(d), big(d)),
    };
    let tl = if d.bool() { Point::new(-(w as i32) / 2 + d.i(-3, 3), -(h as i32) / 2 + d.i(-3, 3)) } else { Point::new(d.i(-20_000, 20_000), d.i(-20_000, 20_000)) };
    let shape = match kind {
        0 => Shape::Rect(Rectangle::new(tl, Size::new(w, h))),
        1 => Shape::Circle(Circle::new(tl, w)),
        2 => Shape::Ellipse(Ellipse::new(tl, Size::new(w, h))),
        3 => {
            let (l, r) = { let a = d.u(0, w); (a, d.u(0, w - a)) };
            let (tp, bt) = { let a = d.u(0, h); (a, d.u(0, h - a)) };
            Shape::RRect(RoundedRectangle::new(Rectangle::new(tl, Size::new(w, h)), CornerRadii { top_left: Size::new(l, tp), top_right: Size::new(r, tp), bottom_right: Size::new(r, bt), bottom_left: Size::new(l, bt) }))
        }
        4 => {
            // (vertices within +-3000 of the origin)
            let a = Point::new(d.i(-1500, 1500), d.i(-1500, 1500));
            let b = Point::new(d.i(-1500, 1500), d.i(-1500, 1500));
            let c = Point::new(d.i(-1500, 1500), d.i(-1500, 1500));
            let (b, c) = gen::structure_triangle(d, a, b, c);
            Shape::Triangle(Triangle::new(a, Point::new(b.x.clamp(-3000, 3000), b.y.clamp(-3000, 3000)), Point::new(c.x.clamp(-3000, 3000), c.y.clamp(-3000, 3000))))
        }
        _ => Shape::Line(Line::new(tl, tl + Point::new(w as i32 * if d.bool() { 1 } else { -1 }, h as i32))),
    };
    let mut style = gen::style::<C>(d, if kind >= 4 { 20 } else { 200 });
    if kind == 5 && style.stroke_width == 0 {
        style.stroke_width = 1;
    }
    cx.describe(|| format!("{:?} {} [Rgb888]", shape, gen::style_desc(&style)));
    cx.class(shape.kind());
    let item: Item<C> = Item::Styled(shape.clone(), style);
    let bb = item.bounding_box();
    let (y0, y1) = (bb.top_left.y, bb.top_left.y + bb.size.height as i32);
    let mut rows: std::collections::BTreeSet<i32> = Default::default();
    for base in [y0, y1, (y0 + y1) / 2, y0 + style.stroke_width as i32, y1 - style.stroke_width as i32] {
        for k in -2..=2 {
            rows.insert(base + k);
        }
    }
    for _ in 0..24 {
        rows.insert(d.i(y0 - 3, y1 + 3));
    }
    let k = item.kind();
    let mut native = RowsT::<C>::new(rows.iter().copied());
    item.draw(&mut native).map_err(|e| err(k, "draw_native", e))?;
    let mut defaults = IterOnly(RowsT::<C>::new(rows.iter().copied()));
    item.draw(&mut defaults).map_err(|e| err(k, "draw_iter_only", e))?;
    let mut px = RowsT::<C>::new(rows.iter().copied());
    if let Some(r) = item.draw_pixels(&mut px) {
        r.map_err(|e| err(k, "pixels", e))?;
    }
    let (x0, x1) = (bb.top_left.x, bb.top_left.x + bb.size.width as i32);
    let mut painted = 0u64;
    for &y in &rows {
        let mut probes: std::collections::BTreeSet<i32> = Default::default();
        for x in native.run_ends(y).into_iter().chain(defaults.0.run_ends(y).into_iter().take(64)).chain(px.run_ends(y).into_iter().take(64)).chain([x0, x1, (x0 + x1) / 2]) {
            for k in -2..=2 {
                probes.insert(x + k);
            }
        }
        for _ in 0..6 {
            probes.insert(d.i(x0 - 3, x1 + 3));
        }
        for &x in &probes {
            let q = Point::new(x, y);
            let (a, b, c) = (native.color_at(q), defaults.0.color_at(q), px.color_at(q));
            painted += u64::from(a.is_some());
            if a != b {
                return fail(format!("{}:native_vs_iter", k), format!("{:?}: draw() on a native-fill target leaves {:?}, on a draw_iter-only target {:?}", q, a, b));
            }
            if a != c {
                return fail(format!("{}:pixels_vs_draw", k), format!("{:?}: draw() leaves {:?}, pixels() through draw_iter {:?}", q, a, c));
            }
        }
    }
    cx.nontrivial(painted >= 2 && native.fills >= 1);
    Ok(())
}
