//! C01 — one image per drawable, whichever drawing path the target offers.

use crate::engine::*;
use crate::items::*;
use crate::targets::*;
use embedded_graphics::draw_target::DrawTargetExt;
use embedded_graphics::geometry::{Point, Size};
use embedded_graphics::pixelcolor::{BinaryColor, Gray4, Rgb565, Rgb888};
use embedded_graphics::primitives::Rectangle;

pub fn prop() -> Prop {
    Prop {
        id: "C01",
        level: "exploration",
        rule: "proptest tapes decoding to a drawable: one of 8 styled primitives (solid stroke, fill/stroke colour present or absent, width 0..=12 with a tail to 40, three alignments), polyline (0..=6 vertices, optional translate), Image<ImageRaw> / Image<SubImage> (sizes 0..=17, both data orders, nested sub-images, with_center) or Text (random built-in font, colours/decorations, multi-line), positions in [-40,40] (so partly or fully at negative coordinates), colour type cycling through BinaryColor, Gray4, Rgb565, Rgb888. Oracle (differential): pixel map of draw() on a draw_iter-only target == draw() on a native-fill target == pixels() through draw_iter (styled primitives, polylines); additionally both targets through a clipped() window cut out of the drawable's box must agree with the unclipped map restricted to the window. Non-trivial: >= 2 pixels painted and at least one native fill_solid/fill_contiguous call was made on the native target.",
        assumptions: vec![
            "the two reference targets implement the documented meaning of draw_iter / fill_contiguous / fill_solid / clear and never clip",
            "sizes <= 40 (images <= 17), stroke widths <= 40",
        ],
        subs: vec![
            Sub::tape("primitives", 64, 240_000, 12_000_000, |d, cx| run(d, cx, 0)).with_fp(),
            Sub::tape("primitives_large", 64, 3_000, 150_000, |d, cx| run(d, cx, 4)),
            Sub::tape("polylines", 72, 40_000, 2_000_000, |d, cx| run(d, cx, 1)),
            Sub::tape("images", 400, 50_000, 2_500_000, |d, cx| run(d, cx, 2)),
            Sub::tape("text", 300, 40_000, 2_000_000, |d, cx| run(d, cx, 3)),
        ],
    }
}

fn run(d: &mut Dec, cx: &mut Cx, group: u32) -> Res {
    let kind = match group {
        0 => d.u(0, 7),
        4 => 100 + d.u(0, 7),
        1 => 8,
        2 => 9,
        _ => 10,
    };
    match d.u(0, 3) {
        0 => check::<BinaryColor>(d, cx, kind),
        1 => check::<Gray4>(d, cx, kind),
        2 => check::<Rgb565>(d, cx, kind),
        _ => check::<Rgb888>(d, cx, kind),
    }
}

fn err(kind: &str, what: &str, e: Fault) -> Fail {
    Fail { sig: format!("{}:{}_error", kind, what), detail: format!("unexpected error {:?} from a target that never fails", e) }
}

fn check<C: ImgCol>(d: &mut Dec, cx: &mut Cx, kind: u32) -> Res {
    let big = d.ratio(1, 5);
    let dom = ItemDom { r: 40, max: if big { 40 } else { 16 }, max_width: if d.ratio(1, 8) { 40 } else { 12 }, dotted: false, text_len: 12 };
    // kinds >= 100: styled primitives of 100..=300 px (sub-check "primitives_large")
    let (item, kind) = if kind >= 100 {
        let st = crate::gen::style::<C>(d, 40);
        (Item::Styled(crate::gen::large_shape(d, kind - 100, 100, 300), st), kind - 100)
    } else {
        (gen_item::<C>(d, kind, dom), kind)
    };
    let item = item.placed(crate::gen::far_offset(d));
    // clip window: derived from the item's bounding box so that it usually cuts the drawable
    let bb = item.bounding_box();
    let win = {
        let w = bb.size.width.max(1) as i32;
        let h = bb.size.height.max(1) as i32;
        let x0 = bb.top_left.x + d.i(-2, w);
        let y0 = bb.top_left.y + d.i(-2, h);
        Rectangle::new(Point::new(x0, y0), Size::new(d.u(0, w as u32 + 2), d.u(0, h as u32 + 2)))
    };
    let target_box = if d.bool() { win } else { BIG_BOX };
    cx.describe(|| format!("{} clip_window={:?} target_box={:?}", item.desc(), win, target_box));
    cx.class(KIND_NAMES[kind as usize]);
    let k = item.kind();

    // the targets report a small bounding box (the window) in half of the cases, so the drawable is
    // usually partly or fully outside the target; the recorders do not clip, so the complete maps
    // are compared
    let mut a = IterT::<C>::with_box(target_box);
    item.draw(&mut a).map_err(|e| err(k, "draw_iter_only", e))?;
    let mut b = NativeT::<C>::with_box(target_box);
    item.draw(&mut b).map_err(|e| err(k, "draw_native", e))?;
    if let Some(df) = diff_maps("draw() on draw_iter-only target", &a.0.map, "draw() on native-fill target", &b.0.map) {
        return fail(format!("{}:native_vs_iter", k), df);
    }
    let mut c = IterT::<C>::with_box(target_box);
    if let Some(r) = item.draw_pixels(&mut c) {
        r.map_err(|e| err(k, "pixels", e))?;
        if let Some(df) = diff_maps("draw()", &a.0.map, "pixels() via draw_iter", &c.0.map) {
            return fail(format!("{}:pixels_vs_draw", k), df);
        }
    }
    // through a clip window
    let mut ca = IterT::<C>::new();
    item.draw(&mut ca.clipped(&win)).map_err(|e| err(k, "draw_clipped_iter_only", e))?;
    let mut cb = NativeT::<C>::new();
    item.draw(&mut cb.clipped(&win)).map_err(|e| err(k, "draw_clipped_native", e))?;
    let expected: Map<C> = a.0.map.iter().filter(|(&(x, y), _)| win.contains(Point::new(x, y))).map(|(k, v)| (*k, *v)).collect();
    if let Some(df) = diff_maps("draw() restricted to the window", &expected, "draw() through clipped() on draw_iter-only target", &ca.0.map) {
        return fail(format!("{}:clipped_iter", k), df);
    }
    if let Some(df) = diff_maps("draw() restricted to the window", &expected, "draw() through clipped() on native-fill target", &cb.0.map) {
        return fail(format!("{}:clipped_native", k), df);
    }
    let native_calls = b.0.calls.iter().filter(|c| matches!(c, Call::FillSolid(..) | Call::FillContiguous(..))).count();
    cx.nontrivial(a.0.map.len() >= 2 && native_calls >= 1);
    cx.count("native_fill_calls", native_calls as u64);
    cx.count("clipped_cases_cut", u64::from(!expected.is_empty() && expected.len() < a.0.map.len()));
    Ok(())
}
