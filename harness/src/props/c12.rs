//! C12 — colours survive the trip through their raw representation.

use crate::engine::*;
use embedded_graphics::pixelcolor::{
    raw::{RawData, RawU1, RawU16, RawU2, RawU24, RawU4, RawU8, ToBytes},
    Bgr555, Bgr565, Bgr666, Bgr888, BinaryColor, Gray2, Gray4, Gray8, GrayColor, IntoStorage,
    PixelColor, Rgb332, Rgb444, Rgb555, Rgb565, Rgb666, Rgb888, RgbColor,
};

pub fn prop() -> Prop {
    Prop {
        id: "C12",
        level: "exploration",
        rule: "complete enumeration of every value of each colour type's raw storage type (u8/u16 fully; the four 24-bit types: all 2^24 masked values plus the same number with pseudo-random unused high bits in the thorough tier, a 2^20-value stride plus boundary values in the quick tier) and of every (r,g,b) argument class of new(). Oracle: round-trip colour->raw->colour, raw->colour->raw idempotence equal to raw & documented mask, documented bit layout computed independently from the channel widths, byte-order functions describing one value. Non-trivial: at least two channels non-zero (RGB) / luma neither 0 nor max (gray). Enumeration items are distinct by construction.",
        assumptions: vec![
            "the documented layout is: RGB types carry red in the most significant used bits, then green, then blue; BGR types the reverse",
            "24-bit types in the quick tier are strided (every 16th value plus all values with <= 2 bits set/cleared), complete in the thorough tier",
        ],
        subs: vec![
            Sub::enumerate("binary_gray", binary_gray),
            Sub::enumerate("rgb332", |ex| rgb::<Rgb332, RawU8>(ex, 8, 8, (3, 3, 2), true)),
            Sub::enumerate("rgb444", |ex| rgb::<Rgb444, RawU16>(ex, 16, 16, (4, 4, 4), true)),
            Sub::enumerate("rgb555", |ex| rgb::<Rgb555, RawU16>(ex, 16, 16, (5, 5, 5), true)),
            Sub::enumerate("bgr555", |ex| rgb::<Bgr555, RawU16>(ex, 16, 16, (5, 5, 5), false)),
            Sub::enumerate("rgb565", |ex| rgb::<Rgb565, RawU16>(ex, 16, 16, (5, 6, 5), true)),
            Sub::enumerate("bgr565", |ex| rgb::<Bgr565, RawU16>(ex, 16, 16, (5, 6, 5), false)),
            Sub::enumerate("rgb666", |ex| rgb::<Rgb666, RawU24>(ex, 24, 32, (6, 6, 6), true)),
            Sub::enumerate("bgr666", |ex| rgb::<Bgr666, RawU24>(ex, 24, 32, (6, 6, 6), false)),
            Sub::enumerate("rgb888", |ex| rgb::<Rgb888, RawU24>(ex, 24, 32, (8, 8, 8), true)),
            Sub::enumerate("bgr888", |ex| rgb::<Bgr888, RawU24>(ex, 24, 32, (8, 8, 8), false)),
            Sub::enumerate("new_masks_channels", new_masks),
            Sub::enumerate("raw_from_u32", raw_from_u32),
        ],
    }
}

fn be_value(bytes: &[u8]) -> u64 {
    bytes.iter().fold(0u64, |a, b| a << 8 | *b as u64)
}
fn le_value(bytes: &[u8]) -> u64 {
    bytes.iter().rev().fold(0u64, |a, b| a << 8 | *b as u64)
}

trait RawNew: RawData {
    fn mk(v: u32) -> Self;
    /// through `From<Storage>` instead of `new`
    fn mk_from(v: u32) -> Self;
    fn get(self) -> u64;
}
macro_rules! rawnew {
    ($($t:ident),+) => { $(impl RawNew for $t {
        fn mk(v: u32) -> Self { $t::new(v as _) }
        fn mk_from(v: u32) -> Self { $t::from(v as <$t as RawData>::Storage) }
        fn get(self) -> u64 { self.into_inner() as u64 }
    })+ };
}
rawnew!(RawU1, RawU2, RawU4, RawU8, RawU16, RawU24);

trait RgbNew {
    fn mk_rgb(r: u8, g: u8, b: u8) -> Self;
}
macro_rules! rgbnew {
    ($($t:ident),+) => { $(impl RgbNew for $t {
        fn mk_rgb(r: u8, g: u8, b: u8) -> Self { $t::new(r, g, b) }
    })+ };
}
rgbnew!(Rgb332, Rgb444, Rgb555, Bgr555, Rgb565, Bgr565, Rgb666, Bgr666, Rgb888, Bgr888);

/// Check one storage value of an RGB type.
#[allow(clippy::too_many_arguments)]
fn rgb_value<C, R>(v: u32, bpp: u32, bits: (u32, u32, u32), rgb_order: bool) -> Result<bool, Fail>
where
    C: RgbColor + RgbNew + PixelColor<Raw = R> + From<R> + Into<R> + IntoStorage + core::fmt::Debug + ToBytes,
    R: RawNew + Copy + PartialEq + core::fmt::Debug,
    <R as ToBytes>::Bytes: AsRef<[u8]>,
    <C as ToBytes>::Bytes: AsRef<[u8]>,
    <C as IntoStorage>::Storage: Into<u64>,
{
    let (rb, gb, bb) = bits;
    let used = rb + gb + bb;
    let raw = R::mk(v);
    let raw_val = raw.get();
    let bpp_mask: u64 = if bpp >= 32 { u32::MAX as u64 } else { (1u64 << bpp) - 1 };
    if raw_val != v as u64 & bpp_mask {
        return fail("raw_new_mask", format!("raw new({:#x}) holds {:#x}", v, raw_val));
    }
    let raw_f = R::mk_from(v);
    if raw_f != raw || raw_f.get() != raw_val || be_value(raw_f.to_be_bytes().as_ref()) != raw_val || le_value(raw_f.to_le_bytes().as_ref()) != raw_val {
        return fail("raw_from_storage", format!("raw From::from({:#x}) holds {:#x} (bytes {:?}), new() holds {:#x}", v, raw_f.get(), raw_f.to_be_bytes().as_ref(), raw_val));
    }
    let c = C::from(raw);
    let back: R = c.into();
    let b = back.get();
    // fits in BITS_PER_PIXEL and only unused bits are cleared
    let used_mask = (1u64 << used) - 1;
    if b >= (1u64 << R::BITS_PER_PIXEL) || R::BITS_PER_PIXEL as u32 != bpp {
        return fail("raw_too_wide", format!("{:?} -> raw {:#x} does not fit {} bits", c, b, bpp));
    }
    if b != raw_val & used_mask {
        return fail("raw_colour_raw", format!("raw {:#x} -> {:?} -> raw {:#x}, expected {:#x}", raw_val, c, b, raw_val & used_mask));
    }
    // colour -> raw -> colour identity, idempotence
    let c2 = C::from(back);
    let back2: R = c2.into();
    if c2 != c || back2.get() != b {
        return fail("roundtrip", format!("{:?} -> raw {:#x} -> {:?} -> raw {:#x}", c, b, c2, back2.get()));
    }
    // channels and documented layout
    let (r, g, bl) = (c.r() as u64, c.g() as u64, c.b() as u64);
    let exp = if rgb_order {
        (r << (gb + bb)) | (g << bb) | bl
    } else {
        (bl << (gb + rb)) | (g << rb) | r
    };
    if r > C::MAX_R as u64 || g > C::MAX_G as u64 || bl > C::MAX_B as u64 || exp != b {
        return fail("layout", format!("{:?} raw {:#x}: channels ({}, {}, {}) give {:#x} in the documented layout", c, b, r, g, bl, exp));
    }
    let c3 = C::mk_rgb(r as u8, g as u8, bl as u8);
    if c3 != c {
        return fail("new_from_channels", format!("new({}, {}, {}) = {:?} != {:?}", r, g, bl, c3, c));
    }
    // storage and bytes
    let st: u64 = c.into_storage().into();
    if st != b {
        return fail("into_storage", format!("{:?}.into_storage() = {:#x}, raw {:#x}", c, st, b));
    }
    let (be, le, ne) = (back.to_be_bytes(), back.to_le_bytes(), back.to_ne_bytes());
    let nbytes = (bpp as usize + 7) / 8;
    if be.as_ref().len() != nbytes || be_value(be.as_ref()) != b || le_value(le.as_ref()) != b {
        return fail("to_bytes", format!("raw {:#x}: be {:?} le {:?}", b, be.as_ref(), le.as_ref()));
    }
    let ne_ok = if cfg!(target_endian = "little") { ne.as_ref() == le.as_ref() } else { ne.as_ref() == be.as_ref() };
    if !ne_ok {
        return fail("to_ne_bytes", format!("raw {:#x}: ne {:?}", b, ne.as_ref()));
    }
    let (cbe, cle, cne) = (c.to_be_bytes(), c.to_le_bytes(), c.to_ne_bytes());
    if cbe.as_ref() != be.as_ref() || cle.as_ref() != le.as_ref() || cne.as_ref() != ne.as_ref() {
        return fail("colour_to_bytes", format!("{:?}: colour bytes differ from raw bytes", c));
    }
    let nz = u32::from(r != 0) + u32::from(g != 0) + u32::from(bl != 0);
    Ok(nz >= 2)
}

fn rgb<C, R>(ex: &Ex, bpp: u32, storage_bits: u32, bits: (u32, u32, u32), rgb_order: bool)
where
    C: RgbColor + RgbNew + PixelColor<Raw = R> + From<R> + Into<R> + IntoStorage + core::fmt::Debug + ToBytes,
    R: RawNew + Copy + PartialEq + core::fmt::Debug,
    <R as ToBytes>::Bytes: AsRef<[u8]>,
    <C as ToBytes>::Bytes: AsRef<[u8]>,
    <C as IntoStorage>::Storage: Into<u64>,
{
    // values enumerated: index space [0, 2^k); for 32-bit storage a second pass sets high bits
    let passes: u64 = if storage_bits > bpp { 2 } else { 1 };
    let stride: u64 = if bpp == 24 && ex.tier == Tier::Quick { 16 } else { 1 };
    if stride != 1 {
        ex.incomplete();
    }
    let total: u64 = (1u64 << bpp) / stride;
    let chunk: u64 = 4096;
    let nchunks = (total + chunk - 1) / chunk;
    ex.par(nchunks * passes, |ci| {
        let pass = ci / nchunks;
        let c0 = (ci % nchunks) * chunk;
        let mut nt = 0;
        let mut n = 0;
        for k in c0..(c0 + chunk).min(total) {
            let base = (k * stride + if stride > 1 { k % stride } else { 0 }) as u32;
            let v = if pass == 0 {
                base
            } else {
                // pseudo-random unused high bits
                let hi = (base.wrapping_mul(0x9E3779B1) >> 24) | 1;
                base | hi << bpp
            };
            n += 1;
            match rgb_value::<C, R>(v, bpp, bits, rgb_order) {
                Ok(true) => nt += 1,
                Ok(false) => {}
                Err(f) => ex.fail(ci * chunk + k, f.sig, f.detail, format!("storage value {:#x}", v)),
            }
            if k == 0x1234 / stride {
                ex.sample(|| format!("storage value {:#x} -> {:?}", v, C::from(R::mk(v))));
            }
        }
        ex.add(n, nt);
    });
    if stride != 1 {
        // boundary values: every value with at most two bits set or cleared within the 32/24 bits
        let mut n = 0;
        for i in 0..storage_bits {
            for j in 0..storage_bits {
                for inv in [false, true] {
                    let mut v: u32 = (1u32 << i) | (1u32 << j);
                    if inv {
                        v = !v;
                    }
                    n += 1;
                    if let Err(f) = rgb_value::<C, R>(v, bpp, bits, rgb_order) {
                        ex.fail(u64::MAX / 2 + n, f.sig, f.detail, format!("storage value {:#x}", v));
                    }
                }
            }
        }
        ex.add(n, n / 2);
    }
}

fn new_masks(ex: &Ex) {
    // new(r, g, b) keeps each channel modulo its width; all 2^24 argument triples in the thorough
    // tier, all r x boundary g, b classes in the quick tier
    macro_rules! t {
        ($($t:ident),+) => { $(
            {
                let gs: Vec<u8> = if ex.tier == Tier::Thorough { (0..=255).collect() } else { vec![0, 1, 3, 4, 7, 8, 15, 16, 31, 32, 63, 64, 127, 128, 254, 255] };
                let bs = gs.clone();
                let gs = &gs; let bs = &bs;
                ex.par(256, |r| {
                    let r = r as u8;
                    let mut nt = 0;
                    for &g in gs { for &b in bs {
                        let c = $t::new(r, g, b);
                        if c.r() != r & $t::MAX_R || c.g() != g & $t::MAX_G || c.b() != b & $t::MAX_B {
                            ex.fail(r as u64, "new_masks", format!("{}::new({}, {}, {}) = {:?}", stringify!($t), r, g, b, c), format!("{}::new({}, {}, {})", stringify!($t), r, g, b));
                        }
                        if (r > $t::MAX_R) as u8 + (g > $t::MAX_G) as u8 + (b > $t::MAX_B) as u8 >= 1 { nt += 1; }
                    }}
                    ex.add((gs.len() * bs.len()) as u64, nt);
                });
                ex.sample(|| format!("{}::new(r, g, b) for r in 0..=255, g, b in {} values each", stringify!($t), gs.len()));
            }
        )+ };
    }
    if ex.tier == Tier::Quick {
        ex.incomplete();
    }
    t!(Rgb332, Rgb444, Rgb555, Bgr555, Rgb565, Bgr565, Rgb666, Bgr666, Rgb888, Bgr888);
}

fn binary_gray(ex: &Ex) {
    let mut idx = 0u64;
    // BinaryColor
    for v in 0..=255u32 {
        idx += 1;
        let raw = RawU1::new(v as u8);
        let c = BinaryColor::from(raw);
        let back: RawU1 = c.into();
        let ok = raw.into_inner() == (v & 1) as u8
            && back.into_inner() == (v & 1) as u8
            && c == if v & 1 == 1 { BinaryColor::On } else { BinaryColor::Off }
            && c.is_on() == (v & 1 == 1)
            && c.into_storage() == (v & 1) as u8
            && c.to_be_bytes() == [(v & 1) as u8]
            && c.to_le_bytes() == [(v & 1) as u8]
            && c.to_ne_bytes() == [(v & 1) as u8]
            && BinaryColor::from(back) == c;
        if !ok {
            ex.fail(idx, "binary", format!("BinaryColor from raw {:#x}: {:?} -> {:?}", v, c, back), format!("raw {:#x}", v));
        }
    }
    ex.add(256, 128);
    ex.sample(|| "BinaryColor: every u8 storage value".to_string());
    macro_rules! gray {
        ($t:ident, $raw:ident, $bits:expr) => {{
            let max: u32 = (1 << $bits) - 1;
            for v in 0..=255u32 {
                idx += 1;
                let raw = $raw::new(v as u8);
                let c = $t::from(raw);
                let back: $raw = c.into();
                let m = (v & max) as u8;
                let c_new = $t::new(v as u8);
                let ok = raw.into_inner() == m
                    && back.into_inner() == m
                    && c.luma() == m
                    && c_new == c
                    && c_new.luma() == m
                    && c.into_storage() == m
                    && c.to_be_bytes() == [m]
                    && c.to_le_bytes() == [m]
                    && c.to_ne_bytes() == [m]
                    && $t::from(back) == c
                    && ($raw::BITS_PER_PIXEL == $bits);
                if !ok {
                    ex.fail(idx, "gray", format!("{} from {:#x}: {:?} luma {} raw {:#x}", stringify!($t), v, c, c.luma(), back.into_inner()), format!("{} value {:#x}", stringify!($t), v));
                }
            }
            ex.add(256, 256 - 2 * (256 / (max as u64 + 1)));
            ex.sample(|| format!("{}: every u8 storage value and every new(luma)", stringify!($t)));
        }};
    }
    gray!(Gray2, RawU2, 2);
    gray!(Gray4, RawU4, 4);
    gray!(Gray8, RawU8, 8);
    if Gray8::BLACK.luma() != 0 || Gray8::WHITE.luma() != 255 || Gray4::WHITE.luma() != 15 || Gray2::WHITE.luma() != 3 {
        ex.fail(idx + 1, "gray_constants", "BLACK/WHITE constants", "constants");
    }
}


/// `RawData::from_u32` (documented: only the least significant bits are used) and the other ways into a raw
/// value, for all seven raw types: every low part up to 12 bits x 64 high parts placed at every bit
/// position above the width.
fn raw_from_u32(ex: &Ex) {
    use embedded_graphics::pixelcolor::raw::{RawData, RawU1, RawU2, RawU32, RawU4};
    ex.par(7, |i| {
        let (mut n, mut nt) = (0u64, 0u64);
        macro_rules! go {
            ($r:ty, $bpp:expr, $st:ty) => {{
                let bpp: u32 = $bpp;
                let mask: u32 = if bpp == 32 { u32::MAX } else { (1u32 << bpp) - 1 };
                for low in 0..(1u32 << bpp.min(12)) {
                    // spread the low part over the width
                    let low = if bpp > 12 { low.wrapping_mul(0x9E37_79B1) & mask } else { low };
                    for hi in 0..64u32 {
                        for shift in bpp..32 {
                            let v = low | (hi.wrapping_mul(0x85EB_CA6B) << shift);
                            n += 1;
                            nt += u64::from(v > mask);
                            let got: u32 = <$r>::from_u32(v).into_inner().into();
                            if got != v & mask {
                                ex.fail(i * 1_000_000 + low as u64, String::from("raw:from_u32"), format!("from_u32({:#x}).into_inner() = {:#x}, the {} least significant bits are {:#x}", v, got, bpp, v & mask), format!("{} bit raw type", bpp));
                                return;
                            }
                            // the other two ways to make a raw value from its storage integer: `new` and `From<Storage>`
                            let st = v as $st;
                            let exp = (st as u32) & mask;
                            let by_new: u32 = <$r>::new(st).into_inner().into();
                            let by_from: u32 = <$r>::from(st).into_inner().into();
                            let by_into: u32 = { let r: $r = st.into(); r.into_inner().into() };
                            if by_new != exp || by_from != exp || by_into != exp || <$r>::from(st) != <$r>::new(st) {
                                ex.fail(i * 1_000_000 + low as u64, String::from("raw:from_storage"), format!("storage value {:#x}: new().into_inner() = {:#x}, From::from().into_inner() = {:#x}, .into() = {:#x}, the {} least significant bits are {:#x}", st, by_new, by_from, by_into, bpp, exp), format!("{} bit raw type", bpp));
                                return;
                            }
                        }
                        if bpp == 32 {
                            n += 1;
                            let v = low ^ hi.wrapping_mul(0x85EB_CA6B);
                            let got: u32 = <$r>::from_u32(v).into_inner().into();
                            if got != v {
                                ex.fail(i * 1_000_000 + low as u64, String::from("raw:from_u32"), format!("from_u32({:#x}).into_inner() = {:#x}", v, got), String::from("32 bit raw type"));
                                return;
                            }
                        }
                    }
                }
            }};
        }
        match i {
            0 => go!(RawU1, 1, u8),
            1 => go!(RawU2, 2, u8),
            2 => go!(RawU4, 4, u8),
            3 => go!(RawU8, 8, u8),
            4 => go!(RawU16, 16, u16),
            5 => go!(RawU24, 24, u32),
            _ => go!(RawU32, 32, u32),
        }
        ex.add(n, nt);
        ex.sample(|| format!("raw type {}: {} values, {} of them wider than the type", i, n, nt));
    });
}
