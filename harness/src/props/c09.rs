//! C09 — raw images and sub-images reproduce their pixel data exactly.

use crate::engine::*;
use crate::ensure;
use crate::props::c11::ref_load;
use crate::targets::*;
use embedded_graphics::{
    geometry::{Dimensions, OriginDimensions, Point, Size},
    image::{GetPixel, Image, ImageDrawableExt, ImageRaw},
    pixelcolor::{
        raw::{BigEndianLsb0, DataOrder, LittleEndianMsb0, RawData, RawU32},
        BinaryColor, Gray2, Gray4, Gray8, PixelColor, Rgb565, Rgb888,
    },
    primitives::{PointsIter, Rectangle},
    Drawable,
};

pub fn prop() -> Prop {
    Prop {
        id: "C09",
        level: "exploration",
        rule: "proptest tapes decoding to: colour type (BinaryColor, Gray2, Gray4, Gray8, Rgb565, Rgb888, a 32-bit test colour) x data order (LittleEndianMsb0, BigEndianLsb0) x width, height in 0..=17 (all residues of the width modulo the pixels per byte; one case in eight a strip with a side of 246..=600 px) x random bytes x draw offset in [-9,9]^2 x up to two nested sub-image areas (inside, overlapping, outside, zero-sized) x Image::new / Image::with_center. Oracle: an independent bit-level reader of the documented layout (rows padded to whole bytes; little-endian bytes + MSB-first sub-byte pixels or big-endian bytes + LSB-first) -- ImageRaw::new accepts exactly ceil(w*bpp/8)*h bytes; pixel(p) equals the reference inside and is None on a ring outside; drawing to a draw_iter-only and to a native-fill target sets exactly offset + p -> reference(p) and nothing else; every colour stream handed to fill_contiguous contains exactly area.width x area.height colours when drained; a sub-image behaves like the reference restricted to area intersected with the parent box, nested sub-images compose; with_center centres by the rule of Rectangle::with_center. Non-trivial: the width is not a multiple of the pixels per byte, or a sub-image that does not touch the last row of its parent (data follows its last row).",
        assumptions: vec![
            "the reference layout reader is written from the rustdoc of ImageRaw and of the two DataOrder types",
        ],
        subs: vec![Sub::tape("images", 48, 400_000, 20_000_000, images)],
    }
}

/// 32-bit test colour.
#[derive(Copy, Clone, Eq, PartialEq, Debug)]
pub struct C32(pub RawU32);
impl PixelColor for C32 {
    type Raw = RawU32;
}
impl From<RawU32> for C32 {
    fn from(r: RawU32) -> Self {
        C32(r)
    }
}
impl From<C32> for RawU32 {
    fn from(c: C32) -> Self {
        c.0
    }
}

fn images(d: &mut Dec, cx: &mut Cx) -> Res {
    let combo = d.u(0, 13);
    let be = combo % 2 == 1;
    macro_rules! go {
        ($c:ty) => {
            if be {
                case::<$c, BigEndianLsb0>(d, cx, true)
            } else {
                case::<$c, LittleEndianMsb0>(d, cx, false)
            }
        };
    }
    match combo / 2 {
        0 => go!(BinaryColor),
        1 => go!(Gray2),
        2 => go!(Gray4),
        3 => go!(Gray8),
        4 => go!(Rgb565),
        5 => go!(Rgb888),
        _ => go!(C32),
    }
}

fn case<C, O>(d: &mut Dec, cx: &mut Cx, be: bool) -> Res
where
    C: PixelColor + core::fmt::Debug,
    O: DataOrder,
{
    let bpp = C::Raw::BITS_PER_PIXEL as u32;
    // mostly small images (all residues of the width modulo the pixels per byte); one case in eight
    // is a long strip (a side up to 600 px: truncating casts, byte offsets beyond 255 / 65535)
    // auxiliary word 5: one case in 400 is a strip whose long side is 65530..=65600 px (u16 limits)
    let huge = d.aux_u(5, 0, 399) == 399;
    let (w, h) = match (huge, d.u(0, 7)) {
        (true, k) => {
            let long = 65_530 + d.aux_u(6, 0, 70);
            if k % 2 == 0 { (long, 2 + d.aux_u(7, 0, 1)) } else { (1 + d.aux_u(7, 0, 1), long) }
        }
        (_, 0) => {
            let long = d.pick(&[255u32, 256, 257, 300, 511, 513, 600]) - d.u(0, 9);
            let short = d.u(1, 5);
            if d.bool() { (long, short) } else { (short, long) }
        }
        _ => (d.u(0, 17), d.u(0, 17)),
    };
    let stride = (w as usize * bpp as usize + 7) / 8;
    let n = stride * h as usize;
    let mut x = d.raw() | 1;
    // auxiliary word 3: one image in 16 is uniform (a constant byte: 0x00, 0xff, 0xaa or anything)
    let mode = if d.aux_u(3, 0, 15) == 15 { 3 } else { d.u(0, 2) };
    let uniform = [0x00u8, 0xff, 0xaa, x as u8][(x >> 9) as usize % 4];
    let data: Vec<u8> = (0..n)
        .map(|i| match mode {
            0 => {
                x ^= x << 13;
                x ^= x >> 17;
                x ^= x << 5;
                x as u8
            }
            // (the i >> 8 and i >> 16 terms break the period of 256 bytes: data displaced by 256 or 65536 bytes differs)
            1 => (i as u32).wrapping_mul(29).wrapping_add((i as u32 >> 8).wrapping_mul(7)).wrapping_add((i as u32 >> 16).wrapping_mul(3)).wrapping_add(x) as u8,
            2 => ((i as u32).wrapping_add(x) % 251) as u8 ^ 0x5a,
            _ => uniform,
        })
        .collect();
    let offset = Point::new(d.i(-9, 9), d.i(-9, 9)) + crate::gen::far_offset(d);
    let centered = d.ratio(1, 5);
    let nsub = match d.u(0, 4) {
        0 | 1 => 0,
        2 | 3 => 1,
        _ => 2,
    };
    let mut subs: Vec<Rectangle> = vec![];
    let mut cur = Size::new(w, h);
    for _ in 0..nsub {
        let a = match d.u(0, 3) {
            0 | 1 => {
                let sw = d.u(0, cur.width);
                let sh = d.u(0, cur.height);
                // sub-images of the 65536-px strips are narrow, so that more than 65535 pixels are skipped per row
                let (sw, sh) = if huge { (if cur.width > 1000 { sw % 41 } else { sw }, if cur.height > 1000 { sh % 41 } else { sh }) } else { (sw, sh) };
                Rectangle::new(Point::new(d.u(0, cur.width - sw) as i32, d.u(0, cur.height - sh) as i32), Size::new(sw, sh))
            }
            _ => Rectangle::new(Point::new(d.i(-3, cur.width as i32 + 2), d.i(-3, cur.height as i32 + 2)), Size::new(d.u(0, cur.width + 3), d.u(0, cur.height + 3))),
        };
        cur = Rectangle::new(Point::zero(), cur).intersection(&a).size;
        subs.push(a);
    }
    cx.describe(|| {
        format!(
            "ImageRaw<{} bit, {}> {}x{} data {:02x?} offset {:?} centered {} sub-image areas {:?}",
            bpp,
            if be { "BigEndianLsb0" } else { "LittleEndianMsb0" },
            w,
            h,
            &data[..data.len().min(40)],
            offset,
            centered,
            subs
        )
    });
    cx.class(match bpp {
        1 | 2 | 4 => "sub_byte",
        8 => "byte",
        _ => "multi_byte",
    });
    let reference = |p: Point| -> Option<C> {
        if p.x < 0 || p.y < 0 || p.x >= w as i32 || p.y >= h as i32 {
            return None;
        }
        let row = &data[p.y as usize * stride..(p.y as usize + 1) * stride];
        ref_load(row, bpp, be, p.x as usize).map(|v| C::from(C::Raw::from_u32(v)))
    };

    // 1. new() accepts exactly the required length
    for len in [n.saturating_sub(1), n, n + 1, n + stride.max(1), 0] {
        let buf = vec![0u8; len];
        let r = ImageRaw::<C, O>::new(&buf, Size::new(w, h));
        ensure!(r.is_ok() == (len == n), "new:length", "ImageRaw::new with {} bytes for {}x{} at {} bpp returned {:?}, required length is {}", len, w, h, bpp, r.map(|_| ()), n);
    }
    let raw = ImageRaw::<C, O>::new(&data, Size::new(w, h)).map_err(|e| Fail { sig: "new:rejects_exact_length".into(), detail: format!("{:?}", e) })?;
    // `new_const` is the same constructor for data of the right length
    let raw_const = ImageRaw::<C, O>::new_const(&data, Size::new(w, h));
    ensure!(raw_const.size() == raw.size(), "new_const", "new_const(..) has size {:?}, new(..) {:?}", raw_const.size(), raw.size());
    let raw = if d.aux_u(4, 0, 3) == 3 { raw_const } else { raw };
    ensure!(raw.size() == Size::new(w, h), "size", "size() = {:?}", raw.size());

    // 2. pixel()
    for y in -2..h as i32 + 2 {
        for x in -2..w as i32 + 2 {
            let p = Point::new(x, y);
            let (got, exp) = (raw.pixel(p), reference(p));
            ensure!(got == exp, if exp.is_some() { "pixel:value" } else { "pixel:outside" }, "pixel({:?}) = {:?}, documented layout gives {:?}", p, got, exp);
        }
    }
    for p in [Point::new(i32::MIN, 0), Point::new(0, i32::MAX), Point::new(i32::MAX, i32::MAX), Point::new(-1, -1), Point::new(w as i32, 0), Point::new(0, h as i32)] {
        ensure!(raw.pixel(p).is_none(), "pixel:outside", "pixel({:?}) is not None", p);
    }

    // 2b. the drawable traits of the raw image itself: its bounding box sits at the origin, and drawing it
    // directly (`ImageDrawable::draw`, what `Image` calls through a translated target) puts pixel (x, y) at (x, y)
    ensure!(raw.bounding_box() == Rectangle::new(Point::zero(), Size::new(w, h)), "raw:bounding_box", "ImageRaw::bounding_box() = {:?} for a {}x{} image", raw.bounding_box(), w, h);
    if (w as u64) * (h as u64) <= 4096 {
        let mut direct = NativeT::<C>::new();
        direct.0.log = false;
        embedded_graphics::image::ImageDrawable::draw(&raw, &mut direct).map_err(|e| Fail { sig: "draw_error".into(), detail: format!("{:?}", e) })?;
        for (&(x, y), c) in direct.0.map.iter() {
            ensure!(reference(Point::new(x, y)) == Some(*c), "raw:direct_draw", "ImageDrawable::draw puts {:?} at ({}, {}), the documented layout has {:?} there", c, x, y, reference(Point::new(x, y)));
        }
        ensure!(direct.0.map.len() as u64 == w as u64 * h as u64, "raw:direct_draw_count", "ImageDrawable::draw paints {} points of a {}x{} image", direct.0.map.len(), w, h);
    }

    // 3./4. drawing: the image itself or a (nested) sub-image
    // area of the drawn part in the coordinates of the raw image, by composition
    let mut area = Rectangle::new(Point::zero(), Size::new(w, h));
    for s in &subs {
        // a sub-image area is given in the coordinates of its parent (whose origin is area.top_left)
        let local = Rectangle::new(Point::zero(), area.size).intersection(s);
        area = Rectangle::new(area.top_left + local.top_left, local.size);
    }
    let draw_size = area.size;
    let position = if centered {
        // Rectangle::with_center rule: top_left = center - (size - 1) / 2 (size 0 counts as ... see doc)
        Rectangle::with_center(offset, draw_size).top_left
    } else {
        offset
    };
    let mut expected: Map<C> = Map::new();
    for p in Rectangle::new(Point::zero(), draw_size).points() {
        let src = area.top_left + p;
        let c = reference(src).ok_or_else(|| Fail { sig: "harness:reference_outside".into(), detail: format!("reference has no pixel at {:?}", src) })?;
        expected.insert((position.x + p.x, position.y + p.y), c);
    }
    let mut native = NativeT::<C>::new();
    let mut iter_only = IterT::<C>::new();
    // third target flavour: a driver with a visible window that advances the colour stream with `nth`
    // over everything it does not show (whole hidden rows in a single call)
    let win = {
        let (w, h) = (draw_size.width as i32, draw_size.height as i32);
        let (x0, y0) = (d.aux_i(5, 0, w.min(40)).abs(), d.aux_i(6, 0, h.min(40)).abs());
        Rectangle::new(position + Point::new(x0, y0), Size::new(d.aux_u(7, 0, 12), 1 + d.aux_u(4, 0, 12)))
    };
    let mut skipping = SkipT::<C> { window: win, map: Map::new(), mode: d.derived(0x5c1b, 4) as u8, drained: vec![] };
    macro_rules! draw_both {
        ($drawable:expr) => {{
            // derived choice: a third of the images are created somewhere else and moved to the offset with
            // `translate` / `translate_mut` (an image "at offset o", whichever way the offset was reached)
            let route = d.derived(0x7a51, 6);
            let by = if route >= 4 { Point::new(d.derived(0x7a52, 41) as i32 - 20, d.derived(0x7a53, 61) as i32 - 30) } else { Point::zero() };
            let start = offset - by;
            let img0 = if centered { Image::with_center($drawable, start) } else { Image::new($drawable, start) };
            let img = match route {
                4 => {
                    use embedded_graphics::transform::Transform;
                    img0.translate(by)
                }
                5 => {
                    use embedded_graphics::transform::Transform;
                    let mut i = img0;
                    i.translate_mut(by);
                    i
                }
                _ => img0,
            };
            ensure!(img.bounding_box() == Rectangle::new(position, draw_size), "image:bounding_box", "bounding_box() = {:?}, expected {:?}", img.bounding_box(), Rectangle::new(position, draw_size));
            img.draw(&mut native).map_err(|e| Fail { sig: "draw_error".into(), detail: format!("{:?}", e) })?;
            img.draw(&mut iter_only).map_err(|e| Fail { sig: "draw_error".into(), detail: format!("{:?}", e) })?;
            img.draw(&mut skipping).unwrap();
        }};
    }
    match subs.len() {
        0 => draw_both!(&raw),
        1 => {
            let s1 = raw.sub_image(&subs[0]);
            ensure!(s1.size() == draw_size, "sub_image:size", "sub_image size {:?}, expected {:?}", s1.size(), draw_size);
            ensure!(s1.bounding_box() == Rectangle::new(Point::zero(), draw_size), "sub_image:bounding_box", "sub_image bounding_box() = {:?}, expected the size {:?} at the origin", s1.bounding_box(), draw_size);
            draw_both!(&s1)
        }
        _ => {
            let s1 = raw.sub_image(&subs[0]);
            let s2 = s1.sub_image(&subs[1]);
            ensure!(s2.size() == draw_size, "sub_image:size", "nested sub_image size {:?}, expected {:?}", s2.size(), draw_size);
            draw_both!(&s2)
        }
    }
    let what = if subs.is_empty() { "image" } else { "sub_image" };
    if let Some(df) = diff_maps("documented layout", &expected, "draw() on native-fill target", &native.0.map) {
        return fail(format!("{}:pixels_native", what), df);
    }
    if let Some(df) = diff_maps("documented layout", &expected, "draw() on draw_iter-only target", &iter_only.0.map) {
        return fail(format!("{}:pixels_iter_only", what), df);
    }
    let expected_win: Map<C> = expected.iter().filter(|(k, _)| win.contains(Point::new(k.0, k.1))).map(|(k, v)| (*k, *v)).collect();
    if let Some(df) = diff_maps("documented layout restricted to the window", &expected_win, &format!("draw() on a target that skips hidden colours with nth (window {:?})", win), &skipping.map) {
        return fail(format!("{}:pixels_skipping_target", what), df);
    }
    for (got, want) in &skipping.drained {
        ensure!(got == want, format!("{}:stream_length", what), "a colour stream handed to fill_contiguous yields {} colours in all (counted by a target that skips with nth and then consumes the rest by value, mode {}), the area has {}", got, skipping.mode, want);
    }
    for c in &native.0.calls {
        if let Call::FillContiguous(a, colors) = c {
            let want = a.size.width as usize * a.size.height as usize;
            ensure!(colors.len() == want, format!("{}:stream_length", what), "the colour stream handed to fill_contiguous for area {:?} yields {} colours when drained, expected {}", a, colors.len(), want);
        }
    }
    let ppb = if bpp < 8 { 8 / bpp } else { 1 };
    let data_follows = !subs.is_empty() && draw_size.width > 0 && draw_size.height > 0 && (area.top_left.y as u32 + draw_size.height) < h;
    cx.nontrivial((w % ppb != 0 && w > 0 && h > 0) || data_follows);
    cx.count("sub_image_with_data_after_last_row", u64::from(data_follows));
    Ok(())
}


/// A target with a visible window: `fill_contiguous` stores the colours that fall into the window and
/// advances the stream with `Iterator::nth` over all others (one call per hidden stretch, which may
/// span several rows), `draw_iter` filters by the window.
pub struct SkipT<C> {
    pub window: Rectangle,
    pub map: Map<C>,
    /// How the stream is consumed: 0 = `nth` over hidden stretches and `next` for visible colours; 1..=3 =
    /// the colours in front of the first visible one are dropped with one `nth`, the rest of the stream is
    /// consumed by value with `for_each` (1), `fold` (2) or a `for` loop after one more `next` (3).
    pub mode: u8,
    /// Modes 1..=3: the length of every colour stream that was consumed completely, with the area's pixel count.
    pub drained: Vec<(usize, usize)>,
}

impl<C: PixelColor> embedded_graphics::geometry::Dimensions for SkipT<C> {
    fn bounding_box(&self) -> Rectangle {
        BIG_BOX
    }
}

impl<C: PixelColor> embedded_graphics::draw_target::DrawTarget for SkipT<C> {
    type Color = C;
    type Error = core::convert::Infallible;
    fn draw_iter<I: IntoIterator<Item = embedded_graphics::Pixel<C>>>(&mut self, pixels: I) -> Result<(), Self::Error> {
        for embedded_graphics::Pixel(p, c) in pixels {
            if self.window.contains(p) {
                self.map.insert((p.x, p.y), c);
            }
        }
        Ok(())
    }
    fn fill_solid(&mut self, area: &Rectangle, color: C) -> Result<(), Self::Error> {
        for p in area.intersection(&self.window).points() {
            self.map.insert((p.x, p.y), color);
        }
        Ok(())
    }
    fn fill_contiguous<I: IntoIterator<Item = C>>(&mut self, area: &Rectangle, colors: I) -> Result<(), Self::Error> {
        let mut it = colors.into_iter();
        let vis = area.intersection(&self.window);
        if vis.is_zero_sized() || area.is_zero_sized() {
            return Ok(());
        }
        let w = area.size.width as usize;
        // (by-value consumption without a wrapper such as `take`, which would hide the stream's own `fold` /
        // `for_each`; `fill_solid` is implemented natively below, so the infinite stream of the default
        // `fill_solid` never arrives here; a stream that runs more than 2^20 colours beyond the area ends the
        // run as inconclusive — a panic in the harness's own code — rather than looping)
        if self.mode != 0 {
            let first = (vis.top_left.y - area.top_left.y) as usize * w + (vis.top_left.x - area.top_left.x) as usize;
            if first > 0 && it.nth(first - 1).is_none() {
                return Ok(());
            }
            let (window, ax, ay) = (self.window, area.top_left.x, area.top_left.y);
            let map = &mut self.map;
            let guard = w * area.size.height as usize + (1 << 20);
            let mut put = |idx: usize, c: C| {
                assert!(idx <= guard, "colour stream handed to fill_contiguous is longer than the area by more than 2^20 colours");
                let p = Point::new(ax + (idx % w) as i32, ay + (idx / w) as i32);
                if window.contains(p) && area.contains(p) {
                    map.insert((p.x, p.y), c);
                }
            };
            let total = match self.mode {
                1 => {
                    let mut idx = first;
                    it.for_each(|c| {
                        put(idx, c);
                        idx += 1;
                    });
                    idx
                }
                2 => it.fold(first, |idx, c| {
                    put(idx, c);
                    idx + 1
                }),
                _ => {
                    let mut idx = first;
                    if let Some(c) = it.next() {
                        put(idx, c);
                        idx += 1;
                    }
                    for c in it {
                        put(idx, c);
                        idx += 1;
                    }
                    idx
                }
            };
            self.drained.push((total, w * area.size.height as usize));
            return Ok(());
        }
        // index in the row-major stream of the next colour the iterator will yield
        let mut pos = 0usize;
        for y in vis.rows() {
            for x in vis.columns() {
                let idx = (y - area.top_left.y) as usize * w + (x - area.top_left.x) as usize;
                let c = if idx > pos { it.nth(idx - pos) } else { it.next() };
                pos = idx + 1;
                match c {
                    Some(c) => {
                        self.map.insert((x, y), c);
                    }
                    None => return Ok(()),
                }
            }
        }
        Ok(())
    }
}
