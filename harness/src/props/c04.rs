//! C04 — target errors stop drawing immediately and are returned unchanged.

use crate::engine::*;
use crate::ensure;
use crate::items::*;
use crate::props::c03::{apply_top, gen_layer, gen_layer_near, gen_op_near, gen_parent_box, with_stack, Layer, Model, Op, Top};
use crate::targets::*;
use embedded_graphics::geometry::{Point, Size};
use embedded_graphics::pixelcolor::{Rgb565, Rgb888};
use embedded_graphics::primitives::Rectangle;

pub fn prop() -> Prop {
    Prop {
        id: "C04",
        level: "fault_enumeration",
        rule: "proptest tapes decoding to a drawable (8 styled primitives incl. dotted strokes, polylines with translate, images and nested sub-images, multi-line text with decorations; sizes <= 24) drawn through an adapter stack of depth 0..=2 from {clipped, cropped, translated} plus, for half of the cases, a color_converted layer (Rgb565 drawable on an Rgb888 target), onto a logging fault-injecting target of both flavours (native fills / draw_iter only). Fault enumeration: the fault-free run records the call log L (n calls on the underlying target); then for EVERY k < n the run is repeated with the k-th call failing with the unique error value E(k) after consuming its whole argument, and once more with the failing call pulling only j items of its iterator (j from the tape). Oracle: draw returns exactly Err(E(k)); the log has exactly k+1 entries; entries 0..k are identical (method, area, colour/pixel content) to L[0..=k] (a prefix of L[k] when cut after j items); no call is made after the failure. Non-trivial: n >= 3 (so a failure strictly inside the run exists). Sub-check adapter_operations applies the same fault enumeration to single raw operations (draw_iter, fill_contiguous with full/short/long streams, fill_solid, clear) issued at the top of adapter stacks of depth 1..=3 over small parents, where a third of the layer areas and operation areas coincide exactly with the bounding box below them (whole-target fills, crops and clips covering everything); non-trivial there: n >= 2 or a covering area. Evaluations count drawables; the counter fault_runs counts the enumerated failing runs.",
        assumptions: vec![
            "the set of drawables is generated; the set of fault points per drawable is enumerated completely",
            "a failing call that consumes its whole iterator and one that stops after j items are both tried",
        ],
        subs: vec![
            Sub::tape("native_target", 460, 80_000, 4_000_000, |d, cx| run(d, cx, true)),
            Sub::tape("draw_iter_only_target", 460, 80_000, 4_000_000, |d, cx| run(d, cx, false)),
            Sub::tape("adapter_operations", 200, 60_000, 3_000_000, adapter_operations),
            Sub::tape("large_drawables", 64, 800, 40_000, large_drawables),
        ],
    }
}

enum AnyItem {
    C888(Item<Rgb888>),
    C565(Item<Rgb565>),
}

impl AnyItem {
    fn desc(&self) -> String {
        match self {
            AnyItem::C888(i) => i.desc(),
            AnyItem::C565(i) => i.desc(),
        }
    }
    fn kind(&self) -> &'static str {
        match self {
            AnyItem::C888(i) => i.kind(),
            AnyItem::C565(i) => i.kind(),
        }
    }
}

struct Outcome {
    result: Result<(), Fault>,
    calls: Vec<Call<Rgb888>>,
    after: usize,
}

fn draw_through(item: &AnyItem, stack: &[Layer], parent_box: Rectangle, native: bool, fail_at: Option<usize>, pull: usize) -> Outcome {
    through(stack, parent_box, native, fail_at, pull, &mut |top: Top| match (top, item) {
        (Top::C888(t), AnyItem::C888(it)) => it.draw(&mut Dyn(t)).map(|_| ()),
        (Top::C565(t), AnyItem::C565(it)) => it.draw(&mut Dyn(t)).map(|_| ()),
        _ => unreachable!("colour type of the stack top and of the drawable differ"),
    })
}

/// Runs `act` on the top of the adapter stack over a logging, fault-injecting parent.
fn through(stack: &[Layer], parent_box: Rectangle, native: bool, fail_at: Option<usize>, pull: usize, act: &mut dyn FnMut(Top) -> Result<(), Fault>) -> Outcome {
    let mut boxes = vec![];
    let mut result: Result<(), Fault> = Ok(());
    let mut f = |top: Top| result = act(top);
    if native {
        let mut t = NativeT::<Rgb888>::with_box(parent_box);
        t.0.fail_at = fail_at;
        t.0.pull_on_fail = pull;
        with_stack::<Rgb888>(&mut t, stack, &mut boxes, &mut f);
        Outcome { result, calls: t.0.calls, after: t.0.calls_after_failure }
    } else {
        let mut t = IterT::<Rgb888>::with_box(parent_box);
        t.0.fail_at = fail_at;
        t.0.pull_on_fail = pull;
        with_stack::<Rgb888>(&mut t, stack, &mut boxes, &mut f);
        Outcome { result, calls: t.0.calls, after: t.0.calls_after_failure }
    }
}

/// The fault enumeration: every call index of the fault-free run, each with a failing call that
/// consumes its whole argument and one that stops after `j` items. Returns (n, runs).
fn enumerate_faults(k: &str, j: usize, run: &mut dyn FnMut(Option<usize>, usize) -> Outcome) -> Result<(usize, u64), Fail> {
    let free = run(None, usize::MAX);
    free.result.map_err(|e| Fail { sig: format!("{}:fault_free_error", k), detail: format!("{:?}", e) })?;
    let n = free.calls.len();
    let mut runs = 0u64;
    // every call index up to 96 calls; beyond that (large drawables) the first and last four, every
    // (n / 40)-th and 16 positions derived from n and j
    let positions: Vec<usize> = if n <= 96 {
        (0..n).collect()
    } else {
        let mut v: std::collections::BTreeSet<usize> = (0..4).chain(n - 4..n).chain((0..n).step_by((n / 40).max(1))).collect();
        let mut x = (n as u64 * 0x9E37_79B9 + j as u64 * 31) | 1;
        for _ in 0..16 {
            x ^= x << 13;
            x ^= x >> 7;
            x ^= x << 17;
            v.insert((x % n as u64) as usize);
        }
        v.into_iter().collect()
    };
    for f in positions {
        for (pull, cut) in [(usize::MAX, false), (j, true)] {
            runs += 1;
            let o = run(Some(f), pull);
            ensure!(o.result == Err(Fault(f)), format!("{}:error_not_returned", k), "call {} of {} fails with E({}) but the operation returned {:?}", f, n, f, o.result);
            ensure!(o.after == 0, format!("{}:calls_after_failure", k), "call {} of {} failed but {} further call(s) were made on the target", f, n, o.after);
            ensure!(o.calls.len() == f + 1, format!("{}:call_count", k), "call {} of {} failed; the target logged {} calls, expected {}", f, n, o.calls.len(), f + 1);
            for i in 0..f {
                ensure!(o.calls[i] == free.calls[i], format!("{}:prefix_differs", k), "call {} before the failure at {} differs from the fault-free run: {:?} vs {:?}", i, f, o.calls[i], free.calls[i]);
            }
            if cut {
                ensure!(is_prefix(&o.calls[f], &free.calls[f], j), format!("{}:failing_call_differs", k), "the failing call {} (cut after {} items) is not a prefix of the fault-free call: {:?} vs {:?}", f, j, o.calls[f], free.calls[f]);
            } else {
                ensure!(o.calls[f] == free.calls[f], format!("{}:failing_call_differs", k), "the failing call {} differs from the fault-free run: {:?} vs {:?}", f, o.calls[f], free.calls[f]);
            }
        }
    }
    Ok((n, runs))
}

fn is_prefix(cut: &Call<Rgb888>, full: &Call<Rgb888>, j: usize) -> bool {
    match (cut, full) {
        (Call::DrawIter(a), Call::DrawIter(b)) => a.len() == j.min(b.len()) && b[..a.len()] == a[..],
        (Call::FillContiguous(ra, a), Call::FillContiguous(rb, b)) => ra == rb && a.len() == j.min(b.len()) && b[..a.len()] == a[..],
        (a, b) => a == b,
    }
}

fn run(d: &mut Dec, cx: &mut Cx, native: bool) -> Res {
    let kind = d.u(0, ITEM_KINDS - 1);
    let dom = ItemDom { r: 12, max: if d.ratio(1, 4) { 24 } else { 10 }, max_width: 6, dotted: true, text_len: 8 };
    let converted = d.bool();
    // (the fault enumeration is quadratic in the number of target calls: polylines keep <= 10 vertices here)
    fn short<C: ImgCol>(mut it: Item<C>) -> Item<C> {
        if let Item::Polyline(p) = &mut it {
            p.pts.truncate(10);
        }
        it
    }
    let item = if converted { AnyItem::C565(short(gen_item::<Rgb565>(d, kind, dom))) } else { AnyItem::C888(short(gen_item::<Rgb888>(d, kind, dom))) };
    let depth = d.u(0, 2);
    let mut stack: Vec<Layer> = vec![];
    for _ in 0..depth {
        // geometric layers only; windows large enough to let most of the drawable through
        let l = match gen_layer(d) {
            Layer::Converted => Layer::Translated(Point::new(d.i(-3, 3), d.i(-3, 3))),
            Layer::Clipped(r) => Layer::Clipped(Rectangle::new(r.top_left - Point::new(8, 8), r.size + Size::new(14, 14))),
            Layer::Cropped(r) => Layer::Cropped(Rectangle::new(r.top_left - Point::new(8, 8), r.size + Size::new(14, 14))),
            l => l,
        };
        stack.push(l);
    }
    if converted {
        let at = d.idx(stack.len() + 1);
        stack.insert(at, Layer::Converted);
    }
    let parent_box = Rectangle::new(Point::new(-30, -30), Size::new(80, 80));
    let j = d.u(0, 6) as usize;
    cx.describe(|| format!("{} through stack (innermost first) {:?} on a {} target; stream cut after {} items", item.desc(), stack, if native { "native-fill" } else { "draw_iter-only" }, j));
    cx.class(KIND_NAMES[kind as usize]);
    let k = item.kind();

    let (n, runs) = enumerate_faults(k, j, &mut |fail_at, pull| draw_through(&item, &stack, parent_box, native, fail_at, pull))?;
    cx.count("fault_runs", runs);
    cx.count("target_calls_fault_free", n as u64);
    cx.nontrivial(n >= 3);
    Ok(())
}


/// Single operations at the top of adapter stacks, with layer and operation areas that often
/// coincide exactly with the bounding box below them (the case in which an adapter may forward a
/// fill as `clear` or a crop / clip as the whole parent).
fn adapter_operations(d: &mut Dec, cx: &mut Cx) -> Res {
    let native = d.bool();
    let parent_box = gen_parent_box(d);
    let depth = d.u(1, 3);
    let mut stack: Vec<Layer> = vec![];
    let mut top_box = parent_box;
    let mut covering = false;
    for _ in 0..depth {
        let l = match d.u(0, 5) {
            0 => {
                covering = true;
                Layer::Clipped(top_box)
            }
            1 => {
                covering = true;
                Layer::Cropped(top_box)
            }
            _ => gen_layer_near(d, &top_box),
        };
        stack.push(l);
        top_box = Model::new(parent_box, &stack).layers.last().map(|l| l.bbox_exact).unwrap_or(parent_box);
    }
    let full = (top_box.size.width * top_box.size.height) as usize;
    let op = match d.u(0, 8) {
        0 => {
            covering = true;
            Op::FillSolid(top_box, 7)
        }
        1 => {
            covering = true;
            Op::FillContiguous(top_box, (0..full as u32).map(|k| 9 + k).collect())
        }
        2 => Op::Clear(5),
        _ => gen_op_near(d, 11, &top_box),
    };
    let j = d.u(0, 6) as usize;
    cx.describe(|| format!("{} parent box {:?}; stack (innermost first) {:?}; operation {:?}; stream cut after {} items", if native { "native-fill" } else { "draw_iter-only" }, parent_box, stack, op, j));
    cx.class(match &op {
        Op::DrawIter(_) => "draw_iter",
        Op::FillContiguous(..) => "fill_contiguous",
        Op::FillSolid(..) => "fill_solid",
        Op::Clear(_) => "clear",
    });
    let (n, runs) = enumerate_faults("adapter", j, &mut |fail_at, pull| through(&stack, parent_box, native, fail_at, pull, &mut |top: Top| apply_top(top, &op)))?;
    cx.count("fault_runs", runs);
    cx.count("target_calls_fault_free", n as u64);
    cx.nontrivial(n >= 2 || (covering && n >= 1));
    Ok(())
}


/// Styled primitives of 100..=300 px drawn directly onto the native-fill target (hundreds of calls, one or
/// two per row): faults at sampled call positions (`enumerate_faults`), the same oracle.
fn large_drawables(d: &mut Dec, cx: &mut Cx) -> Res {
    let kind = d.u(0, 7);
    let mut st = crate::gen::style::<Rgb888>(d, 40);
    if d.ratio(1, 3) {
        // fill only: the path of a plain filled shape
        st.stroke_width = 0;
        st.fill_color = Some(crate::gen::Col::nth(1));
    }
    let item = AnyItem::C888(Item::Styled(crate::gen::large_shape(d, kind, 100, 300), st));
    let j = d.u(0, 6) as usize;
    cx.describe(|| format!("{} directly on the native-fill target", item.desc()));
    cx.class(item.kind());
    let k = item.kind();
    let parent_box = BIG_BOX;
    let (n, runs) = enumerate_faults(k, j, &mut |fail_at, pull| draw_through(&item, &[], parent_box, true, fail_at, pull))?;
    cx.count("fault_runs", runs);
    cx.nontrivial(n >= 3);
    Ok(())
}
