//! C04 — target errors stop drawing immediately and are returned unchanged.

use crate::engine::*;
use crate::ensure;
use crate::items::*;
use crate::props::c03::{gen_layer, with_stack, Layer, Top};
use crate::targets::*;
use embedded_graphics::geometry::{Point, Size};
use embedded_graphics::pixelcolor::{Rgb565, Rgb888};
use embedded_graphics::primitives::Rectangle;

pub fn prop() -> Prop {
    Prop {
        id: "C04",
        level: "fault_enumeration",
        rule: "proptest tapes decoding to a drawable (8 styled primitives incl. dotted strokes, polylines with translate, images and nested sub-images, multi-line text with decorations; sizes <= 24) drawn through an adapter stack of depth 0..=2 from {clipped, cropped, translated} plus, for half of the cases, a color_converted layer (Rgb565 drawable on an Rgb888 target), onto a logging fault-injecting target of both flavours (native fills / draw_iter only). Fault enumeration: the fault-free run records the call log L (n calls on the underlying target); then for EVERY k < n the run is repeated with the k-th call failing with the unique error value E(k) after consuming its whole argument, and once more with the failing call pulling only j items of its iterator (j from the tape). Oracle: draw returns exactly Err(E(k)); the log has exactly k+1 entries; entries 0..k are identical (method, area, colour/pixel content) to L[0..=k] (a prefix of L[k] when cut after j items); no call is made after the failure. Non-trivial: n >= 3 (so a failure strictly inside the run exists). Evaluations count drawables; the counter fault_runs counts the enumerated failing runs.",
        assumptions: vec![
            "the set of drawables is generated; the set of fault points per drawable is enumerated completely",
            "a failing call that consumes its whole iterator and one that stops after j items are both tried",
        ],
        subs: vec![
            Sub::tape("native_target", 460, 40_000, 2_000_000, |d, cx| run(d, cx, true)),
            Sub::tape("draw_iter_only_target", 460, 40_000, 2_000_000, |d, cx| run(d, cx, false)),
        ],
    }
}

enum AnyItem {
    C888(Item<Rgb888>),
    C565(Item<Rgb565>),
}

impl AnyItem {
    fn desc(&self) -> String {
        match self {
            AnyItem::C888(i) => i.desc(),
            AnyItem::C565(i) => i.desc(),
        }
    }
    fn kind(&self) -> &'static str {
        match self {
            AnyItem::C888(i) => i.kind(),
            AnyItem::C565(i) => i.kind(),
        }
    }
}

struct Outcome {
    result: Result<(), Fault>,
    calls: Vec<Call<Rgb888>>,
    after: usize,
}

fn draw_through(item: &AnyItem, stack: &[Layer], parent_box: Rectangle, native: bool, fail_at: Option<usize>, pull: usize) -> Outcome {
    let mut boxes = vec![];
    let mut result: Result<(), Fault> = Ok(());
    let mut f = |top: Top| {
        result = match (top, item) {
            (Top::C888(t), AnyItem::C888(it)) => it.draw(&mut Dyn(t)).map(|_| ()),
            (Top::C565(t), AnyItem::C565(it)) => it.draw(&mut Dyn(t)).map(|_| ()),
            _ => unreachable!("colour type of the stack top and of the drawable differ"),
        }
    };
    if native {
        let mut t = NativeT::<Rgb888>::with_box(parent_box);
        t.0.fail_at = fail_at;
        t.0.pull_on_fail = pull;
        with_stack::<Rgb888>(&mut t, stack, &mut boxes, &mut f);
        Outcome { result, calls: t.0.calls, after: t.0.calls_after_failure }
    } else {
        let mut t = IterT::<Rgb888>::with_box(parent_box);
        t.0.fail_at = fail_at;
        t.0.pull_on_fail = pull;
        with_stack::<Rgb888>(&mut t, stack, &mut boxes, &mut f);
        Outcome { result, calls: t.0.calls, after: t.0.calls_after_failure }
    }
}

fn is_prefix(cut: &Call<Rgb888>, full: &Call<Rgb888>, j: usize) -> bool {
    match (cut, full) {
        (Call::DrawIter(a), Call::DrawIter(b)) => a.len() == j.min(b.len()) && b[..a.len()] == a[..],
        (Call::FillContiguous(ra, a), Call::FillContiguous(rb, b)) => ra == rb && a.len() == j.min(b.len()) && b[..a.len()] == a[..],
        (a, b) => a == b,
    }
}

fn run(d: &mut Dec, cx: &mut Cx, native: bool) -> Res {
    let kind = d.u(0, ITEM_KINDS - 1);
    let dom = ItemDom { r: 12, max: if d.ratio(1, 4) { 24 } else { 10 }, max_width: 6, dotted: true, text_len: 8 };
    let converted = d.bool();
    let item = if converted { AnyItem::C565(gen_item::<Rgb565>(d, kind, dom)) } else { AnyItem::C888(gen_item::<Rgb888>(d, kind, dom)) };
    let depth = d.u(0, 2);
    let mut stack: Vec<Layer> = vec![];
    for _ in 0..depth {
        // geometric layers only; windows large enough to let most of the drawable through
        let l = match gen_layer(d) {
            Layer::Converted => Layer::Translated(Point::new(d.i(-3, 3), d.i(-3, 3))),
            Layer::Clipped(r) => Layer::Clipped(Rectangle::new(r.top_left - Point::new(8, 8), r.size + Size::new(14, 14))),
            Layer::Cropped(r) => Layer::Cropped(Rectangle::new(r.top_left - Point::new(8, 8), r.size + Size::new(14, 14))),
            l => l,
        };
        stack.push(l);
    }
    if converted {
        let at = d.idx(stack.len() + 1);
        stack.insert(at, Layer::Converted);
    }
    let parent_box = Rectangle::new(Point::new(-30, -30), Size::new(80, 80));
    let j = d.u(0, 6) as usize;
    cx.describe(|| format!("{} through stack (innermost first) {:?} on a {} target; stream cut after {} items", item.desc(), stack, if native { "native-fill" } else { "draw_iter-only" }, j));
    cx.class(KIND_NAMES[kind as usize]);
    let k = item.kind();

    let free = draw_through(&item, &stack, parent_box, native, None, usize::MAX);
    free.result.map_err(|e| Fail { sig: format!("{}:fault_free_error", k), detail: format!("{:?}", e) })?;
    let n = free.calls.len();
    let mut runs = 0u64;
    for f in 0..n {
        for (pull, cut) in [(usize::MAX, false), (j, true)] {
            runs += 1;
            let o = draw_through(&item, &stack, parent_box, native, Some(f), pull);
            ensure!(o.result == Err(Fault(f)), format!("{}:error_not_returned", k), "call {} of {} fails with E({}) but draw returned {:?}", f, n, f, o.result);
            ensure!(o.after == 0, format!("{}:calls_after_failure", k), "call {} of {} failed but {} further call(s) were made on the target", f, n, o.after);
            ensure!(o.calls.len() == f + 1, format!("{}:call_count", k), "call {} of {} failed; the target logged {} calls, expected {}", f, n, o.calls.len(), f + 1);
            for i in 0..f {
                ensure!(o.calls[i] == free.calls[i], format!("{}:prefix_differs", k), "call {} before the failure at {} differs from the fault-free run: {:?} vs {:?}", i, f, o.calls[i], free.calls[i]);
            }
            if cut {
                ensure!(is_prefix(&o.calls[f], &free.calls[f], j), format!("{}:failing_call_differs", k), "the failing call {} (cut after {} items) is not a prefix of the fault-free call: {:?} vs {:?}", f, j, o.calls[f], free.calls[f]);
            } else {
                ensure!(o.calls[f] == free.calls[f], format!("{}:failing_call_differs", k), "the failing call {} differs from the fault-free run: {:?} vs {:?}", f, o.calls[f], free.calls[f]);
            }
        }
    }
    cx.count("fault_runs", runs);
    cx.count("target_calls_fault_free", n as u64);
    cx.nontrivial(n >= 3);
    Ok(())
}
