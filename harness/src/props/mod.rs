//! One module per listed property.

use crate::engine::Prop;

pub mod c01;
pub mod c02;
pub mod c03;
pub mod c04;
pub mod c05;
pub mod c06;
pub mod c07;
pub mod c08;
pub mod c09;
pub mod c10;
pub mod c11;
pub mod c12;
pub mod c13;
pub mod c14;
pub mod c15;
pub mod c16;
pub mod c17;
pub mod c18;
pub mod c19;
pub mod c20;

pub fn all() -> Vec<Prop> {
    vec![c01::prop(), c02::prop(), c03::prop(), c04::prop(), c05::prop(), c06::prop(), c07::prop(), c08::prop(), c09::prop(), c10::prop(), c11::prop(), c12::prop(), c13::prop(), c14::prop(), c15::prop(), c16::prop(), c17::prop(), c18::prop(), c19::prop(), c20::prop()]
}
