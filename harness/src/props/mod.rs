//! One module per listed property.

use crate::engine::Prop;

pub mod c05;
pub mod c06;
pub mod c12;
pub mod c16;

pub fn all() -> Vec<Prop> {
    vec![c05::prop(), c06::prop(), c12::prop(), c16::prop()]
}
