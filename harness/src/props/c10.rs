//! C10 — Framebuffer reads back what was written, in the layout of ImageRaw.

use crate::engine::*;
use crate::ensure;
use crate::props::c09::C32;
use crate::props::c11::ref_store;
use crate::targets::*;
use core::convert::Infallible;
use embedded_graphics::{
    draw_target::DrawTarget,
    framebuffer::Framebuffer,
    geometry::{OriginDimensions, Point, Size},
    image::{GetPixel, Image, ImageRaw},
    pixelcolor::{
        raw::{BigEndianLsb0, LittleEndianMsb0, RawData, RawU1, RawU16, RawU2, RawU24, RawU32, RawU4, RawU8},
        BinaryColor, Gray2, Gray4, Gray8, PixelColor, Rgb565, Rgb888,
    },
    primitives::{Circle, Line, PointsIter, Primitive, PrimitiveStyleBuilder, Rectangle, Triangle},
    Drawable, Pixel,
};

pub fn prop() -> Prop {
    Prop {
        id: "C10",
        level: "exploration",
        rule: "proptest tapes decoding to a framebuffer configuration (7 raw widths x 2 data orders x sizes 9x3, 5x2, 8x2, 1x1 -- rows ending on and off a byte boundary -- and, one case in 25, 300x2 with exact N or 2x300 with one spare byte, one case in 25 97x5 with two spare bytes and shapes / fills / images as wide as the framebuffer, one case in 25 16x24 (rows of whole bytes at every depth), stripe patterns over the full height, and, one case in 200, 65540x1 or 1x65540 with at most 3 operations and, for two sizes, N = buffer_size + 3) and a history of 1..=24 operations from {set_pixel, draw_iter with several pixels, fill_solid, clear, draw a styled rectangle/circle/line/triangle, draw a raw image} with points inside and up to 3 pixels outside every edge and also far outside (i32 extremes). Oracle (model-based): a last-write map; after every operation pixel(p) == model for every p in the box plus a margin (zero colour if never written, None outside), data() equals the byte image computed from the model by an independent writer of the documented ImageRaw layout (so writes outside change no byte and surplus bytes stay 0), as_image() has the framebuffer's size, as_image().pixel == pixel, and drawing as_image() onto a recording target reproduces the model. Non-trivial: at least two writes landed at different x modulo the pixels per byte and one written pixel was overwritten with a different colour.",
        assumptions: vec![
            "framebuffer sizes are const generics, so a fixed list of sizes is instantiated",
            "the effect of a drawable on the model is taken from drawing it onto the unbounded recording target (pinned by C01) and keeping the points inside the framebuffer",
        ],
        subs: vec![Sub::tape("histories", 700, 400_000, 20_000_000, histories)],
    }
}

/// Uniform access to the concrete framebuffer types (set_pixel is an inherent method of each).
trait Fb<C: PixelColor>: DrawTarget<Color = C, Error = Infallible> + GetPixel<Color = C> + OriginDimensions {
    fn create() -> Self;
    fn set_px(&mut self, p: Point, c: C);
    fn bytes(&self) -> &[u8];
    fn image_size(&self) -> Size;
    fn image_pixel(&self, p: Point) -> Option<C>;
    fn draw_image_onto(&self, t: &mut NativeT<C>, at: Point);
    fn draw_image_onto_skipping(&self, t: &mut crate::props::c09::SkipT<C>, at: Point);
}

macro_rules! impl_fb {
    ($c:ty, $r:ty, $o:ty) => {
        impl<const W: usize, const H: usize, const N: usize> Fb<$c> for Framebuffer<$c, $r, $o, W, H, N> {
            fn create() -> Self {
                Self::new()
            }
            fn set_px(&mut self, p: Point, c: $c) {
                self.set_pixel(p, c)
            }
            fn bytes(&self) -> &[u8] {
                self.data()
            }
            fn image_size(&self) -> Size {
                self.as_image().size()
            }
            fn image_pixel(&self, p: Point) -> Option<$c> {
                self.as_image().pixel(p)
            }
            fn draw_image_onto(&self, t: &mut NativeT<$c>, at: Point) {
                let img = self.as_image();
                Image::new(&img, at).draw(t).unwrap();
            }
            fn draw_image_onto_skipping(&self, t: &mut crate::props::c09::SkipT<$c>, at: Point) {
                let img = self.as_image();
                Image::new(&img, at).draw(t).unwrap();
            }
        }
    };
    ($c:ty, $r:ty) => {
        impl_fb!($c, $r, LittleEndianMsb0);
        impl_fb!($c, $r, BigEndianLsb0);
    };
}
impl_fb!(BinaryColor, RawU1);
impl_fb!(Gray2, RawU2);
impl_fb!(Gray4, RawU4);
impl_fb!(Gray8, RawU8);
impl_fb!(Rgb565, RawU16);
impl_fb!(Rgb888, RawU24);
impl_fb!(C32, RawU32);

const fn bufsize(w: usize, h: usize, bpp: usize) -> usize {
    (w * bpp + 7) / 8 * h
}

fn histories(d: &mut Dec, cx: &mut Cx) -> Res {
    let combo = d.u(0, 13);
    // sizes 0..=5 equally likely; one case in 25 uses a 300x2 or a 2x300 framebuffer (byte offsets and
    // row numbers beyond 255)
    let size_sel = { let k = d.u(0, 49); if k >= 48 { 6 + (k - 48) } else if k >= 46 { 10 } else if k >= 44 { 11 } else { k % 6 } };
    // (k = 44, 45: 16x24, rows of whole bytes at every depth)
    // (k = 46, 47: a 97x5 framebuffer with shapes, fills and images as wide as the framebuffer — row runs of
    // 60..100 pixels, between the tiny sizes and the 300-px strips)
    // auxiliary words 5 and 6: one case in 200 uses a 65540x1 or 1x65540 framebuffer (coordinates, byte
    // and pixel offsets beyond 65535), with at most 3 operations
    let size_sel = if d.aux_u(5, 0, 199) == 199 { 8 + d.aux_u(6, 0, 1) } else { size_sel };
    let be = combo % 2 == 1;
    macro_rules! sizes {
        ($c:ty, $r:ty, $o:ty, $bpp:expr) => {
            match size_sel {
                0 => run::<$c, Framebuffer<$c, $r, $o, 9, 3, { bufsize(9, 3, $bpp) }>>(d, cx, $bpp, be, 9, 3, 0),
                1 => run::<$c, Framebuffer<$c, $r, $o, 9, 3, { bufsize(9, 3, $bpp) + 3 }>>(d, cx, $bpp, be, 9, 3, 3),
                2 => run::<$c, Framebuffer<$c, $r, $o, 5, 2, { bufsize(5, 2, $bpp) }>>(d, cx, $bpp, be, 5, 2, 0),
                3 => run::<$c, Framebuffer<$c, $r, $o, 8, 2, { bufsize(8, 2, $bpp) }>>(d, cx, $bpp, be, 8, 2, 0),
                4 => run::<$c, Framebuffer<$c, $r, $o, 8, 2, { bufsize(8, 2, $bpp) + 3 }>>(d, cx, $bpp, be, 8, 2, 3),
                6 => run::<$c, Framebuffer<$c, $r, $o, 300, 2, { bufsize(300, 2, $bpp) }>>(d, cx, $bpp, be, 300, 2, 0),
                7 => run::<$c, Framebuffer<$c, $r, $o, 2, 300, { bufsize(2, 300, $bpp) + 1 }>>(d, cx, $bpp, be, 2, 300, 1),
                8 => run::<$c, Framebuffer<$c, $r, $o, 65540, 1, { bufsize(65540, 1, $bpp) }>>(d, cx, $bpp, be, 65540, 1, 0),
                9 => run::<$c, Framebuffer<$c, $r, $o, 1, 65540, { bufsize(1, 65540, $bpp) }>>(d, cx, $bpp, be, 1, 65540, 0),
                10 => run::<$c, Framebuffer<$c, $r, $o, 97, 5, { bufsize(97, 5, $bpp) + 2 }>>(d, cx, $bpp, be, 97, 5, 2),
                11 => run::<$c, Framebuffer<$c, $r, $o, 16, 24, { bufsize(16, 24, $bpp) }>>(d, cx, $bpp, be, 16, 24, 0),
                _ => run::<$c, Framebuffer<$c, $r, $o, 1, 1, { bufsize(1, 1, $bpp) }>>(d, cx, $bpp, be, 1, 1, 0),
            }
        };
    }
    macro_rules! orders {
        ($c:ty, $r:ty, $bpp:expr) => {
            if be {
                sizes!($c, $r, BigEndianLsb0, $bpp)
            } else {
                sizes!($c, $r, LittleEndianMsb0, $bpp)
            }
        };
    }
    match combo / 2 {
        0 => orders!(BinaryColor, RawU1, 1),
        1 => orders!(Gray2, RawU2, 2),
        2 => orders!(Gray4, RawU4, 4),
        3 => orders!(Gray8, RawU8, 8),
        4 => orders!(Rgb565, RawU16, 16),
        5 => orders!(Rgb888, RawU24, 24),
        _ => orders!(C32, RawU32, 32),
    }
}

fn color<C: PixelColor>(d: &mut Dec, bpp: usize) -> (C, u32) {
    let mask: u32 = if bpp >= 32 { u32::MAX } else { (1 << bpp) - 1 };
    let v = match d.u(0, 3) {
        0 => mask,
        1 => d.u(0, 3) & mask,
        _ => d.raw() & mask,
    };
    (C::from(C::Raw::from_u32(v)), v)
}

fn raw_of<C: PixelColor>(c: C) -> u32
where
    <C::Raw as RawData>::Storage: Into<u32>,
{
    let r: C::Raw = c.into();
    r.into_inner().into()
}

fn coord(d: &mut Dec, n: i32) -> i32 {
    if n > 60_000 && d.ratio(1, 2) {
        // the 65540-px framebuffers: around 2^16 and at the far end
        return (d.pick(&[65_535, 65_536, 65_537, 65_539, 32_768, 65_534]) + d.i(-1, 1)).min(n + 1);
    }
    match d.u(0, 11) {
        0 => d.i(-3, -1),
        1 => n + d.i(0, 2),
        2 => d.pick(&[i32::MIN, i32::MAX, -1000, 1000, i32::MIN / 2]),
        _ => d.i(0, n - 1),
    }
}

fn run<C, F>(d: &mut Dec, cx: &mut Cx, bpp: usize, be: bool, w: i32, h: i32, extra: usize) -> Res
where
    C: PixelColor + core::fmt::Debug,
    <C::Raw as RawData>::Storage: Into<u32>,
    F: Fb<C>,
{
    let mut fb = F::create();
    let mut model: Map<C> = Map::new();
    let zero = C::from(C::Raw::from_u32(0));
    let stride = (w as usize * bpp + 7) / 8;
    let used = stride * h as usize;
    let inside = |p: Point| p.x >= 0 && p.y >= 0 && p.x < w && p.y < h;
    // the helper functions that applications use to size the buffer
    let (bs, bsb) = (embedded_graphics::framebuffer::buffer_size::<C>(w as usize, h as usize), embedded_graphics::framebuffer::buffer_size_bpp(w as usize, h as usize, bpp));
    ensure!(bs == used && bsb == used, "buffer_size", "buffer_size::<C>({}, {}) = {}, buffer_size_bpp(.., {}) = {}, rows padded to whole bytes need {}", w, h, bs, bpp, bsb, used);
    // 65540-px framebuffers: few operations, all of them local (lines and triangles of display scale only;
    // a line longer than 46340 px is outside the domain of the primitives), read-back on windows around
    // 0, 2^15, 2^16, the far end and every touched coordinate instead of on all 330 000 points
    let huge = w.max(h) > 60_000;
    let nops = if huge { d.u(1, 3) } else { d.u(1, 24) };
    let mid = w == 97;
    let mut log: Vec<String> = vec![];
    let want = cx.want_desc;
    let mut xs_mod = std::collections::BTreeSet::new();
    let mut overwritten = false;
    let ppb = if bpp < 8 { 8 / bpp } else { 1 } as i32;

    let apply = |model: &mut Map<C>, p: Point, c: C, xs_mod: &mut std::collections::BTreeSet<i32>, overwritten: &mut bool| {
        if inside(p) {
            if let Some(old) = model.insert((p.x, p.y), c) {
                if old != c {
                    *overwritten = true;
                }
            }
            xs_mod.insert(p.x % ppb);
        }
    };

    let result = (|| -> Res {
    for step in 0..nops {
        match d.u(0, 9) {
            0..=3 => {
                let p = Point::new(coord(d, w), coord(d, h));
                let (c, v) = color::<C>(d, bpp);
                if want {
                    log.push(format!("set_pixel({:?}, raw {:#x})", p, v));
                }
                fb.set_px(p, c);
                apply(&mut model, p, c, &mut xs_mod, &mut overwritten);
            }
            4 => {
                // (the 300-px framebuffers: up to 330 pixels in one iterator)
                let n = d.u(0, 6) * if w.max(h) >= 300 { 55 } else { 1 };
                let mut px = vec![];
                for _ in 0..n {
                    let p = Point::new(coord(d, w), coord(d, h));
                    let (c, _) = color::<C>(d, bpp);
                    px.push(Pixel(p, c));
                }
                if want {
                    log.push(format!("draw_iter({:?})", px));
                }
                fb.draw_iter(px.iter().copied()).unwrap();
                for Pixel(p, c) in px {
                    apply(&mut model, p, c, &mut xs_mod, &mut overwritten);
                }
            }
            5 if !huge && d.derived(0x57a1 + step as u64, 4) == 0 => {
                // a test pattern: vertical stripes over the full height (every `period`-th column from x0), the
                // content that makes every byte of a sub-byte framebuffer equal without making the pixels equal
                let period = [2, 4, 8, 3][d.derived(0x57a2 + step as u64, 4) as usize];
                let x0 = d.derived(0x57a3 + step as u64, period as u32) as i32;
                let (c, v) = color::<C>(d, bpp);
                if want {
                    log.push(format!("stripes(every {} columns from {}, raw {:#x})", period, x0, v));
                }
                let mut x = x0;
                while x < w {
                    let area = Rectangle::new(Point::new(x, 0), Size::new(1, h as u32));
                    fb.fill_solid(&area, c).unwrap();
                    for p in area.points() {
                        apply(&mut model, p, c, &mut xs_mod, &mut overwritten);
                    }
                    x += period;
                }
            }
            5 => {
                let area = if huge {
                    Rectangle::new(Point::new(coord(d, w).clamp(-100_000, 100_000) - 2, coord(d, h).clamp(-100_000, 100_000) - 2), Size::new(d.u(0, 9), d.u(0, 9)))
                } else {
                    Rectangle::new(Point::new(d.i(-3, w + 1), d.i(-3, h + 1)), Size::new(d.u(0, w as u32 + 4), d.u(0, h as u32 + 4)))
                };
                let (c, v) = color::<C>(d, bpp);
                if want {
                    log.push(format!("fill_solid({:?}, raw {:#x})", area, v));
                }
                fb.fill_solid(&area, c).unwrap();
                for p in area.points() {
                    apply(&mut model, p, c, &mut xs_mod, &mut overwritten);
                }
            }
            6 => {
                let (c, v) = color::<C>(d, bpp);
                if want {
                    log.push(format!("clear(raw {:#x})", v));
                }
                fb.clear(c).unwrap();
                for p in Rectangle::new(Point::zero(), Size::new(w as u32, h as u32)).points() {
                    apply(&mut model, p, c, &mut xs_mod, &mut overwritten);
                }
            }
            7 | 8 => {
                // a styled primitive
                let (fc, _) = color::<C>(d, bpp);
                let (sc, _) = color::<C>(d, bpp);
                let mut b = PrimitiveStyleBuilder::new().stroke_width(d.u(0, 3)).stroke_color(sc);
                if d.bool() {
                    b = b.fill_color(fc);
                }
                let style = b.build();
                let p0 = if huge { Point::new(coord(d, w).clamp(-100_000, 100_000), coord(d, h).clamp(-100_000, 100_000)) } else { Point::new(d.i(-3, w + 1), d.i(-3, h + 1)) };
                // second and third vertex of lines / triangles
                let vertex = |d: &mut Dec| if huge { p0 + Point::new(d.i(-9, 9), d.i(-9, 9)) } else { Point::new(d.i(-3, w + 1), d.i(-3, h + 1)) };
                let mut rec = NativeT::<C>::new();
                rec.0.log = false;
                let what;
                // (no triangles at coordinates around 2^16: `Triangle::area_doubled` multiplies absolute coordinates in i32)
                match if huge { d.u(0, 2) } else { d.u(0, 3) } {
                    0 => {
                        let s = Rectangle::new(p0, Size::new(d.u(0, if mid { 101 } else { 8 }), d.u(0, 5))).into_styled(style);
                        what = format!("{:?}", s.primitive);
                        s.draw(&mut fb).unwrap();
                        s.draw(&mut rec).unwrap();
                    }
                    1 => {
                        let s = Circle::new(p0, d.u(0, if mid { 30 } else { 8 })).into_styled(style);
                        what = format!("{:?}", s.primitive);
                        s.draw(&mut fb).unwrap();
                        s.draw(&mut rec).unwrap();
                    }
                    2 => {
                        let s = Line::new(p0, vertex(d)).into_styled(style);
                        what = format!("{:?}", s.primitive);
                        s.draw(&mut fb).unwrap();
                        s.draw(&mut rec).unwrap();
                    }
                    _ => {
                        let s = Triangle::new(p0, vertex(d), vertex(d)).into_styled(style);
                        what = format!("{:?}", s.primitive);
                        s.draw(&mut fb).unwrap();
                        s.draw(&mut rec).unwrap();
                    }
                }
                if want {
                    log.push(format!("draw {} stroke_width {} fill {}", what, style.stroke_width, style.fill_color.is_some()));
                }
                // the recording target keeps the last colour per point, as the framebuffer must
                for (&(x, y), &c) in rec.0.map.iter() {
                    apply(&mut model, Point::new(x, y), c, &mut xs_mod, &mut overwritten);
                }
            }
            _ if d.derived(0xf111 + step as u64, 3) == 0 => {
                // `fill_contiguous` called directly, with an exact, short or over-long colour stream whose
                // size_hint has one of the shapes of `gen::stream_route`
                let area = if huge {
                    Rectangle::new(Point::new(coord(d, w).clamp(-100_000, 100_000) - 2, coord(d, h).clamp(-100_000, 100_000) - 2), Size::new(d.u(0, 9), d.u(0, 4)))
                } else {
                    Rectangle::new(Point::new(d.i(-3, w + 1), d.i(-3, h + 1)), Size::new(d.u(0, if mid { 101 } else { 8 }), d.u(0, 4)))
                };
                let full = (area.size.width * area.size.height) as usize;
                let n = match d.u(0, 3) {
                    0 => full.saturating_sub(d.u(1, 5) as usize),
                    1 => full + d.u(1, 5) as usize,
                    _ => full,
                };
                let mut x = d.raw() | 1;
                let colors: Vec<C> = (0..n)
                    .map(|_| {
                        x ^= x << 13;
                        x ^= x >> 17;
                        x ^= x << 5;
                        let mask = if bpp >= 32 { u32::MAX } else { (1u32 << bpp) - 1 };
                        C::from(C::Raw::from_u32(x & mask))
                    })
                    .collect();
                if want {
                    log.push(format!("fill_contiguous({:?}, {} colours)", area, n));
                }
                fb.fill_contiguous(&area, crate::gen::stream_route(&colors, (n as u32).wrapping_add(step))).unwrap();
                for (p, c) in area.points().zip(colors.iter().copied()) {
                    apply(&mut model, p, c, &mut xs_mod, &mut overwritten);
                }
            }
            _ => {
                // a raw image of the same colour type (little endian, MSB first)
                let (iw, ih) = (d.u(0, if mid { 101 } else { 6 }), d.u(0, 3));
                let istride = (iw as usize * bpp + 7) / 8;
                let mut x = d.raw() | 1;
                let data: Vec<u8> = (0..istride * ih as usize)
                    .map(|_| {
                        x ^= x << 13;
                        x ^= x >> 17;
                        x ^= x << 5;
                        x as u8
                    })
                    .collect();
                let at = if huge { Point::new(coord(d, w).clamp(-100_000, 100_000) - 2, coord(d, h).clamp(-100_000, 100_000) - 1) } else { Point::new(d.i(-3, w + 1), d.i(-3, h + 1)) };
                let img = ImageRaw::<C, LittleEndianMsb0>::new(&data, Size::new(iw, ih)).unwrap();
                if want {
                    log.push(format!("draw image {}x{} data {:02x?} at {:?}", iw, ih, data, at));
                }
                Image::new(&img, at).draw(&mut fb).unwrap();
                let mut rec = NativeT::<C>::new();
                rec.0.log = false;
                Image::new(&img, at).draw(&mut rec).unwrap();
                for (&(x, y), &c) in rec.0.map.iter() {
                    apply(&mut model, Point::new(x, y), c, &mut xs_mod, &mut overwritten);
                }
            }
        }

        // ---- compare with the model after every operation -------------------------------
        let ctx = |what: &str| format!("after operation {} ({})", step, what);
        let axis = |n: i32, pick: fn(&(i32, i32)) -> i32, model: &Map<C>| -> Vec<i32> {
            if n <= 60_000 {
                return (-2..n + 2).collect();
            }
            let mut v: std::collections::BTreeSet<i32> = Default::default();
            let mut window = |c: i32| {
                for k in c - 3..=c + 3 {
                    if k >= -2 && k < n + 2 {
                        v.insert(k);
                    }
                }
            };
            for c in [0, 255, 256, 32_767, 32_768, 65_535, 65_536, n - 1, n] {
                window(c);
            }
            // every written coordinate (a cleared framebuffer has them all: sample every 997th then)
            let step = if model.len() > 5000 { 997 } else { 1 };
            for k in model.keys().step_by(step) {
                window(pick(k));
            }
            v.into_iter().collect()
        };
        let (xs, ys) = (axis(w, |k| k.0, &model), axis(h, |k| k.1, &model));
        for &y in &ys {
            for &x in &xs {
                let p = Point::new(x, y);
                let exp = if inside(p) { Some(*model.get(&(x, y)).unwrap_or(&zero)) } else { None };
                let got = fb.pixel(p);
                ensure!(got == exp, if exp.is_some() { "pixel:readback" } else { "pixel:outside" }, "{}: pixel({:?}) = {:?}, model {:?}", ctx("pixel"), p, got, exp);
                let gi = fb.image_pixel(p);
                ensure!(gi == got, "as_image:pixel", "{}: as_image().pixel({:?}) = {:?}, pixel() = {:?}", ctx("as_image"), p, gi, got);
            }
        }
        // byte image by the documented layout
        let mut exp_bytes = vec![0u8; used + extra];
        for (&(x, y), &c) in model.iter() {
            let row = &mut exp_bytes[y as usize * stride..(y as usize + 1) * stride];
            ref_store(row, bpp as u32, be, x as usize, raw_of(c));
        }
        let got_bytes = fb.bytes();
        ensure!(got_bytes.len() == used + extra, "data:length", "data() has {} bytes, expected {}", got_bytes.len(), used + extra);
        if got_bytes != &exp_bytes[..] {
            let i = (0..got_bytes.len()).find(|&i| got_bytes[i] != exp_bytes[i]).unwrap();
            let sig = if i >= used { "data:surplus_bytes_modified" } else { "data:layout" };
            return fail(sig, format!("{}: data() = {:02x?}, documented layout gives {:02x?} (first difference at byte {})", ctx("data"), got_bytes, exp_bytes, i));
        }
    }
    // as_image(): size and drawing
    ensure!(fb.image_size() == Size::new(w as u32, h as u32) && fb.size() == Size::new(w as u32, h as u32), "as_image:size", "as_image() size {:?}, framebuffer {}x{}", fb.image_size(), w, h);
    let at = Point::new(d.i(-4, 4), d.i(-4, 4));
    let mut rec = NativeT::<C>::new();
    fb.draw_image_onto(&mut rec, at);
    let mut expected: Map<C> = Map::new();
    for y in 0..h {
        for x in 0..w {
            expected.insert((x + at.x, y + at.y), *model.get(&(x, y)).unwrap_or(&zero));
        }
    }
    if let Some(df) = diff_maps("model", &expected, "drawing as_image()", &rec.0.map) {
        return fail("as_image:draw", df);
    }
    // the same onto a target that shows a window only and skips the hidden colours with `nth`
    let win = Rectangle::new(at + Point::new(d.i(0, w.min(12)), d.i(0, h.min(12))), Size::new(d.u(0, 9), d.u(1, 9)));
    let mut skipping = crate::props::c09::SkipT::<C> { window: win, map: Map::new(), mode: d.derived(0x5c1c, 4) as u8, drained: vec![] };
    fb.draw_image_onto_skipping(&mut skipping, at);
    let expected_win: Map<C> = expected.iter().filter(|(k, _)| win.contains(Point::new(k.0, k.1))).map(|(k, v)| (*k, *v)).collect();
    if let Some(df) = diff_maps("model restricted to the window", &expected_win, &format!("drawing as_image() onto a target that skips hidden colours (window {:?})", win), &skipping.map) {
        return fail("as_image:draw_skipping_target", df);
    }
    Ok(())
    })();
    cx.describe(|| format!("Framebuffer<{} bit, {}, {}x{}, N = buffer_size + {}>: {}", bpp, if be { "BigEndianLsb0" } else { "LittleEndianMsb0" }, w, h, extra, log.join("; ")));
    cx.class(match bpp {
        1 | 2 | 4 => "sub_byte",
        8 => "byte",
        _ => "multi_byte",
    });
    cx.nontrivial(overwritten && (xs_mod.len() >= 2 || (ppb == 1 && model.len() >= 2)));
    result
}
