//! C18 — curved primitives match their mathematical shapes and each other.

use crate::engine::*;
use crate::ensure;
use crate::exact::dist_to_ellipse;
use crate::gen::{self, *};
use embedded_graphics::primitives::{ContainsPoint, OffsetOutline, PointsIter};
use std::collections::BTreeSet;

pub fn prop() -> Prop {
    Prop {
        id: "C18",
        level: "exploration",
        rule: "complete enumerations: circles d <= 128, ellipses 0..=40^2 (64^2 thorough), rounded rectangles w,h <= 24 with zero radii and with radii = half sides, sectors/arcs of two diameters on the 5-degree (quick) / 1-degree (thorough) start x sweep grid in [-360,360]; proptest tapes: rounded rectangles with four independent radii (also >> side, to 300), sectors/arcs d <= 128 with start, sweep in [-720,720] integer and at 0.01-degree resolution, |sweep| >= 360 included. Sector/arc sub-checks run in the default and in the fixed_point build. Oracle: true Euclidean distance to the ideal ellipse (Eberly bisection, f64): a point whose centre is inside the ideal curve and more than 0.5 px from it must be included, one outside and more than 0.5 px from it must not; mirror symmetry about both centre lines; every row and column one run; circle touches the four sides of its box; circle == ellipse with equal axes; zero radii == rectangle; even sides with half radii == ellipse; confined radii sum <= side on all four sides; |sweep| >= 360: sector == circle, arc == circle minus circle.offset(-1); otherwise sector and arc are subsets of the circle and every mismatch between membership and the f64 angle test lies within 1.5 px of a radial boundary (arcs judged on the one-pixel ring). Non-trivial: d >= 5 and for sectors a sweep that is not a multiple of 90 degrees.",
        assumptions: vec![
            "contains() is the membership function of circle/ellipse/rounded rectangle/sector (points() == contains() is C05's business); arcs use points()",
            "f64 distances carry a 1e-6 guard on top of the stated tolerances (0.5 px band, 1.5 px at radial boundaries)",
            "angles are measured in screen coordinates (y down): angle of a point = atan2(y - cy, x - cx), measured on the pinned tree",
        ],
        subs: vec![
            Sub::enumerate("circles", circles),
            Sub::enumerate("ellipses", ellipses),
            Sub::enumerate("rrect_equivalences", rrect_equiv),
            Sub::tape("confine_display_scale", 40, 2_000_000, 100_000_000, confine_display_scale),
            Sub::tape("rrect_random", 64, 200_000, 10_000_000, rrect_random),
            Sub::tape("large_round", 24, 6_000, 300_000, large_round),
            Sub::tape("huge_round_sampled_rows", 200, 600, 30_000, huge_round),
            Sub::enumerate("sector_grid", sector_grid).with_fp(),
            Sub::tape("sectors_random", 16, 60_000, 3_000_000, sectors_random).with_fp(),
        ],
    }
}

type S = BTreeSet<(i32, i32)>;
const EPS: f64 = 1e-6;

/// Band, symmetry and contiguity checks of an ellipse-like shape inscribed in (tl, w x h).
fn check_ellipse_like(kind: &str, tl: Point, w: u32, h: u32, member: &dyn Fn(Point) -> bool) -> Result<usize, Fail> {
    let (a, b) = (w as f64 / 2.0, h as f64 / 2.0);
    let cx = tl.x as f64 + (w as f64 - 1.0) / 2.0;
    let cy = tl.y as f64 + (h as f64 - 1.0) / 2.0;
    let (x0, y0) = (tl.x - 2, tl.y - 2);
    let (ww, hh) = (w as i32 + 4, h as i32 + 4);
    let mut grid = vec![false; (ww * hh) as usize];
    let mut count = 0;
    for yy in 0..hh {
        for xx in 0..ww {
            let p = Point::new(x0 + xx, y0 + yy);
            let m = member(p);
            grid[(yy * ww + xx) as usize] = m;
            count += usize::from(m);
            if w == 0 || h == 0 {
                ensure!(!m, format!("{}:degenerate_not_empty", kind), "{:?} is included although the shape has a zero side ({}x{})", p, w, h);
                continue;
            }
            let (dx, dy) = (p.x as f64 - cx, p.y as f64 - cy);
            let gn = ((dx / a).powi(2) + (dy / b).powi(2)).sqrt();
            let inside = gn < 1.0;
            // cheap lower bound of the distance first (gn is Lipschitz with constant 1/min(a,b))
            let far = (gn - 1.0).abs() * a.min(b) > 0.5 + EPS || dist_to_ellipse(a, b, dx, dy) > 0.5 + EPS;
            if far {
                if inside {
                    ensure!(m, format!("{}:band_missing", kind), "{:?} lies inside the ideal {}x{} curve, more than 0.5 px from it, but is not included", p, w, h);
                } else {
                    ensure!(!m, format!("{}:band_extra", kind), "{:?} lies outside the ideal {}x{} curve, more than 0.5 px from it, but is included", p, w, h);
                }
            }
        }
    }
    let at = |xx: i32, yy: i32| grid[(yy * ww + xx) as usize];
    // symmetry about both centre lines
    for yy in 0..hh {
        for xx in 0..ww {
            let m = at(xx, yy);
            ensure!(m == at(ww - 1 - xx, yy) && m == at(xx, hh - 1 - yy), format!("{}:asymmetric", kind), "membership of {:?} differs from its mirror image ({}x{} at {:?})", Point::new(x0 + xx, y0 + yy), w, h, tl);
        }
    }
    check_runs(kind, &grid, ww, hh, Point::new(x0, y0))?;
    Ok(count)
}

/// Every row and every column is one contiguous run.
fn check_runs(kind: &str, grid: &[bool], ww: i32, hh: i32, origin: Point) -> Res {
    for yy in 0..hh {
        let mut state = 0; // 0 before, 1 in run, 2 after
        for xx in 0..ww {
            let m = grid[(yy * ww + xx) as usize];
            state = match (state, m) {
                (0, true) => 1,
                (1, false) => 2,
                (2, true) => {
                    return fail(format!("{}:row_not_contiguous", kind), format!("row y={} has a gap before x={}", origin.y + yy, origin.x + xx));
                }
                (s, _) => s,
            };
        }
    }
    for xx in 0..ww {
        let mut state = 0;
        for yy in 0..hh {
            let m = grid[(yy * ww + xx) as usize];
            state = match (state, m) {
                (0, true) => 1,
                (1, false) => 2,
                (2, true) => {
                    return fail(format!("{}:column_not_contiguous", kind), format!("column x={} has a gap before y={}", origin.x + xx, origin.y + yy));
                }
                (s, _) => s,
            };
        }
    }
    Ok(())
}

fn set(i: impl Iterator<Item = Point>) -> S {
    i.map(|p| (p.y, p.x)).collect()
}

const ORIGINS: [(i32, i32); 2] = [(-7, 4), (0, 0)];

fn circles(ex: &Ex) {
    ex.par(129, |d| {
        let d = d as u32;
        for (k, &(ox, oy)) in ORIGINS.iter().enumerate() {
            let tl = Point::new(ox - d as i32 / 2, oy);
            let c = Circle::new(tl, d);
            let r = (|| {
                check_ellipse_like("circle", tl, d, d, &|p| c.contains(p))?;
                let cs = set(c.points());
                if d > 0 {
                    let bb = c.bounding_box();
                    let br = bb.bottom_right().unwrap();
                    let touch = cs.iter().any(|p| p.1 == bb.top_left.x) && cs.iter().any(|p| p.1 == br.x) && cs.iter().any(|p| p.0 == bb.top_left.y) && cs.iter().any(|p| p.0 == br.y);
                    ensure!(touch, "circle:does_not_touch_box", "the circle of diameter {} does not touch all four sides of its bounding box", d);
                }
                let e = Ellipse::new(tl, Size::new(d, d));
                let es = set(e.points());
                ensure!(cs == es, "circle:differs_from_ellipse", "Circle d={} and Ellipse {}x{} differ in {:?}", d, d, d, cs.symmetric_difference(&es).take(4).collect::<Vec<_>>());
                for p in c.bounding_box().offset(1).points() {
                    ensure!(c.contains(p) == e.contains(p), "circle:contains_differs_from_ellipse", "contains({:?}) differs between Circle d={} and the equal-axes Ellipse", p, d);
                }
                Ok(())
            })();
            ex.check(d as u64 * 2 + k as u64, r, || format!("{:?}", c));
        }
        ex.add(2, if d >= 5 { 2 } else { 0 });
        if d % 31 == 7 {
            ex.sample(|| format!("Circle d={} at two origins", d));
        }
    });
}

fn ellipses(ex: &Ex) {
    let m: u64 = ex.tier.pick(40, 64);
    ex.par((m + 1) * (m + 1), |i| {
        let (w, h) = ((i % (m + 1)) as u32, (i / (m + 1)) as u32);
        let o = ORIGINS[(i % 2) as usize];
        let tl = Point::new(o.0 - w as i32 / 2, o.1 - h as i32 / 3);
        let e = Ellipse::new(tl, Size::new(w, h));
        let r = check_ellipse_like("ellipse", tl, w, h, &|p| e.contains(p)).map(|_| ());
        ex.check(i, r, || format!("{:?}", e));
        ex.add(1, u64::from(w >= 5 && h >= 5));
        if i % 211 == 17 {
            ex.sample(|| format!("{:?}", e));
        }
    });
}

fn rrect_equiv(ex: &Ex) {
    let m: u64 = 24;
    ex.par((m + 1) * (m + 1), |i| {
        let (w, h) = ((i % (m + 1)) as u32, (i / (m + 1)) as u32);
        let tl = Point::new(-7, 4);
        let r = Rectangle::new(tl, Size::new(w, h));
        let res = (|| {
            let rr = RoundedRectangle::with_equal_corners(r, Size::zero());
            let rp = set(r.points());
            ensure!(set(rr.points()) == rp, "rounded_rectangle:zero_radii_points", "zero radii: points() differ from the rectangle {:?}", r);
            for p in r.offset(2).points() {
                ensure!(rr.contains(p) == ContainsPoint::contains(&r, p), "rounded_rectangle:zero_radii_contains", "zero radii: contains({:?}) differs from the rectangle {:?}", p, r);
            }
            if w % 2 == 0 && h % 2 == 0 {
                let rr = RoundedRectangle::with_equal_corners(r, Size::new(w / 2, h / 2));
                let e = Ellipse::new(tl, Size::new(w, h));
                for p in r.offset(2).points() {
                    ensure!(rr.contains(p) == e.contains(p), "rounded_rectangle:half_radii_vs_ellipse", "radii = half sides: contains({:?}) differs from the ellipse {}x{}", p, w, h);
                }
                let (a, b) = (set(rr.points()), set(e.points()));
                ensure!(a == b, "rounded_rectangle:half_radii_vs_ellipse_points", "radii = half sides: points() differ from the ellipse {}x{}: {:?}", w, h, a.symmetric_difference(&b).take(4).collect::<Vec<_>>());
            }
            Ok(())
        })();
        ex.check(i, res, || format!("{:?}", r));
        ex.add(1, u64::from(w >= 5 && h >= 5));
        if i % 97 == 5 {
            ex.sample(|| format!("{:?} with zero radii and (if even) half-side radii", r));
        }
    });
}

fn rrect_random(d: &mut Dec, cx: &mut Cx) -> Res {
    let big = d.ratio(1, 4);
    let m = if big { 300 } else { 20 };
    let (w, h) = if big { (d.u(0, 60), d.u(0, 60)) } else { (d.size(24), d.size(24)) };
    let tl = gen::point(d, 9) + gen::far_offset(d);
    let radii = CornerRadii {
        top_left: Size::new(d.size(m), d.size(m)),
        top_right: Size::new(d.size(m), d.size(m)),
        bottom_right: Size::new(d.size(m), d.size(m)),
        bottom_left: Size::new(d.size(m), d.size(m)),
    };
    // auxiliary words 5..=7: one case in eight is a narrow strip (1..=5 px) whose one corner spans the
    // whole narrow side and is 8..=60 long, with sharp neighbours: corner rows / columns without a pixel
    let spanning = d.aux_u(5, 0, 7) == 7;
    let (w, h, radii) = if spanning {
        let v = d.aux_u(6, 0, 39);
        let (corner, tall, n) = (v % 4, (v / 4) % 2 == 0, 1 + v / 8);
        let v2 = d.aux_u(7, 0, 264);
        let long = 8 + v2 % 53;
        let r_long = long - (v2 / 53).min(long - 1);
        let (w, h) = if tall { (n, long) } else { (long, n) };
        let r = if tall { Size::new(n, r_long) } else { Size::new(r_long, n) };
        let z = Size::zero();
        let radii = match corner {
            0 => CornerRadii { top_left: r, top_right: z, bottom_right: z, bottom_left: z },
            1 => CornerRadii { top_left: z, top_right: r, bottom_right: z, bottom_left: z },
            2 => CornerRadii { top_left: z, top_right: z, bottom_right: r, bottom_left: z },
            _ => CornerRadii { top_left: z, top_right: z, bottom_right: z, bottom_left: r },
        };
        (w, h, radii)
    } else {
        (w, h, radii)
    };
    let rr = RoundedRectangle::new(Rectangle::new(tl, Size::new(w, h)), radii);
    cx.describe(|| format!("{:?}", rr));
    cx.class(if spanning { "strip_with_spanning_corner" } else if big { "radii_to_300" } else { "radii_to_20" });
    let conf = rr.confine_radii();
    let c = conf.corners;
    ensure!(conf.rectangle == rr.rectangle, "rounded_rectangle:confine_changes_rectangle", "confine_radii() changed the rectangle");
    let ok = c.top_left.width + c.top_right.width <= w
        && c.bottom_left.width + c.bottom_right.width <= w
        && c.top_left.height + c.bottom_left.height <= h
        && c.top_right.height + c.bottom_right.height <= h;
    ensure!(ok, "rounded_rectangle:confine_radii", "after confine_radii() the radii {:?} still add up to more than a side of {}x{}", c, w, h);
    // radii that already fit are not changed
    let fits = radii.top_left.width + radii.top_right.width <= w
        && radii.bottom_left.width + radii.bottom_right.width <= w
        && radii.top_left.height + radii.bottom_left.height <= h
        && radii.top_right.height + radii.bottom_right.height <= h;
    if fits {
        ensure!(c == radii, "rounded_rectangle:confine_changes_fitting_radii", "radii {:?} fit {}x{} but confine_radii() changed them to {:?}", radii, w, h, c);
    }
    // membership grid on bbox + 2
    let (x0, y0) = (tl.x - 2, tl.y - 2);
    let (ww, hh) = (w as i32 + 4, h as i32 + 4);
    let mut grid = vec![false; (ww * hh) as usize];
    // corner boxes (confined radii): (box origin, radii, ellipse centre in pixel-centre coordinates)
    let corners = [
        (tl, c.top_left, (tl.x as f64 + c.top_left.width as f64 - 0.5, tl.y as f64 + c.top_left.height as f64 - 0.5)),
        (
            Point::new(tl.x + w as i32 - c.top_right.width as i32, tl.y),
            c.top_right,
            (tl.x as f64 + w as f64 - c.top_right.width as f64 - 0.5, tl.y as f64 + c.top_right.height as f64 - 0.5),
        ),
        (
            Point::new(tl.x + w as i32 - c.bottom_right.width as i32, tl.y + h as i32 - c.bottom_right.height as i32),
            c.bottom_right,
            (tl.x as f64 + w as f64 - c.bottom_right.width as f64 - 0.5, tl.y as f64 + h as f64 - c.bottom_right.height as f64 - 0.5),
        ),
        (
            Point::new(tl.x, tl.y + h as i32 - c.bottom_left.height as i32),
            c.bottom_left,
            (tl.x as f64 + c.bottom_left.width as f64 - 0.5, tl.y as f64 + h as f64 - c.bottom_left.height as f64 - 0.5),
        ),
    ];
    let mut count = 0;
    // the same verdicts for the points() iterator (hit test and iterator are separate code)
    let budget = (ww * hh) as usize + 16;
    let mut pts: std::collections::BTreeSet<(i32, i32)> = Default::default();
    for (k, q) in rr.points().enumerate() {
        ensure!(k < budget, "rounded_rectangle:points_too_many", "points() yields more than {} points for a {}x{} rectangle", budget, w, h);
        pts.insert((q.x, q.y));
        ensure!(q.x >= tl.x && q.x < tl.x + w as i32 && q.y >= tl.y && q.y < tl.y + h as i32, "rounded_rectangle:points_outside_rectangle", "points() yields {:?} outside the rectangle", q);
    }
    for yy in 0..hh {
        for xx in 0..ww {
            let p = Point::new(x0 + xx, y0 + yy);
            let m = rr.contains(p);
            let mp = pts.contains(&(p.x, p.y));
            grid[(yy * ww + xx) as usize] = m;
            count += usize::from(m);
            let in_rect = p.x >= tl.x && p.x < tl.x + w as i32 && p.y >= tl.y && p.y < tl.y + h as i32;
            if !in_rect {
                ensure!(!m, "rounded_rectangle:outside_rectangle", "{:?} is included but lies outside the rectangle", p);
                continue;
            }
            // verdict of the ideal corners that cover p
            let mut must_in = true;
            let mut must_out = false;
            for (o, r, (ecx, ecy)) in corners.iter() {
                let covered = r.width > 0 && r.height > 0 && p.x >= o.x && p.x < o.x + r.width as i32 && p.y >= o.y && p.y < o.y + r.height as i32;
                if !covered {
                    continue;
                }
                let (a, b) = (r.width as f64, r.height as f64);
                let (dx, dy) = (p.x as f64 - ecx, p.y as f64 - ecy);
                let gn = ((dx / a).powi(2) + (dy / b).powi(2)).sqrt();
                let far = (gn - 1.0).abs() * a.min(b) > 0.5 + EPS || dist_to_ellipse(a, b, dx, dy) > 0.5 + EPS;
                if gn < 1.0 && far {
                    // clearly inside this corner
                } else if gn >= 1.0 && far {
                    must_out = true;
                    must_in = false;
                } else {
                    must_in = false; // inside the band: either is fine
                }
            }
            if must_out {
                ensure!(!m, "rounded_rectangle:corner_band_extra", "{:?} lies more than 0.5 px outside an ideal corner curve (confined radii {:?}) but is included", p, c);
                ensure!(!mp, "rounded_rectangle:corner_band_extra_points", "{:?} lies more than 0.5 px outside an ideal corner curve (confined radii {:?}) but points() yields it", p, c);
            } else if must_in {
                ensure!(m, "rounded_rectangle:corner_band_missing", "{:?} lies inside the rectangle and clear of every corner curve (confined radii {:?}) but is not included", p, c);
                ensure!(mp, "rounded_rectangle:corner_band_missing_points", "{:?} lies inside the rectangle and clear of every corner curve (confined radii {:?}) but points() does not yield it", p, c);
            }
        }
    }
    check_runs("rounded_rectangle", &grid, ww, hh, Point::new(x0, y0))?;
    cx.nontrivial((w >= 5 && h >= 5 && !fits && count >= 3) || (spanning && count >= 3));
    Ok(())
}

// ---------------------------------------------------------------------------------------------
// Sectors and arcs
// ---------------------------------------------------------------------------------------------

/// Distance from (dx, dy) to the ray from the origin at angle `deg` (screen convention).
fn dist_to_ray(dx: f64, dy: f64, deg: f64) -> f64 {
    let (s, c) = deg.to_radians().sin_cos();
    let along = dx * c + dy * s;
    if along <= 0.0 {
        (dx * dx + dy * dy).sqrt()
    } else {
        (dx * s - dy * c).abs()
    }
}

fn check_sector_arc(tl: Point, d: u32, start: f32, sweep: f32) -> Result<usize, Fail> {
    let c = Circle::new(tl, d);
    let cs = set(c.points());
    let sec = Sector::new(tl, d, start.deg(), sweep.deg());
    let arc = Arc::new(tl, d, start.deg(), sweep.deg());
    let budget = (d as usize + 2) * (d as usize + 2);
    let ss = set(sec.points().take(budget));
    let ars = set(arc.points().take(budget));
    ensure!(ss.is_subset(&cs), "sector:outside_circle", "sector points outside the circle: {:?}", ss.difference(&cs).take(4).collect::<Vec<_>>());
    ensure!(ars.is_subset(&cs), "arc:outside_circle", "arc points outside the circle: {:?}", ars.difference(&cs).take(4).collect::<Vec<_>>());
    let ring: S = cs.difference(&set(c.offset(-1).points())).copied().collect();
    if sweep.abs() >= 360.0 {
        ensure!(ss == cs, "sector:full_sweep_not_circle", "|sweep| >= 360 but the sector differs from the circle in {:?}", ss.symmetric_difference(&cs).take(4).collect::<Vec<_>>());
        ensure!(ars == ring, "arc:full_sweep_not_ring", "|sweep| >= 360 but the arc differs from the circle's one-pixel inside ring in {:?}", ars.symmetric_difference(&ring).take(4).collect::<Vec<_>>());
        // contains() of the sector as well
        for p in c.bounding_box().offset(1).points() {
            ensure!(sec.contains(p) == c.contains(p), "sector:full_sweep_contains", "|sweep| >= 360 but contains({:?}) differs from the circle", p);
        }
        return Ok(cs.len());
    }
    let cx = tl.x as f64 + (d as f64 - 1.0) / 2.0;
    let cy = tl.y as f64 + (d as f64 - 1.0) / 2.0;
    let (a0, a1) = if sweep >= 0.0 { (start as f64, start as f64 + sweep as f64) } else { (start as f64 + sweep as f64, start as f64) };
    let span = a1 - a0;
    for &(y, x) in &cs {
        let (dx, dy) = (x as f64 - cx, y as f64 - cy);
        let ang = dy.atan2(dx).to_degrees();
        let rel = (ang - a0).rem_euclid(360.0);
        let inside = rel <= span;
        let db = dist_to_ray(dx, dy, a0).min(dist_to_ray(dx, dy, a1));
        if db <= 1.5 + EPS {
            continue;
        }
        let in_s = ss.contains(&(y, x));
        if inside {
            ensure!(in_s, "sector:inside_sweep_missing", "circle point {:?} lies inside the sweep, {:.2} px from the nearest radial boundary, but is not in the sector", Point::new(x, y), db);
        } else if in_s {
            // F-21: for sweeps below the resolution of the boundary half-planes both boundaries
            // coincide and the sector degenerates to the full line through the centre.
            let opposite = sweep.abs() < 1.0 && dist_to_ray(dx, dy, a0 + 180.0).min(dist_to_ray(dx, dy, a1 + 180.0)) <= 1.5 + EPS;
            let sig = if opposite { "sector:tiny_sweep_opposite_ray" } else { "sector:outside_sweep_included" };
            return fail(sig, format!("sector point {:?} lies outside the sweep, {:.2} px from the nearest radial boundary", Point::new(x, y), db));
        }
        let in_a = ars.contains(&(y, x));
        if !inside {
            if in_a {
                let opposite = sweep.abs() < 1.0 && dist_to_ray(dx, dy, a0 + 180.0).min(dist_to_ray(dx, dy, a1 + 180.0)) <= 1.5 + EPS;
                let sig = if opposite { "arc:tiny_sweep_opposite_ray" } else { "arc:outside_sweep_included" };
                return fail(sig, format!("arc point {:?} lies outside the sweep, {:.2} px from the nearest radial boundary", Point::new(x, y), db));
            }
        } else if ring.contains(&(y, x)) {
            ensure!(in_a, "arc:inside_sweep_missing", "ring point {:?} lies inside the sweep, {:.2} px from the nearest radial boundary, but is not in the arc", Point::new(x, y), db);
        }
    }
    Ok(ss.len())
}

fn sector_grid(ex: &Ex) {
    let step: i64 = ex.tier.pick(5, 1);
    let starts: Vec<i64> = (0..360).step_by(step as usize).collect();
    let sweeps: Vec<i64> = (-360..=360).step_by(step as usize).collect();
    let ds: [u32; 2] = [11, 24];
    let n = starts.len() as u64;
    let (starts, sweeps) = (&starts, &sweeps);
    ex.par(n, |i| {
        let start = starts[i as usize] as f32;
        let mut nt = 0;
        let mut cnt = 0;
        for (k, &sw) in sweeps.iter().enumerate() {
            for (j, &d) in ds.iter().enumerate() {
                let tl = Point::new(-5, 3 - d as i32);
                let r = check_sector_arc(tl, d, start, sw as f32).map(|_| ());
                ex.check((i * 1000 + k as u64) * 2 + j as u64, r, || format!("Sector/Arc top_left={:?} d={} start={} sweep={}", tl, d, start, sw));
                cnt += 1;
                nt += u64::from(sw % 90 != 0);
            }
        }
        ex.add(cnt, nt);
        if i % 17 == 3 {
            ex.sample(|| format!("start={} x sweeps -360..=360 step {} x diameters {:?}", start, step, ds));
        }
    });
}

fn sectors_random(d: &mut Dec, cx: &mut Cx) -> Res {
    let dia = match d.u(0, 2) {
        0 => d.u(0, 12),
        1 => d.u(0, 48),
        _ => d.u(0, 128),
    };
    let tl = gen::point(d, 40) + gen::far_offset(d);
    let (start, sweep) = (gen::angle_deg(d), gen::angle_deg(d));
    cx.describe(|| format!("Sector/Arc top_left={:?} d={} start={} sweep={}", tl, dia, start, sweep));
    cx.class(if sweep.abs() >= 360.0 { "full" } else if sweep.fract() != 0.0 || start.fract() != 0.0 { "fractional" } else { "integer" });
    check_sector_arc(tl, dia, start, sweep)?;
    cx.nontrivial(dia >= 5 && sweep.abs() < 360.0 && (sweep % 90.0 != 0.0));
    Ok(())
}


/// Circles and ellipses of 100..=500 px against the ideal curve (the enumerations stop at 128 / 64).
fn large_round(d: &mut Dec, cx: &mut Cx) -> Res {
    let kind = if d.bool() { 1 } else { 2 };
    let s = gen::large_shape(d, kind, 100, 500).translate(gen::far_offset(d));
    cx.describe(|| format!("{:?}", s));
    cx.class(s.kind());
    cx.nontrivial(true);
    match s {
        Shape::Circle(c) => {
            check_ellipse_like("circle", c.top_left, c.diameter, c.diameter, &|p| c.contains(p))?;
            let e = Ellipse::new(c.top_left, Size::new(c.diameter, c.diameter));
            ensure!(c.points().eq(e.points()), "circle:differs_from_ellipse", "Circle d={} and the equal-axes Ellipse differ", c.diameter);
        }
        Shape::Ellipse(e) => {
            check_ellipse_like("ellipse", e.top_left, e.size.width, e.size.height, &|p| e.contains(p))?;
        }
        _ => unreachable!(),
    }
    Ok(())
}


/// Circles and ellipses of 1025..=20000 px judged on sampled rows: `contains()` against the half-pixel band
/// around the ideal curve at probes next to the curve, circle == equal-axes ellipse, the rows that a
/// filled shape draws (a row-sampling target; O(diameter) per draw) against `contains()`, each drawn row one
/// run, the circle touches its box; `points()` as a stream for diameters up to 4600.
fn huge_round(d: &mut Dec, cx: &mut Cx) -> Res {
    use crate::props::c06::huge_size;
    use crate::targets::RowsT;
    use embedded_graphics::primitives::{Primitive, PrimitiveStyle};
    use embedded_graphics::Drawable;
    let circle = d.ratio(2, 3);
    let (w, h) = if circle {
        let s = huge_size(d);
        (s, s)
    } else {
        match d.u(0, 2) {
            0 => (huge_size(d), d.u(1, 100)),
            1 => (d.u(1, 100), huge_size(d)),
            _ => (huge_size(d), huge_size(d)),
        }
    };
    let tl = if d.bool() { Point::new(-(w as i32) / 2 + d.i(-3, 3), -(h as i32) / 2 + d.i(-3, 3)) } else { Point::new(d.i(-29_000, 29_000 - w as i32), d.i(-29_000, 29_000 - h as i32)) };
    cx.describe(|| format!("{} {}x{} at {:?}", if circle { "Circle" } else { "Ellipse" }, w, h, tl));
    cx.class(if circle { "circle" } else { "ellipse" });
    cx.nontrivial(true);
    let kind = if circle { "circle" } else { "ellipse" };
    let c = Circle::new(tl, w);
    let e = Ellipse::new(tl, Size::new(w, h));
    let member = |p: Point| if circle { c.contains(p) } else { e.contains(p) };
    let (a, b) = (w as f64 / 2.0, h as f64 / 2.0);
    let cxf = tl.x as f64 + (w as f64 - 1.0) / 2.0;
    let cyf = tl.y as f64 + (h as f64 - 1.0) / 2.0;
    let (x0, x1, y0, y1) = (tl.x, tl.x + w as i32 - 1, tl.y, tl.y + h as i32 - 1);
    let mut rows: BTreeSet<i32> = BTreeSet::new();
    for base in [y0, y1, (y0 + y1) / 2, y0 + (h / 4) as i32, y0 + (h as f64 * 0.1464) as i32] {
        for k in -3..=3 {
            rows.insert(base + k);
        }
    }
    for _ in 0..24 {
        rows.insert(d.i(y0 - 2, y1 + 2));
    }
    let fill = PrimitiveStyle::with_fill(Rgb888::new(1, 2, 3));
    let mut t = RowsT::<Rgb888>::new(rows.iter().copied());
    if circle {
        c.into_styled(fill).draw(&mut t).map_err(|e| Fail { sig: "draw_error".into(), detail: format!("{:?}", e) })?;
    } else {
        e.into_styled(fill).draw(&mut t).map_err(|e| Fail { sig: "draw_error".into(), detail: format!("{:?}", e) })?;
    }
    let mut t2 = RowsT::<Rgb888>::new(rows.iter().copied());
    if circle {
        e.into_styled(fill).draw(&mut t2).map_err(|e| Fail { sig: "draw_error".into(), detail: format!("{:?}", e) })?;
    }
    for &y in &rows {
        let dy = y as f64 - cyf;
        let mut probes: BTreeSet<i32> = BTreeSet::new();
        let mut near = |x: i32| {
            for k in -3..=3 {
                probes.insert(x + k);
            }
        };
        near(x0);
        near(x1);
        near((x0 + x1) / 2);
        let q = 1.0 - (dy / b).powi(2);
        if q >= 0.0 {
            let hw = a * q.sqrt();
            near((cxf - hw).round() as i32);
            near((cxf + hw).round() as i32);
        }
        for x in t.run_ends(y) {
            near(x);
        }
        let runs = t.rows.get(&y).map(|r| r.len()).unwrap_or(0);
        ensure!(runs <= 1, format!("{}:row_not_contiguous", kind), "row {} of the filled {}x{} shape is drawn as {} runs", y, w, h, runs);
        for &x in &probes {
            let p = Point::new(x, y);
            let m = member(p);
            let dx = x as f64 - cxf;
            let gn = ((dx / a).powi(2) + (dy / b).powi(2)).sqrt();
            let inside = gn < 1.0;
            let far = (gn - 1.0).abs() * a.min(b) > 0.5 + EPS || dist_to_ellipse(a, b, dx, dy) > 0.5 + EPS;
            if far {
                if inside {
                    ensure!(m, format!("{}:band_missing", kind), "{:?} lies inside the ideal {}x{} curve at {:?}, more than 0.5 px from it, but is not included", p, w, h, tl);
                } else {
                    ensure!(!m, format!("{}:band_extra", kind), "{:?} lies outside the ideal {}x{} curve at {:?}, more than 0.5 px from it, but is included", p, w, h, tl);
                }
            }
            let drawn = t.color_at(p).is_some();
            ensure!(drawn == m, format!("{}:drawn_rows_vs_contains", kind), "{:?}: the filled {}x{} shape at {:?} {} the point, contains() = {}", p, w, h, tl, if drawn { "paints" } else { "does not paint" }, m);
            if circle {
                ensure!(e.contains(p) == m, "circle:differs_from_ellipse", "{:?}: Circle d={} contains = {}, the equal-axes Ellipse {}", p, w, m, e.contains(p));
                ensure!(t2.color_at(p).is_some() == drawn, "circle:differs_from_ellipse", "{:?}: the filled Circle d={} {} the point, the filled equal-axes Ellipse does the opposite", p, w, if drawn { "paints" } else { "does not paint" });
            }
        }
    }
    if circle {
        // touches all four sides of its box
        let mid_y = (y0 + y1) / 2;
        let ends = t.run_ends(mid_y);
        ensure!(ends.iter().min() == Some(&x0) && ends.iter().max() == Some(&x1), "circle:does_not_touch_box", "the centre row {} of the filled Circle d={} at {:?} spans {:?}, the box {}..={}", mid_y, w, tl, ends, x0, x1);
        ensure!(!t.run_ends(y0).is_empty() && !t.run_ends(y1).is_empty(), "circle:does_not_touch_box", "the first or last row of the filled Circle d={} at {:?} is empty", w, tl);
    }
    // points() as a stream: row-major, every sampled row one run equal to the drawn run
    if w as u64 * h as u64 <= 4600 * 4600 && d.ratio(1, 2) {
        let mut extents: std::collections::BTreeMap<i32, (i32, i32, u32)> = Default::default();
        let mut prev: Option<Point> = None;
        let mut feed = |p: Point| -> Res {
            if let Some(q) = prev {
                ensure!((q.y, q.x) < (p.y, p.x), format!("{}:points_not_row_major", kind), "points() yields {:?} after {:?}", p, q);
            }
            prev = Some(p);
            if rows.contains(&p.y) {
                let en = extents.entry(p.y).or_insert((p.x, p.x, 0));
                en.0 = en.0.min(p.x);
                en.1 = en.1.max(p.x);
                en.2 += 1;
            }
            Ok(())
        };
        if circle {
            for p in c.points() {
                feed(p)?;
            }
        } else {
            for p in e.points() {
                feed(p)?;
            }
        }
        for &y in &rows {
            let drawn: Option<(i32, i32)> = t.rows.get(&y).and_then(|r| r.first()).map(|r| (r.0, r.1));
            let pts = extents.get(&y).map(|e| (e.0, e.1));
            ensure!(drawn == pts, format!("{}:points_vs_drawn_rows", kind), "row {}: points() spans {:?}, the filled shape draws {:?} ({}x{} at {:?})", y, pts, drawn, w, h, tl);
            if let Some(en) = extents.get(&y) {
                ensure!(en.2 as i32 == en.1 - en.0 + 1, format!("{}:points_row_not_contiguous", kind), "row {}: points() yields {} points between {} and {}", y, en.2, en.0, en.1);
            }
        }
        cx.count("huge_points_streams", 1);
    }
    Ok(())
}

/// `confine_radii()` alone (no pixels) on rectangles up to 1100 px with radii up to 1100: the sums of the
/// radii that share a side never exceed the side, fitting radii stay as they are, confining twice changes
/// nothing more. Half of the cases make two sides overlap by almost the same ratio.
fn confine_display_scale(d: &mut Dec, cx: &mut Cx) -> Res {
    let (w, h) = match d.u(0, 3) {
        0 => (d.u(0, 40), d.u(0, 40)),
        1 => (d.u(300, 1100), d.u(0, 40)),
        _ => (d.u(200, 1100), d.u(200, 1100)),
    };
    let split = |d: &mut Dec, sum: u32| -> (u32, u32) {
        let a = d.u(0, sum);
        (a, sum - a)
    };
    let near_tie = d.bool();
    let radii = if near_tie && w > 0 && h > 0 {
        // overlap ratio rho = 1 + k/512 on one horizontal and one vertical side, up to a pixel
        let k = d.u(1, 700) as u64;
        let sum_for = |side: u32| ((side as u64 * (512 + k) + 256) / 512) as u32;
        let (hs, vs) = ((sum_for(w) as i64 + d.i(-2, 2) as i64).max(0) as u32, (sum_for(h) as i64 + d.i(-2, 2) as i64).max(0) as u32);
        let (a, b) = split(d, hs); // widths on one horizontal side
        let (c, e) = split(d, vs); // heights on one vertical side
        let (ow, oh) = (d.u(0, hs), d.u(0, vs));
        let other_w = split(d, ow);
        let other_h = split(d, oh);
        match d.u(0, 3) {
            // top + right, top + left, bottom + right, bottom + left carry the large sums
            0 => CornerRadii { top_left: Size::new(a, other_h.0), top_right: Size::new(b, c), bottom_right: Size::new(other_w.1, e), bottom_left: Size::new(other_w.0, other_h.1) },
            1 => CornerRadii { top_left: Size::new(a, c), top_right: Size::new(b, other_h.0), bottom_right: Size::new(other_w.1, other_h.1), bottom_left: Size::new(other_w.0, e) },
            2 => CornerRadii { top_left: Size::new(other_w.0, other_h.0), top_right: Size::new(other_w.1, c), bottom_right: Size::new(b, e), bottom_left: Size::new(a, other_h.1) },
            _ => CornerRadii { top_left: Size::new(other_w.0, c), top_right: Size::new(other_w.1, other_h.0), bottom_right: Size::new(b, other_h.1), bottom_left: Size::new(a, e) },
        }
    } else {
        let m = if d.bool() { 1100 } else { 300 };
        let r = |d: &mut Dec| Size::new(d.u(0, m), d.u(0, m));
        CornerRadii { top_left: r(d), top_right: r(d), bottom_right: r(d), bottom_left: r(d) }
    };
    let rr = RoundedRectangle::new(Rectangle::new(gen::point(d, 40), Size::new(w, h)), radii);
    cx.describe(|| format!("{:?}", rr));
    cx.class(if near_tie { "two_sides_overlap_by_nearly_the_same_ratio" } else { "independent_radii" });
    let conf = rr.confine_radii();
    let c = conf.corners;
    ensure!(conf.rectangle == rr.rectangle, "rounded_rectangle:confine_changes_rectangle", "confine_radii() changed the rectangle");
    let sums_ok = |c: &CornerRadii| {
        c.top_left.width as u64 + c.top_right.width as u64 <= w as u64
            && c.bottom_left.width as u64 + c.bottom_right.width as u64 <= w as u64
            && c.top_left.height as u64 + c.bottom_left.height as u64 <= h as u64
            && c.top_right.height as u64 + c.bottom_right.height as u64 <= h as u64
    };
    ensure!(sums_ok(&c), "rounded_rectangle:confine_radii", "after confine_radii() the radii {:?} still add up to more than a side of {}x{}", c, w, h);
    let fits = sums_ok(&radii);
    if fits {
        ensure!(c == radii, "rounded_rectangle:confine_changes_fitting_radii", "radii {:?} fit {}x{} but confine_radii() changed them to {:?}", radii, w, h, c);
    }
    let again = conf.confine_radii().corners;
    ensure!(again == c, "rounded_rectangle:confine_not_idempotent", "confining the confined radii {:?} of {}x{} changes them again to {:?}", c, w, h, again);
    cx.nontrivial(!fits && w > 0 && h > 0);
    Ok(())
}
