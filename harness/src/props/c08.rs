//! C08 — rendering is total and allocation-free on display-scale inputs.

use crate::alloc_count::counted;
use crate::engine::*;
use crate::gen::{self, *};
use crate::items::*;
use crate::props::c03::{apply_top, gen_op, with_stack, Layer, Op, Top};
use crate::props::c09::C32;
use crate::targets::*;
use embedded_graphics::{
    draw_target::DrawTarget,
    framebuffer::Framebuffer,
    geometry::{AnchorPoint, OriginDimensions},
    image::{GetPixel, Image, ImageDrawableExt, ImageRaw},
    iterator::raw::RawDataSlice,
    mono_font::{mapping::StrGlyphMapping, DecorationDimensions, MonoFont, MonoTextStyleBuilder},
    pixelcolor::raw::{BigEndianLsb0, LittleEndianMsb0, RawData, RawU1, RawU16, RawU2, RawU24, RawU32, RawU4, RawU8},
    primitives::{ContainsPoint, PointsIter, Primitive, StrokeStyle},
    text::{Alignment, Baseline, DecorationColor, LineHeight, Text, TextStyleBuilder},
    transform::Transform,
    Drawable,
};

pub fn prop() -> Prop {
    Prop {
        id: "C08",
        level: "exploration",
        rule: "proptest tapes decoding to display-scale inputs with boundary-biased values (0, 1, 2, 63..65, 255..257, 240, 320, 480, 1023, 1024 and their negatives; sizes log-uniformly spread): coordinates within +-1024, sizes up to 1024, stroke widths 0..=128 (also wider than the shape), solid and dotted strokes, angles in [-720,720] degrees, degenerate objects (zero sizes, coincident vertices, polylines of 0/1 vertex, empty strings and images, custom fonts with zero character size, an atlas narrower than a glyph, spacing to 1030, decoration offsets to 1024), line heights 0..=1024 px / 0..=400 %, adapter stacks with arbitrary (also zero-sized) areas, and out-of-range coordinates / indices for Framebuffer::set_pixel/pixel, ImageRaw::pixel/new, raw load/store, RawDataIterator::nth and sub_image. Every constructor, bounding_box, contains (probe points), points(), pixels(), pixel and draw (draw_iter-only and native-fill counting targets) is executed. Oracle: (1) no panic (catch_unwind; the build has overflow checks and debug assertions on), (2) termination by budget: every iterator and every draw is cut after 64 x (bounding box area + 4096) steps, exceeding it is a violation (no clock involved), (3) the counting global allocator, armed only around the library calls on this thread, must report 0 allocations. Sub-checks using Real arithmetic run in the default and the fixed_point build. Non-trivial: the case reaches a product-bearing path: a size >= 256, a stroke width >= 16 or a coordinate beyond +-255.",
        assumptions: vec![
            "no-allocation is observed per executed path; that both crates are #![no_std] without alloc is a static fact this check does not establish",
            "a loop that never yields and never calls the target cannot be cut by a step budget; the watchdog reports it as inconclusive (exit 2)",
            "Rectangle/Point arithmetic at the i32 extremes panics by design (documented 'too large' panics); such coordinates are only used for point queries (pixel, set_pixel, contains)",
            "thick triangles and polylines above 300 px are drawn with stroke widths <= 20 to bound the cost of a case",
        ],
        subs: vec![
            Sub::enumerate("instrument_selftest", instrument_selftest).with_fp(),
            Sub::tape("primitives", 64, 24_000, 1_200_000, |d, cx| primitives(d, cx, false)).with_fp(),
            Sub::tape("triangles_polylines", 64, 4_000, 200_000, |d, cx| primitives(d, cx, true)),
            Sub::tape("text", 300, 20_000, 1_000_000, text),
            Sub::tape("images_buffers", 120, 30_000, 1_500_000, images_buffers),
            Sub::tape("adapter_stacks", 200, 30_000, 1_500_000, adapter_stacks),
            Sub::tape("geometry_queries", 48, 40_000, 2_000_000, geometry_queries).with_fp(),
        ],
    }
}

const BOUNDS: [i32; 13] = [0, 1, 2, 63, 64, 65, 255, 256, 257, 240, 320, 480, 1024];

/// Boundary-biased magnitude in 0..=1024.
fn mag(d: &mut Dec) -> u32 {
    match d.u(0, 7) {
        0 => d.u(0, 3),
        1 => d.u(0, 40),
        2 | 3 => d.pick(&BOUNDS) as u32,
        4 => d.pick(&[1023, 1022, 511, 512, 513, 127, 128, 129]),
        5 => d.u(0, 300),
        _ => d.u(0, 1024),
    }
}

fn co(d: &mut Dec) -> i32 {
    let m = mag(d) as i32;
    if d.bool() {
        m
    } else {
        -m
    }
}

fn pt(d: &mut Dec) -> Point {
    Point::new(co(d), co(d))
}

fn width(d: &mut Dec) -> u32 {
    match d.u(0, 5) {
        0 => d.u(0, 3),
        1 | 2 => d.pick(&[0u32, 1, 2, 3, 15, 16, 17, 63, 64, 65, 127, 128]),
        3 => d.u(0, 20),
        _ => d.u(0, 128),
    }
}

fn dstyle(d: &mut Dec) -> PrimitiveStyle<Rgb888> {
    let mut b = PrimitiveStyleBuilder::new();
    if d.ratio(3, 4) {
        b = b.fill_color(Rgb888::nth(1));
    }
    if d.ratio(3, 4) {
        b = b.stroke_color(Rgb888::nth(2));
    }
    let mut s = b.stroke_width(width(d)).stroke_alignment(gen::alignment(d)).build();
    if d.ratio(1, 6) {
        s.stroke_style = StrokeStyle::Dotted;
    }
    s
}

fn angle(d: &mut Dec) -> f32 {
    match d.u(0, 3) {
        // (entry 2k is the k-th of the original integers; the odd entries lie a hair from zero, a quadrant
        // boundary or a full turn, down to the smallest subnormal, and `from_radians` values that are not
        // a float number of degrees)
        0 => d.pick(&[
            0.0f32, -1e-5, 90.0, 1e-5, 180.0, -1e-7, 270.0, 89.99999, 360.0, 90.00001, 720.0, 359.99997, -90.0, -359.99997, -180.0, 180.00002, -360.0, -1.0e-38, -720.0, 719.9999, 359.0,
            -1.4e-45, 361.0, 1.4e-45, 1.0, -5.729578e-6, -1.0, 5.729578e-6,
        ]),
        1 => d.i(-720, 720) as f32,
        _ => d.i(-72000, 72000) as f32 / 100.0,
    }
}

fn radius(d: &mut Dec) -> Size {
    Size::new(mag(d), mag(d))
}

fn budget_for(bb: Rectangle) -> u64 {
    64 * (bb.size.width as u64 * bb.size.height as u64 + 4096)
}

/// Verdict of one armed block: panic, budget, allocation.
fn judge(kind: &str, what: &str, r: (Result<Result<(), String>, PanicInfo>, u64)) -> Res {
    let (res, allocs) = r;
    match res {
        Err(p) => {
            let file = p.file.split("/repo/").last().unwrap_or(&p.file).to_string();
            let msg = p.msg.lines().next().unwrap_or("").chars().take(100).collect::<String>();
            fail(format!("panic:{}:{}", file, msg), format!("{} {} panicked at {}:{}: {}", kind, what, p.file, p.line, p.msg))
        }
        Ok(Err(budget)) => fail(format!("{}:budget_exceeded", kind), format!("{} {}: {}", kind, what, budget)),
        Ok(Ok(())) => {
            if allocs > 0 {
                fail(format!("{}:allocation", kind), format!("{} {}: {} heap allocation(s) while executing library code", kind, what, allocs))
            } else {
                Ok(())
            }
        }
    }
}

fn count_iter<T>(it: impl Iterator<Item = T>, budget: u64, what: &str) -> Result<u64, String> {
    let mut n = 0u64;
    for _ in it {
        n += 1;
        if n > budget {
            return Err(format!("{} yields more than {} items", what, budget));
        }
    }
    Ok(n)
}

fn draw_budget(r: Result<Option<Point>, Fault>, what: &str, budget: u64) -> Result<(), String> {
    match r {
        Ok(_) => Ok(()),
        Err(_) => Err(format!("{} delivers more than {} pixels", what, budget)),
    }
}

/// All queries and draws of an item; no allocation in here.
fn exercise_item(item: &Item<Rgb888>, probes: &[Point; 6]) -> Result<(), String> {
    let bb = item.bounding_box();
    let budget = budget_for(bb);
    let mut n1 = NullT::<Rgb888>::new(BIG_BOX, budget, false);
    draw_budget(item.draw(&mut n1), "draw() on a draw_iter-only target", budget)?;
    let mut n2 = NullT::<Rgb888>::new(BIG_BOX, budget, true);
    draw_budget(item.draw(&mut n2), "draw() on a native-fill target", budget)?;
    match item {
        Item::Styled(s, st) => {
            crate::with_shape!(s, |p| count_iter(p.into_styled(*st).pixels(), budget, "pixels()"))?;
            crate::with_shape!(s, |p| count_iter(p.points(), budget, "points()"))?;
            for q in probes {
                let _ = s.contains(*q);
                let _ = s.contains(bb.top_left + Point::new(q.x % 7, q.y % 5));
                let _ = s.contains(bb.center() + Point::new(q.y % 3, q.x % 3));
            }
            // fill / stroke areas and offsets of the closed shapes
            match s {
                Shape::Rect(p) => {
                    let x = p.into_styled(*st);
                    let _ = (x.fill_area().bounding_box(), x.stroke_area().bounding_box());
                }
                Shape::Circle(p) => {
                    let x = p.into_styled(*st);
                    let _ = (x.fill_area().bounding_box(), x.stroke_area().bounding_box(), p.center());
                }
                Shape::Ellipse(p) => {
                    let x = p.into_styled(*st);
                    let _ = (x.fill_area().bounding_box(), x.stroke_area().bounding_box(), p.center());
                }
                Shape::RRect(p) => {
                    let x = p.into_styled(*st);
                    let _ = (x.fill_area().bounding_box(), x.stroke_area().bounding_box(), p.confine_radii());
                }
                _ => {}
            }
        }
        Item::Polyline(p) => {
            let pl = Polyline::new(&p.pts).translate(p.offset);
            count_iter(pl.into_styled(p.style).pixels(), budget, "pixels()")?;
            count_iter(pl.points(), budget, "points()")?;
            let _ = pl.bounding_box();
        }
        _ => {}
    }
    // translated copy across the origin
    let by = Point::new(-bb.top_left.x / 2, 3);
    let mut n3 = NullT::<Rgb888>::new(BIG_BOX, budget, true);
    draw_budget(item.draw_translated(by, false, &mut n3), "draw() of the translated object", budget)?;
    let _ = item.bounding_box_translated(by);
    Ok(())
}

fn primitives(d: &mut Dec, cx: &mut Cx, thick_joins: bool) -> Res {
    let style = dstyle(d);
    let mut style = style;
    let item: Item<Rgb888> = if thick_joins {
        // sizes drawn log-uniformly; width capped above 300 px (cost)
        let scale = d.pick(&[6, 20, 100, 300, 1024]);
        if scale > 300 {
            style.stroke_width = style.stroke_width.min(20);
        }
        let q = |d: &mut Dec| Point::new(d.i(-scale, scale), d.i(-scale, scale));
        if d.bool() {
            let a = q(d);
            let sliver = d.ratio(1, 4);
            // slivers: two vertices one or two pixels apart, the third far away (very acute corner)
            let b = if sliver { a + Point::new(d.i(-2, 2), d.i(-2, 2)) } else if d.ratio(1, 8) { a } else { q(d) };
            let c = match d.u(0, 7) {
                0 if !sliver => a,
                1 if !sliver => b,
                2 => a + (b - a) * 2 / 3,
                _ => q(d),
            };
            if sliver && d.bool() {
                style.stroke_width = d.pick(&[20u32, 64, 99, 127, 128]).min(if scale > 300 { 20 } else { 128 });
            }
            Item::Styled(Shape::Triangle(Triangle::new(a, b, c)), style)
        } else {
            let n = d.u(0, 7);
            let mut pts = vec![];
            for i in 0..n {
                let p = if i > 0 && d.ratio(1, 6) { pts[i as usize - 1] } else { q(d) };
                pts.push(p);
            }
            let offset = if d.bool() { Point::zero() } else { q(d) };
            Item::Polyline(PolyItem { pts, offset, style })
        }
    } else {
        match d.u(0, 6) {
            0 => Item::Styled(Shape::Rect(Rectangle::new(pt(d), Size::new(mag(d), mag(d)))), style),
            1 => Item::Styled(Shape::Circle(Circle::new(pt(d), mag(d))), style),
            2 => Item::Styled(Shape::Ellipse(Ellipse::new(pt(d), Size::new(mag(d), mag(d)))), style),
            3 => {
                let r = Rectangle::new(pt(d), Size::new(mag(d), mag(d)));
                let radii = if d.bool() { CornerRadii::new(radius(d)) } else { CornerRadii { top_left: radius(d), top_right: radius(d), bottom_right: radius(d), bottom_left: radius(d) } };
                Item::Styled(Shape::RRect(RoundedRectangle::new(r, radii)), style)
            }
            4 => {
                let a = pt(d);
                let b = if d.ratio(1, 8) { a } else { pt(d) };
                Item::Styled(Shape::Line(Line::new(a, b)), style)
            }
            5 => Item::Styled(Shape::Arc(Arc::new(pt(d), mag(d), angle(d).deg(), angle(d).deg())), style),
            _ => Item::Styled(Shape::Sector(Sector::new(pt(d), mag(d), angle(d).deg(), angle(d).deg())), style),
        }
    };
    cx.describe(|| item.desc());
    cx.class(item.kind());
    let probes = [Point::zero(), Point::new(1, 1), Point::new(-1, 500), Point::new(1024, -1024), Point::new(-1024, 1023), Point::new(2048, -2048)];
    let (big, coords) = item_scale(&item);
    cx.nontrivial(big >= 256 || style.stroke_width >= 16 || coords > 255);
    let r = counted(|| catch(|| exercise_item(&item, &probes)));
    judge(item.kind(), "queries and draws", r)
}

fn item_scale(item: &Item<Rgb888>) -> (u32, i32) {
    let bb = catch(|| item.bounding_box()).unwrap_or(Rectangle::zero());
    let big = bb.size.width.max(bb.size.height);
    let coords = bb.top_left.x.abs().max(bb.top_left.y.abs());
    (big, coords)
}

// ---- text -------------------------------------------------------------------------------------

fn text(d: &mut Dec, cx: &mut Cx) -> Res {
    let custom = d.ratio(1, 2);
    let alignment = d.pick(&[Alignment::Left, Alignment::Center, Alignment::Right]);
    let baseline = d.pick(&[Baseline::Top, Baseline::Bottom, Baseline::Middle, Baseline::Alphabetic]);
    let line_height = match d.u(0, 3) {
        0 => LineHeight::Percent(100),
        1 => LineHeight::Percent(d.pick(&[0u32, 1, 99, 101, 399, 400, 200])),
        2 => LineHeight::Pixels(mag(d)),
        _ => LineHeight::Percent(d.u(0, 400)),
    };
    let text_style = TextStyleBuilder::new().alignment(alignment).baseline(baseline).line_height(line_height).build();
    let pos = pt(d);
    let fg = if d.ratio(3, 4) { Some(Rgb888::nth(3)) } else { None };
    let bg = if d.ratio(1, 2) { Some(Rgb888::nth(4)) } else { None };
    let (ul, st): (DecorationColor<Rgb888>, DecorationColor<Rgb888>) = (gen_decoration(d, 5), gen_decoration(d, 6));
    let build_style = |font: &'static MonoFont<'static>| {
        let mut b = MonoTextStyleBuilder::new().font(font);
        if let Some(c) = fg {
            b = b.text_color(c);
        }
        if let Some(c) = bg {
            b = b.background_color(c);
        }
        b = match ul {
            DecorationColor::None => b,
            DecorationColor::TextColor => b.underline(),
            DecorationColor::Custom(c) => b.underline_with_color(c),
        };
        b = match st {
            DecorationColor::None => b,
            DecorationColor::TextColor => b.strikethrough(),
            DecorationColor::Custom(c) => b.strikethrough_with_color(c),
        };
        b.build()
    };
    if d.ratio(1, 12) {
        // the null font: a style built without setting a font
        let n = d.u(0, 6);
        let mut s = String::new();
        for _ in 0..n {
            s.push(d.pick(&['a', ' ', '\n', '\r', '\u{1F600}', '?']));
        }
        cx.describe(|| format!("null font (MonoTextStyleBuilder without font) text {:?} at {:?} {:?} {:?} {:?}", s, pos, alignment, baseline, line_height));
        cx.class("null_font");
        cx.nontrivial(true);
        let mut b = MonoTextStyleBuilder::<Rgb888>::new();
        if let Some(c) = fg {
            b = b.text_color(c);
        }
        if let Some(c) = bg {
            b = b.background_color(c);
        }
        if !ul.is_none() {
            b = b.underline();
        }
        if !st.is_none() {
            b = b.strikethrough_with_color(Rgb888::nth(6));
        }
        let style = b.build();
        let r = counted(|| {
            catch(|| {
                let t = Text::with_text_style(&s, pos, style, text_style);
                let bb = t.bounding_box();
                let budget = budget_for(bb);
                let mut n1 = NullT::<Rgb888>::new(BIG_BOX, budget, false);
                t.draw(&mut n1).map_err(|_| "draw() on a draw_iter-only target exceeds the pixel budget".to_string())?;
                let mut n2 = NullT::<Rgb888>::new(BIG_BOX, budget, true);
                t.draw(&mut n2).map_err(|_| "draw() on a native-fill target exceeds the pixel budget".to_string())?;
                use embedded_graphics::text::renderer::TextRenderer;
                let _ = style.measure_string(&s, pos, baseline);
                let _ = style.line_height();
                Ok(())
            })
        });
        return judge("text", "null font", r);
    }
    if !custom {
        let fi = d.idx(FONTS.len());
        let s = gen_string(d, fi, 14, true, true);
        cx.describe(|| format!("built-in font {} text {:?} at {:?} {:?} {:?} {:?}", FONTS[fi].0, s, pos, alignment, baseline, line_height));
        cx.class("builtin_font");
        cx.nontrivial(pos.x.abs() > 255 || pos.y.abs() > 255 || matches!(line_height, LineHeight::Pixels(p) if p >= 256));
        let style = build_style(FONTS[fi].1);
        let r = counted(|| {
            catch(|| {
                let t = Text::with_text_style(&s, pos, style, text_style);
                let bb = t.bounding_box();
                let budget = budget_for(bb) + 64 * 40 * 40 * 16;
                let mut n1 = NullT::<Rgb888>::new(BIG_BOX, budget, false);
                t.draw(&mut n1).map_err(|_| "draw() on a draw_iter-only target exceeds the pixel budget".to_string())?;
                let mut n2 = NullT::<Rgb888>::new(BIG_BOX, budget, true);
                t.draw(&mut n2).map_err(|_| "draw() on a native-fill target exceeds the pixel budget".to_string())?;
                let _ = t.translate(Point::new(-pos.x, 1)).bounding_box();
                // the renderer interface directly: whitespace of display-scale width, measuring
                use embedded_graphics::text::renderer::TextRenderer;
                let ws = (pos.x.unsigned_abs() * 7 + 3) % 1025;
                let mut n3 = NullT::<Rgb888>::new(BIG_BOX, 64 * (1100 * 64 + 4096) * 4, true);
                style.draw_whitespace(ws, pos, baseline, &mut n3).map_err(|_| "draw_whitespace exceeds the pixel budget".to_string())?;
                style.draw_whitespace(0, pos, baseline, &mut n3).map_err(|_| "draw_whitespace exceeds the pixel budget".to_string())?;
                let _ = style.measure_string(&s, pos, baseline);
                let _ = style.draw_string(&s, pos, baseline, &mut n3);
                Ok(())
            })
        });
        return judge("text", "bounding_box and draws", r);
    }
    // degenerate custom fonts (leaked: the style needs 'static data; a few hundred bytes per case)
    let (cw, ch) = (d.pick(&[0u32, 1, 2, 5, 8, 9, 16, 40]), d.pick(&[0u32, 1, 2, 7, 8, 9, 16, 40]));
    let (iw, ih) = (d.pick(&[0u32, 1, 7, 8, 9, 16, 17, 40, 64]), d.pick(&[0u32, 1, 2, 8, 9, 16, 33]));
    let data: &'static [u8] = Box::leak(vec![0xA5u8; ((iw as usize + 7) / 8) * ih as usize].into_boxed_slice());
    let mstr: &'static str = d.pick(&["\0az", "abc", "", "\0\u{20}\u{7f}", "\0a", "\0zz"]);
    let mapping: &'static StrGlyphMapping<'static> = Box::leak(Box::new(StrGlyphMapping::new(mstr, d.pick(&[0usize, 1, 25, 31, 1000]))));
    let font: &'static MonoFont<'static> = Box::leak(Box::new(MonoFont {
        image: ImageRaw::new(data, Size::new(iw, ih)).unwrap(),
        character_size: Size::new(cw, ch),
        character_spacing: d.pick(&[0u32, 1, 3, 64, 1030]),
        baseline: mag(d),
        strikethrough: DecorationDimensions::new(mag(d), d.pick(&[0u32, 1, 2, 64])),
        underline: DecorationDimensions::new(mag(d), d.pick(&[0u32, 1, 2, 64])),
        glyph_mapping: mapping,
    }));
    let n = d.u(0, 8);
    let mut s = String::new();
    for _ in 0..n {
        s.push(d.pick(&['a', 'b', 'z', '?', ' ', '\n', '\r', '\u{1F600}', '~']));
    }
    cx.describe(|| format!("custom font glyph {}x{} atlas {}x{} mapping {:?} spacing {} baseline {} strikethrough {:?} underline {:?}; text {:?} at {:?} {:?} {:?} {:?}", cw, ch, iw, ih, mstr, font.character_spacing, font.baseline, font.strikethrough, font.underline, s, pos, alignment, baseline, line_height));
    cx.class("degenerate_custom_font");
    cx.nontrivial(font.character_spacing >= 64 || font.baseline >= 256 || cw == 0 || iw < cw);
    let style = build_style(font);
    let r = counted(|| {
        catch(|| {
            let t = Text::with_text_style(&s, pos, style, text_style);
            let bb = t.bounding_box();
            let budget = budget_for(bb) + 64 * 1100 * 70 * 16;
            let mut n1 = NullT::<Rgb888>::new(BIG_BOX, budget, false);
            t.draw(&mut n1).map_err(|_| "draw() on a draw_iter-only target exceeds the pixel budget".to_string())?;
            let mut n2 = NullT::<Rgb888>::new(BIG_BOX, budget, true);
            t.draw(&mut n2).map_err(|_| "draw() on a native-fill target exceeds the pixel budget".to_string())?;
            Ok(())
        })
    });
    judge("text", "degenerate custom font", r)
}

// ---- images, framebuffers, raw data -----------------------------------------------------------

fn far_point(d: &mut Dec) -> Point {
    let c = |d: &mut Dec| match d.u(0, 5) {
        0 => d.pick(&[i32::MIN, i32::MAX, i32::MIN + 1, i32::MAX - 1, -1, 0]),
        1 => d.i(-3, 20),
        2 => d.pick(&[1 << 20, -(1 << 20), 65535, 65536, -65536]),
        _ => co(d),
    };
    Point::new(c(d), c(d))
}

fn images_buffers(d: &mut Dec, cx: &mut Cx) -> Res {
    match d.u(0, 3) {
        0 => image_case(d, cx),
        1 => framebuffer_case(d, cx),
        2 => raw_case(d, cx),
        _ => image_new_case(d, cx),
    }
}

fn image_case(d: &mut Dec, cx: &mut Cx) -> Res {
    // sizes: small, or one long side
    let (w, h) = match d.u(0, 3) {
        0 => (d.u(0, 17), d.u(0, 17)),
        1 => (mag(d), d.u(0, 2)),
        2 => (d.u(0, 2), mag(d)),
        _ => (d.u(0, 40), d.u(0, 40)),
    };
    let be = d.bool();
    let bpp = d.pick(&[1u32, 4, 16, 24]);
    let n = ((w as usize * bpp as usize + 7) / 8) * h as usize;
    let data = vec![0x6Bu8; n];
    let pos = pt(d);
    let a1 = Rectangle::new(Point::new(d.pick(&[0, 1, -1, 1 << 20, -(1 << 20), 3]) + d.i(-3, 3), co(d)), Size::new(mag(d), mag(d)));
    let a2 = Rectangle::new(pt(d), Size::new(mag(d), d.u(0, 3)));
    let probes = [far_point(d), far_point(d), far_point(d), far_point(d)];
    cx.describe(|| format!("image {}x{} {} bpp big_endian {} at {:?}; sub-image areas {:?} / {:?}; pixel probes {:?}", w, h, bpp, be, pos, a1, a2, probes));
    cx.class("image");
    cx.nontrivial(w.max(h) >= 256 || pos.x.abs() > 255 || a1.top_left.x.abs() > 255);
    macro_rules! go {
        ($c:ty, $o:ty) => {{
            let r = counted(|| {
                catch(|| -> Result<(), String> {
                    let raw = ImageRaw::<$c, $o>::new(&data, Size::new(w, h)).map_err(|e| format!("{:?}", e))?;
                    for p in &probes {
                        let _ = raw.pixel(*p);
                    }
                    let budget = 64 * (w as u64 * h as u64 + 4096);
                    let s1 = raw.sub_image(&a1);
                    let s2 = s1.sub_image(&a2);
                    let s3 = raw.sub_image(&a2);
                    for native in [false, true] {
                        let mut t = NullT::<$c>::new(BIG_BOX, budget, native);
                        Image::new(&raw, pos).draw(&mut t).map_err(|_| "image draw exceeds the pixel budget".to_string())?;
                        Image::new(&s1, pos).draw(&mut t).map_err(|_| "sub-image draw exceeds the pixel budget".to_string())?;
                        Image::new(&s2, pos).draw(&mut t).map_err(|_| "nested sub-image draw exceeds the pixel budget".to_string())?;
                        Image::with_center(&s3, pos).draw(&mut t).map_err(|_| "centred sub-image draw exceeds the pixel budget".to_string())?;
                        let _ = (Image::new(&s2, pos).bounding_box(), Image::with_center(&raw, pos).bounding_box(), s1.size(), s2.size());
                    }
                    Ok(())
                })
            });
            judge("image", "pixel, sub_image and draws", r)
        }};
    }
    match (bpp, be) {
        (1, false) => go!(BinaryColor, LittleEndianMsb0),
        (1, true) => go!(BinaryColor, BigEndianLsb0),
        (4, false) => go!(Gray4, LittleEndianMsb0),
        (4, true) => go!(Gray4, BigEndianLsb0),
        (16, false) => go!(Rgb565, LittleEndianMsb0),
        (16, true) => go!(Rgb565, BigEndianLsb0),
        (_, false) => go!(Rgb888, LittleEndianMsb0),
        (_, true) => go!(Rgb888, BigEndianLsb0),
    }
}

fn image_new_case(d: &mut Dec, cx: &mut Cx) -> Res {
    let (w, h) = (mag(d), mag(d));
    let len = match d.u(0, 3) {
        0 => 0,
        1 => d.u(0, 64) as usize,
        2 => ((w as usize + 7) / 8) * h as usize,
        _ => w as usize * h as usize * 3,
    };
    let len = len.min(1 << 22);
    let data = vec![0u8; len];
    cx.describe(|| format!("ImageRaw::new with {} bytes for {}x{} (1, 8, 24, 32 bpp, both orders)", len, w, h));
    cx.class("image_new");
    cx.nontrivial(w >= 256 || h >= 256);
    let r = counted(|| {
        catch(|| -> Result<(), String> {
            let s = Size::new(w, h);
            let a = ImageRaw::<BinaryColor, LittleEndianMsb0>::new(&data, s).map(|i| i.size());
            let b = ImageRaw::<Gray8, BigEndianLsb0>::new(&data, s).map(|i| i.size());
            let c = ImageRaw::<Rgb888, LittleEndianMsb0>::new(&data, s).map(|i| i.pixel(Point::new(w as i32 - 1, h as i32 - 1)));
            let e = ImageRaw::<C32, BigEndianLsb0>::new(&data, s).map(|i| i.pixel(Point::new(0, h as i32)));
            let _ = (a.is_ok(), b.is_ok(), c.is_ok(), e.is_ok());
            Ok(())
        })
    });
    judge("image", "ImageRaw::new", r)
}

fn framebuffer_case(d: &mut Dec, cx: &mut Cx) -> Res {
    let pts = [far_point(d), far_point(d), far_point(d), far_point(d), far_point(d), far_point(d)];
    let which = d.u(0, 9);
    let area = Rectangle::new(pt(d), Size::new(mag(d), d.u(0, 40)));
    cx.describe(|| format!("framebuffer variant {} (9x3 / 5x2): set_pixel / pixel / draw_iter at {:?}, fill_solid {:?}", which, pts, area));
    cx.class("framebuffer");
    cx.nontrivial(pts.iter().any(|p| p.x < 0 || p.y < 0 || p.x > 9 || p.y > 3));
    macro_rules! go {
        ($c:ty, $r:ty, $o:ty, $w:expr, $h:expr, $bpp:expr, $col:expr) => {
            go!($c, $r, $o, $w, $h, $bpp, $col, 0)
        };
        // ($extra: spare bytes at the end of the buffer, also a number that is not a multiple of the pixel size)
        ($c:ty, $r:ty, $o:ty, $w:expr, $h:expr, $bpp:expr, $col:expr, $extra:expr) => {{
            let r = counted(|| {
                catch(|| -> Result<(), String> {
                    let mut fb = Framebuffer::<$c, $r, $o, $w, $h, { ($w * $bpp + 7) / 8 * $h + $extra }>::new();
                    // fills of exactly the whole framebuffer, of more than it, and a filled rectangle drawable
                    {
                        use embedded_graphics::primitives::{Primitive, PrimitiveStyle};
                        let whole = fb.bounding_box();
                        fb.fill_solid(&whole, $col).unwrap();
                        fb.fill_solid(&whole.offset(2), $col).unwrap();
                        whole.into_styled(PrimitiveStyle::with_fill($col)).draw(&mut fb).unwrap();
                        whole.offset(1).into_styled(PrimitiveStyle::with_fill($col)).draw(&mut fb).unwrap();
                        fb.fill_contiguous(&whole, core::iter::repeat($col).take(($w * $h) as usize)).unwrap();
                    }
                    for p in &pts {
                        fb.set_pixel(*p, $col);
                        let _ = fb.pixel(*p);
                        let _ = fb.as_image().pixel(*p);
                    }
                    fb.draw_iter(pts.iter().map(|p| embedded_graphics::Pixel(*p, $col))).unwrap();
                    fb.fill_solid(&area, $col).unwrap();
                    fb.clear($col).unwrap();
                    let img = fb.as_image();
                    let mut t = NullT::<$c>::new(BIG_BOX, 1 << 20, true);
                    Image::new(&img, pts[0].component_min(Point::new(1024, 1024)).component_max(Point::new(-1024, -1024))).draw(&mut t).map_err(|_| "as_image draw exceeds the budget".to_string())?;
                    Ok(())
                })
            });
            judge("framebuffer", "set_pixel, pixel, draws", r)
        }};
    }
    match which {
        0 => go!(BinaryColor, RawU1, LittleEndianMsb0, 9, 3, 1, BinaryColor::On),
        1 => go!(BinaryColor, RawU1, BigEndianLsb0, 5, 2, 1, BinaryColor::On),
        2 => go!(Gray4, RawU4, BigEndianLsb0, 9, 3, 4, Gray4::new(9)),
        3 => go!(Gray8, RawU8, LittleEndianMsb0, 9, 3, 8, Gray8::new(200)),
        4 => go!(Rgb565, RawU16, BigEndianLsb0, 5, 2, 16, Rgb565::new(3, 4, 5)),
        5 => go!(Rgb888, RawU24, LittleEndianMsb0, 9, 3, 24, Rgb888::new(3, 4, 5)),
        6 => go!(Rgb565, RawU16, LittleEndianMsb0, 5, 2, 16, Rgb565::new(3, 4, 5), 1),
        7 => go!(Rgb888, RawU24, BigEndianLsb0, 4, 4, 24, Rgb888::new(3, 4, 5), 16),
        8 => go!(Rgb888, RawU24, LittleEndianMsb0, 9, 3, 24, Rgb888::new(3, 4, 5), 2),
        _ => go!(Gray4, RawU4, LittleEndianMsb0, 9, 3, 4, Gray4::new(9), 3),
    }
}

fn raw_case(d: &mut Dec, cx: &mut Cx) -> Res {
    let len = d.u(0, 12) as usize;
    let idx = match d.u(0, 3) {
        0 => d.u(0, 40) as usize,
        1 => d.pick(&[usize::MAX, usize::MAX / 2, usize::MAX / 2 + 1, usize::MAX / 3 + 1, usize::MAX / 4 + 1, usize::MAX / 8 + 1]),
        2 => d.pick(&[1usize << 31, 1 << 32, 1 << 40, (1 << 32) - 1]),
        _ => len * 8 + d.u(0, 3) as usize,
    };
    let nth = d.pick(&[0usize, 1, 5, 1 << 33, usize::MAX, usize::MAX - 1]);
    cx.describe(|| format!("raw load/store in a {}-byte buffer at index {}, iterator nth({})", len, idx, nth));
    cx.class("raw_load_store");
    cx.nontrivial(idx > len * 8);
    let mut buf = vec![0x3Cu8; len];
    let r = counted(|| {
        catch(|| -> Result<(), String> {
            macro_rules! go {
                ($($t:ty),+) => { $(
                    let _ = <$t>::load::<LittleEndianMsb0>(&buf, idx);
                    let _ = <$t>::load::<BigEndianLsb0>(&buf, idx);
                    let _ = <$t>::from_u32(0x12345678).store::<LittleEndianMsb0>(&mut buf, idx);
                    let _ = <$t>::from_u32(0x9abcdef0).store::<BigEndianLsb0>(&mut buf, idx);
                    let mut it = RawDataSlice::<$t, BigEndianLsb0>::new(&buf).into_iter();
                    let _ = it.next();
                    let _ = it.nth(nth);
                    let _ = it.size_hint();
                    let _ = it.nth(nth);
                    let _ = it.next();
                    let mut it = RawDataSlice::<$t, LittleEndianMsb0>::new(&buf).into_iter();
                    let _ = it.nth(idx);
                    let _ = it.size_hint();
                )+ };
            }
            go!(RawU1, RawU2, RawU4, RawU8, RawU16, RawU24, RawU32);
            Ok(())
        })
    });
    judge("raw", "load/store/iterator", r)
}

// ---- adapter stacks ---------------------------------------------------------------------------

fn adapter_stacks(d: &mut Dec, cx: &mut Cx) -> Res {
    let parent_box = Rectangle::new(pt(d), Size::new(mag(d), mag(d)));
    let depth = d.u(1, 3);
    let mut stack = vec![];
    for _ in 0..depth {
        let r = Rectangle::new(pt(d), Size::new(if d.ratio(1, 5) { 0 } else { mag(d) }, if d.ratio(1, 5) { 0 } else { mag(d) }));
        stack.push(match d.u(0, 6) {
            0 | 1 => Layer::Clipped(r),
            2 | 3 => Layer::Cropped(r),
            4 | 5 => Layer::Translated(pt(d)),
            _ => Layer::Converted,
        });
    }
    // operations: small ones as in C03 (shifted), plus display-scale fills
    let mut ops: Vec<Op> = vec![];
    for k in 0..d.u(1, 4) {
        ops.push(match d.u(0, 3) {
            0 => gen_op(d, 1 + k * 80),
            1 => Op::FillSolid(Rectangle::new(pt(d), Size::new(mag(d), mag(d))), 7),
            2 => {
                let a = Rectangle::new(pt(d), Size::new(mag(d).min(300), d.u(0, 12)));
                let full = (a.size.width * a.size.height) as usize;
                let len = match d.u(0, 2) {
                    0 => full,
                    1 => d.u(0, full as u32) as usize,
                    _ => full + 5,
                };
                Op::FillContiguous(a, (0..len as u32).collect())
            }
            _ => Op::DrawIter((0..d.u(0, 6)).map(|i| (pt(d), i)).collect()),
        });
    }
    let native = d.bool();
    cx.describe(|| format!("parent box {:?} ({}), stack {:?}, operations {:?}", parent_box, if native { "native-fill" } else { "draw_iter-only" }, stack, ops.iter().map(|o| match o { Op::FillContiguous(a, s) => format!("FillContiguous({:?}, {} colours)", a, s.len()), o => format!("{:?}", o) }).collect::<Vec<_>>()));
    cx.class("adapter_stack");
    cx.nontrivial(parent_box.size.width >= 256 || stack.iter().any(|l| matches!(l, Layer::Clipped(r) | Layer::Cropped(r) if r.size.width >= 256 || r.top_left.x.abs() > 255)));
    let budget: u64 = 64 * (1100 * 1100 + 4096);
    let mut boxes: Vec<Rectangle> = Vec::with_capacity(8);
    let r = counted(|| {
        catch(|| -> Result<(), String> {
            let mut t = NullT::<Rgb888>::new(parent_box, budget, native);
            for op in &ops {
                boxes.clear();
                let mut res = Ok(());
                with_stack::<Rgb888>(&mut t, &stack, &mut boxes, &mut |top: Top| res = apply_top(top, op));
                res.map_err(|_| "an operation through the adapter stack exceeds the pixel budget".to_string())?;
            }
            Ok(())
        })
    });
    judge("adapter", "operations through the stack", r)
}

// ---- constructors and geometry queries --------------------------------------------------------

fn geometry_queries(d: &mut Dec, cx: &mut Cx) -> Res {
    let (p, q) = (pt(d), pt(d));
    let (s, s2) = (Size::new(mag(d), mag(d)), Size::new(mag(d), mag(d)));
    let dia = mag(d);
    let (a0, a1) = (angle(d), angle(d));
    let off = d.pick(&[0i32, 1, -1, 2, -2, 64, -64, 128, -128, 1024, -1024]);
    let anchor = d.pick(&[AnchorPoint::TopLeft, AnchorPoint::Center, AnchorPoint::BottomRight, AnchorPoint::CenterLeft, AnchorPoint::BottomCenter]);
    cx.describe(|| format!("points {:?} {:?} sizes {:?} {:?} diameter {} angles {} {} offset {} anchor {:?}", p, q, s, s2, dia, a0, a1, off, anchor));
    cx.class("constructors_queries");
    cx.nontrivial(s.width >= 256 || dia >= 256 || p.x.abs() > 255);
    let r = counted(|| {
        catch(|| -> Result<(), String> {
            use embedded_graphics::primitives::OffsetOutline;
            let r1 = Rectangle::new(p, s);
            let r2 = Rectangle::with_corners(p, q);
            let r3 = Rectangle::with_center(q, s2);
            let _ = (r1.intersection(&r2), r1.envelope(&r3), r2.center(), r3.bottom_right(), r1.resized(s2, anchor), r1.anchor_point(anchor), r1.offset(off), r3.offset(-off));
            let _ = (r1.contains(q), r1.rows(), r1.columns(), r1.is_zero_sized());
            let c = Circle::with_center(p, dia);
            let _ = (c.center(), c.bounding_box(), c.offset(off), c.contains(q), Circle::new(q, dia).center());
            let e = Ellipse::with_center(p, s);
            let _ = (e.center(), e.bounding_box(), e.offset(off), e.contains(q));
            let rr = RoundedRectangle::with_equal_corners(r1, s2);
            let _ = (rr.confine_radii(), rr.offset(off), rr.contains(q), rr.bounding_box());
            let arc = Arc::with_center(p, dia, a0.deg(), a1.deg());
            let sec = Sector::with_center(p, dia, a0.deg(), a1.deg());
            let _ = (arc.center(), arc.bounding_box(), arc.to_circle(), sec.center(), sec.bounding_box(), sec.contains(q), sec.offset(off));
            let l = Line::new(p, q);
            let _ = (l.bounding_box(), l.midpoint(), l.delta());
            let t = Triangle::new(p, q, r3.top_left);
            let _ = (t.bounding_box(), t.contains(q), t.contains(p));
            let _ = (Angle::from_degrees(a0).to_radians(), Angle::from_degrees(a1).normalize().to_degrees(), (Angle::from_degrees(a0) + Angle::from_degrees(a1)).abs());
            Ok(())
        })
    });
    judge("geometry", "constructors and queries", r)
}


/// The instruments must work in this very build: the allocation counter sees an allocation, the
/// build panics on arithmetic overflow (also inside the dependency) and on failed debug assertions.
/// A failure here is a defect of the harness (reported as inconclusive), not of the library.
fn instrument_selftest(ex: &Ex) {
    let (_, n_alloc) = counted(|| {
        let v: Vec<u8> = Vec::with_capacity(std::hint::black_box(64));
        std::hint::black_box(v.capacity())
    });
    let (_, n_none) = counted(|| std::hint::black_box(3u32) + 4);
    if n_alloc == 0 || n_none != 0 {
        ex.fail(0, "harness_panic:allocation_counter", format!("the counting allocator reports {} allocations for a Vec and {} for an addition", n_alloc, n_none), "self-test");
    }
    let overflow = catch(|| std::hint::black_box(i32::MAX) + std::hint::black_box(1));
    if overflow.is_ok() {
        ex.fail(1, "harness_panic:overflow_checks_off", "i32::MAX + 1 did not panic: the harness is built without overflow checks", "self-test");
    }
    // the same inside the library: Point addition uses plain `+` on i32
    let lib_overflow = catch(|| Point::new(std::hint::black_box(i32::MAX), 0) + Point::new(std::hint::black_box(1), 0));
    if lib_overflow.is_ok() {
        ex.fail(2, "harness_panic:overflow_checks_off_in_dependency", "Point::new(i32::MAX, 0) + Point::new(1, 0) did not panic: embedded-graphics is built without overflow checks", "self-test");
    }
    if !cfg!(debug_assertions) {
        ex.fail(3, "harness_panic:debug_assertions_off", "debug assertions are off", "self-test");
    }
    ex.add(4, 4);
    ex.sample(|| "allocation counter sees Vec::with_capacity and stays 0 for arithmetic; i32 overflow panics in the harness and inside embedded-graphics; debug assertions on".to_string());
}
