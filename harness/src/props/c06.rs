//! C06 — stroke and fill of closed shapes follow fill_area()/stroke_area().

use crate::engine::*;
use crate::ensure;
use crate::gen::{self, *};
use crate::targets::*;
use embedded_graphics::draw_target::DrawTarget;
use embedded_graphics::primitives::{ContainsPoint, PointsIter, Primitive};
use embedded_graphics::Drawable;

pub fn prop() -> Prop {
    Prop {
        id: "C06",
        level: "exploration",
        rule: "proptest tapes decoding to one of the four closed shapes (sizes 0..=24 biased small, so strokes are often wider than the shape; a quarter of the cases up to 60) x PrimitiveStyle (fill/stroke colour present or absent, width 0..=12, three alignments, solid). Oracle: a reference renderer built from the hit-test API (fill colour iff fill_area().contains, else stroke colour iff stroke_area().contains and width > 0, else untouched) compared with draw() on a native-fill target and with pixels() through draw_iter; geometric clause on the bounding boxes of the two areas (grown by the outside part, shrunk by the inside part, zero-sized when collapsed) and direct clauses 'inside stroke never paints outside the shape' / 'outside stroke never paints inside it'. Non-trivial: both a fill and a stroke pixel exist, or the fill area is collapsed in exactly one dimension while a stroke is drawn.",
        assumptions: vec![
            "contains() of the four shapes is the membership function (pinned separately by C05 and C18)",
            "the geometric clause is only asserted for non-degenerate shapes (both sides > 0), as stated",
        ],
        subs: vec![
            Sub::tape("rectangle", 40, 100_000, 5_000_000, |d, cx| run(d, cx, 0)),
            Sub::tape("circle", 40, 100_000, 5_000_000, |d, cx| run(d, cx, 1)),
            Sub::tape("ellipse", 40, 100_000, 5_000_000, |d, cx| run(d, cx, 2)),
            Sub::tape("rounded_rectangle", 72, 140_000, 7_000_000, |d, cx| run(d, cx, 3)),
            Sub::tape("large", 72, 3_000, 150_000, |d, cx| { let k = d.u(0, 3); run(d, cx, k + 100) }),
        ],
    }
}


struct Outcome {
    fill_px: usize,
    stroke_px: usize,
    collapsed_one: bool,
}

macro_rules! check_closed {
    ($kind:expr, $p:expr, $style:expr) => {{
        let p = $p;
        let style: PrimitiveStyle<C> = $style;
        let kind: &str = $kind;
        let s = p.into_styled(style);
        let fa = s.fill_area();
        let sa = s.stroke_area();
        let mut native = NativeT::<C>::new();
        s.draw(&mut native).map_err(|e| Fail { sig: format!("{}:draw_error", kind), detail: format!("{:?}", e) })?;
        let mut it = IterT::<C>::new();
        it.draw_iter(s.pixels()).map_err(|e| Fail { sig: format!("{}:draw_error", kind), detail: format!("{:?}", e) })?;

        let pb = p.bounding_box();
        let sb = sa.bounding_box();
        // probe window: envelope of the shape box and the stroke area box, plus a margin
        let env = Rectangle::new(pb.top_left, Size::new(pb.size.width.max(1), pb.size.height.max(1)))
            .envelope(&Rectangle::new(sb.top_left, Size::new(sb.size.width.max(1), sb.size.height.max(1))));
        let win = env.offset(3);
        let mut exp: Map<C> = Map::new();
        let (mut fill_px, mut stroke_px) = (0, 0);
        for q in win.points() {
            if fa.contains(q) {
                if let Some(c) = style.fill_color {
                    exp.insert((q.x, q.y), c);
                    fill_px += 1;
                }
            } else if sa.contains(q) && style.stroke_width > 0 {
                if let Some(c) = style.stroke_color {
                    exp.insert((q.x, q.y), c);
                    stroke_px += 1;
                }
            }
        }
        if let Some(d) = diff_maps("expected(fill_area/stroke_area)", &exp, "draw()", &native.0.map) {
            return fail(format!("{}:draw_vs_areas", kind), d);
        }
        if let Some(d) = diff_maps("expected(fill_area/stroke_area)", &exp, "pixels()", &it.0.map) {
            return fail(format!("{}:pixels_vs_areas", kind), d);
        }
        // geometric meaning for non-degenerate shapes
        let (i, o) = match style.stroke_alignment {
            StrokeAlignment::Inside => (style.stroke_width, 0),
            StrokeAlignment::Outside => (0, style.stroke_width),
            StrokeAlignment::Center => ((style.stroke_width + 1) / 2, style.stroke_width / 2),
        };
        let mut collapsed_one = false;
        if pb.size.width > 0 && pb.size.height > 0 {
            let exp_s = Rectangle::new(pb.top_left - Point::new(o as i32, o as i32), pb.size + Size::new(2 * o, 2 * o));
            ensure!(sb == exp_s, format!("{}:stroke_area_geometry", kind), "stroke_area() box {:?}, expected {:?} (shape box {:?} grown by {})", sb, exp_s, pb, o);
            let fb = fa.bounding_box();
            let (cw, ch) = (pb.size.width <= 2 * i, pb.size.height <= 2 * i);
            if !cw && !ch {
                let exp_f = Rectangle::new(pb.top_left + Point::new(i as i32, i as i32), pb.size - Size::new(2 * i, 2 * i));
                ensure!(fb == exp_f, format!("{}:fill_area_geometry", kind), "fill_area() box {:?}, expected {:?} (shape box {:?} shrunk by {})", fb, exp_f, pb, i);
            } else {
                ensure!(fb.is_zero_sized(), format!("{}:fill_area_not_collapsed", kind), "fill_area() box {:?} should be zero sized (shape box {:?} shrunk by {})", fb, pb, i);
                collapsed_one = cw != ch;
            }
            // direct clauses
            for (&(x, y), &c) in native.0.map.iter() {
                let q = Point::new(x, y);
                if style.stroke_alignment == StrokeAlignment::Inside {
                    ensure!(p.contains(q), format!("{}:inside_stroke_outside_shape", kind), "inside-aligned style paints {:?} which is outside the shape", q);
                }
                if style.stroke_alignment == StrokeAlignment::Outside && Some(c) == style.stroke_color && style.stroke_width > 0 && Some(c) != style.fill_color {
                    ensure!(!p.contains(q), format!("{}:outside_stroke_inside_shape", kind), "outside-aligned stroke paints {:?} which is inside the shape", q);
                }
            }
        }
        Ok::<Outcome, Fail>(Outcome { fill_px, stroke_px, collapsed_one })
    }};
}

fn run(d: &mut Dec, cx: &mut Cx, kind: u32) -> Res {
    // colour type: auxiliary word 6 (Rgb888 for a zero word)
    match d.aux_u(6, 0, 7) {
        0..=3 => run_c::<Rgb888>(d, cx, kind),
        4 | 5 => run_c::<BinaryColor>(d, cx, kind),
        6 => run_c::<Gray8>(d, cx, kind),
        _ => run_c::<Rgb565>(d, cx, kind),
    }
}

fn run_c<C: Col>(d: &mut Dec, cx: &mut Cx, kind: u32) -> Res {
    let big = d.ratio(1, 4);
    let dom = ShapeDom { r: 8, max: if big { 60 } else { 24 } };
    // kinds >= 100: the same four shapes at 100..=400 px with strokes up to 60 (sub-check "large")
    let (shape, style) = if kind >= 100 {
        (gen::large_shape(d, kind - 100, 100, 400), gen::style::<C>(d, 60))
    } else {
        (gen::shape_of_kind(d, kind, dom), gen::style::<C>(d, 12))
    };
    let shape = shape.translate(gen::far_offset(d));
    cx.describe(|| format!("{:?} {} [{}]", shape, gen::style_desc(&style), C::NAME));
    cx.class(match style.stroke_alignment {
        StrokeAlignment::Inside => "inside",
        StrokeAlignment::Center => "center",
        StrokeAlignment::Outside => "outside",
    });
    if let Shape::RRect(rr) = &shape {
        // corners of one side pair with the same height and different widths, all of them at most as wide
        // as the inside part of the stroke but taller than it: the fill area's corners are equal while
        // the stroke area is asymmetric in rows that contain fill
        let c = rr.confine_radii().corners;
        let inside = match style.stroke_alignment {
            StrokeAlignment::Inside => style.stroke_width,
            StrokeAlignment::Center => (style.stroke_width + 1) / 2,
            StrokeAlignment::Outside => 0,
        };
        let pair = |a: Size, b: Size| a.height == b.height && a.width != b.width && a.width.max(b.width) <= inside && a.height > inside;
        cx.count("rrect_equal_height_unequal_width_corners_under_the_stroke", u64::from(pair(c.top_left, c.top_right) || pair(c.bottom_left, c.bottom_right)));
    }
    let out = match &shape {
        Shape::Rect(p) => check_closed!("rectangle", *p, style)?,
        Shape::Circle(p) => check_closed!("circle", *p, style)?,
        Shape::Ellipse(p) => check_closed!("ellipse", *p, style)?,
        Shape::RRect(p) => check_closed!("rounded_rectangle", *p, style)?,
        _ => unreachable!(),
    };
    cx.nontrivial((out.fill_px > 0 && out.stroke_px > 0) || (out.collapsed_one && out.stroke_px > 0));
    Ok(())
}
