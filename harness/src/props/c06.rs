//! C06 — stroke and fill of closed shapes follow fill_area()/stroke_area().

use crate::engine::*;
use crate::ensure;
use crate::gen::{self, *};
use crate::targets::*;
use embedded_graphics::draw_target::DrawTarget;
use embedded_graphics::primitives::{ContainsPoint, PointsIter, Primitive};
use embedded_graphics::Drawable;

pub fn prop() -> Prop {
    Prop {
        id: "C06",
        level: "exploration",
        rule: "proptest tapes decoding to one of the four closed shapes (sizes 0..=24 biased small, so strokes are often wider than the shape; a quarter of the cases up to 60) x PrimitiveStyle (fill/stroke colour present or absent, width 0..=12, three alignments, solid). Oracle: a reference renderer built from the hit-test API (fill colour iff fill_area().contains, else stroke colour iff stroke_area().contains and width > 0, else untouched) compared with draw() on a native-fill target and with pixels() through draw_iter; geometric clause on the bounding boxes of the two areas (grown by the outside part, shrunk by the inside part, zero-sized when collapsed) and direct clauses 'inside stroke never paints outside the shape' / 'outside stroke never paints inside it'. Sub-check small_shapes_grid: complete enumeration of circles d <= 100, rectangles <= 12x12 and equal-corner rounded rectangles <= 12x12 (radius <= 6) x stroke widths x three alignments x {fill + stroke, stroke only, fill only}. Sub-check ellipse_grid: complete enumeration of ellipses w,h <= 64 (thorough: <= 100) x every inside stroke width 1..=ceil(min(w,h)/2) with fill and stroke colour (a search for the start of the fill inside a stroke row can be wrong for isolated sizes only). Non-trivial: both a fill and a stroke pixel exist, or the fill area is collapsed in exactly one dimension while a stroke is drawn.",
        assumptions: vec![
            "contains() of the four shapes is the membership function (pinned separately by C05 and C18)",
            "the geometric clause is only asserted for non-degenerate shapes (both sides > 0), as stated",
        ],
        subs: vec![
            Sub::enumerate("ellipse_grid", ellipse_grid),
            Sub::enumerate("small_shapes_grid", small_shapes_grid),
            Sub::tape("rectangle", 40, 100_000, 5_000_000, |d, cx| run(d, cx, 0)),
            Sub::tape("circle", 40, 100_000, 5_000_000, |d, cx| run(d, cx, 1)),
            Sub::tape("ellipse", 40, 100_000, 5_000_000, |d, cx| run(d, cx, 2)),
            Sub::tape("rounded_rectangle", 72, 140_000, 7_000_000, |d, cx| run(d, cx, 3)),
            Sub::tape("large", 72, 3_000, 150_000, |d, cx| { let k = d.u(0, 3); run(d, cx, k + 100) }),
            Sub::tape("huge_sampled_rows", 1400, 1_200, 60_000, huge),
            Sub::enumerate("circle_all_diameters", circle_all_diameters),
        ],
    }
}


thread_local! {
    /// Set by the areas check when the hit-test API itself shows areas that are not nested (F-26).
    static NOT_NESTED: std::cell::Cell<bool> = const { std::cell::Cell::new(false) };
}

struct Outcome {
    fill_px: usize,
    stroke_px: usize,
    collapsed_one: bool,
}

macro_rules! check_closed {
    ($kind:expr, $p:expr, $style:expr) => {{
        let p = $p;
        let style: PrimitiveStyle<C> = $style;
        let kind: &str = $kind;
        let s = p.into_styled(style);
        let fa = s.fill_area();
        let sa = s.stroke_area();
        let mut native = NativeT::<C>::new();
        s.draw(&mut native).map_err(|e| Fail { sig: format!("{}:draw_error", kind), detail: format!("{:?}", e) })?;
        let mut it = IterT::<C>::new();
        it.draw_iter(s.pixels()).map_err(|e| Fail { sig: format!("{}:draw_error", kind), detail: format!("{:?}", e) })?;

        let pb = p.bounding_box();
        let sb = sa.bounding_box();
        // probe window: envelope of the shape box and the stroke area box, plus a margin
        let env = Rectangle::new(pb.top_left, Size::new(pb.size.width.max(1), pb.size.height.max(1)))
            .envelope(&Rectangle::new(sb.top_left, Size::new(sb.size.width.max(1), sb.size.height.max(1))));
        let win = env.offset(3);
        let mut exp: Map<C> = Map::new();
        let (mut fill_px, mut stroke_px) = (0, 0);
        for q in win.points() {
            if fa.contains(q) {
                if let Some(c) = style.fill_color {
                    exp.insert((q.x, q.y), c);
                    fill_px += 1;
                }
            } else if sa.contains(q) && style.stroke_width > 0 {
                if let Some(c) = style.stroke_color {
                    exp.insert((q.x, q.y), c);
                    stroke_px += 1;
                }
            }
        }
        // F-26 (known finding): the areas of a rounded rectangle whose radii need confining are not nested
        // (fill area not inside the shape / the stroke area, shape not inside the stroke area), because
        // `offset` works on the unconfined radii. Points where the nesting fails, from the hit-test API alone:
        let mut not_nested: std::collections::BTreeSet<(i32, i32)> = Default::default();
        if kind == "rounded_rectangle" {
            for q in win.points() {
                let (f, sh, st) = (fa.contains(q), p.contains(q), sa.contains(q));
                if (f && !sh) || (f && !st) || (sh && !st) {
                    not_nested.insert((q.x, q.y));
                }
            }
        }
        NOT_NESTED.with(|c| c.set(!not_nested.is_empty()));
        // a disagreement that is confined to such points is that finding; anything else is reported as usual
        let differing = |got: &Map<C>| -> Vec<(i32, i32)> {
            let mut v: Vec<(i32, i32)> = exp.iter().filter(|(k, c)| got.get(*k) != Some(*c)).map(|(k, _)| *k).collect();
            v.extend(got.keys().filter(|k| !exp.contains_key(*k)).copied());
            v
        };
        let known = |pts: &[(i32, i32)]| !pts.is_empty() && pts.iter().all(|k| not_nested.contains(k));
        // `draw()` and `pixels()` follow the same areas, so they agree with each other — checked first and on its
        // own, because a disagreement between the two is never the known finding F-26 (which is about the areas),
        // also where it falls on points whose areas are not nested (the reverted fix F-25 does exactly that)
        if let Some(d) = diff_maps("draw()", &native.0.map, "pixels()", &it.0.map) {
            return fail(format!("{}:pixels_vs_draw", kind), d);
        }
        if let Some(d) = diff_maps("expected(fill_area/stroke_area)", &exp, "draw()", &native.0.map) {
            if known(&differing(&native.0.map)) {
                return fail("rounded_rectangle:areas_not_nested", format!("fill_area() / the shape / stroke_area() are not nested at {} point(s), e.g. {:?}, and draw() differs from the areas only there: {}", not_nested.len(), not_nested.iter().next(), d));
            }
            return fail(format!("{}:draw_vs_areas", kind), d);
        }
        if let Some(d) = diff_maps("expected(fill_area/stroke_area)", &exp, "pixels()", &it.0.map) {
            if known(&differing(&it.0.map)) {
                return fail("rounded_rectangle:areas_not_nested", format!("fill_area() / the shape / stroke_area() are not nested at {} point(s), e.g. {:?}, and pixels() differs from the areas only there: {}", not_nested.len(), not_nested.iter().next(), d));
            }
            return fail(format!("{}:pixels_vs_areas", kind), d);
        }
        // geometric meaning for non-degenerate shapes
        let (i, o) = match style.stroke_alignment {
            StrokeAlignment::Inside => (style.stroke_width, 0),
            StrokeAlignment::Outside => (0, style.stroke_width),
            StrokeAlignment::Center => ((style.stroke_width + 1) / 2, style.stroke_width / 2),
        };
        let mut collapsed_one = false;
        if pb.size.width > 0 && pb.size.height > 0 {
            let exp_s = Rectangle::new(pb.top_left - Point::new(o as i32, o as i32), pb.size + Size::new(2 * o, 2 * o));
            ensure!(sb == exp_s, format!("{}:stroke_area_geometry", kind), "stroke_area() box {:?}, expected {:?} (shape box {:?} grown by {})", sb, exp_s, pb, o);
            let fb = fa.bounding_box();
            let (cw, ch) = (pb.size.width <= 2 * i, pb.size.height <= 2 * i);
            if !cw && !ch {
                let exp_f = Rectangle::new(pb.top_left + Point::new(i as i32, i as i32), pb.size - Size::new(2 * i, 2 * i));
                ensure!(fb == exp_f, format!("{}:fill_area_geometry", kind), "fill_area() box {:?}, expected {:?} (shape box {:?} shrunk by {})", fb, exp_f, pb, i);
            } else {
                ensure!(fb.is_zero_sized(), format!("{}:fill_area_not_collapsed", kind), "fill_area() box {:?} should be zero sized (shape box {:?} shrunk by {})", fb, pb, i);
                collapsed_one = cw != ch;
            }
            // direct clauses
            for (&(x, y), &c) in native.0.map.iter() {
                let q = Point::new(x, y);
                if style.stroke_alignment == StrokeAlignment::Inside {
                    if !p.contains(q) && not_nested.contains(&(x, y)) {
                        return fail("rounded_rectangle:areas_not_nested", format!("inside-aligned style paints {:?}, which fill_area() contains although it is outside the shape", q));
                    }
                    ensure!(p.contains(q), format!("{}:inside_stroke_outside_shape", kind), "inside-aligned style paints {:?} which is outside the shape", q);
                }
                if style.stroke_alignment == StrokeAlignment::Outside && Some(c) == style.stroke_color && style.stroke_width > 0 && Some(c) != style.fill_color && !not_nested.contains(&(x, y)) {
                    ensure!(!p.contains(q), format!("{}:outside_stroke_inside_shape", kind), "outside-aligned stroke paints {:?} which is inside the shape", q);
                }
            }
        }
        Ok::<Outcome, Fail>(Outcome { fill_px, stroke_px, collapsed_one })
    }};
}

fn run(d: &mut Dec, cx: &mut Cx, kind: u32) -> Res {
    // colour type: auxiliary word 6 (Rgb888 for a zero word)
    match d.aux_u(6, 0, 7) {
        0..=3 => run_c::<Rgb888>(d, cx, kind),
        4 | 5 => run_c::<BinaryColor>(d, cx, kind),
        6 => run_c::<Gray8>(d, cx, kind),
        _ => run_c::<Rgb565>(d, cx, kind),
    }
}

fn run_c<C: Col>(d: &mut Dec, cx: &mut Cx, kind: u32) -> Res {
    let big = d.ratio(1, 4);
    let dom = ShapeDom { r: 8, max: if big { 60 } else { 24 } };
    // kinds >= 100: the same four shapes at 100..=400 px with strokes up to 60 (sub-check "large")
    let (shape, style) = if kind >= 100 {
        (gen::large_shape(d, kind - 100, 100, 400), gen::style::<C>(d, 60))
    } else {
        (gen::shape_of_kind(d, kind, dom), gen::style::<C>(d, 12))
    };
    // auxiliary word 3: one rounded rectangle in eight is a strip (2..=5 px thin, 20..=60 long) whose corners on
    // one side are wider and taller than the strip itself, so that every radius has to be confined: the region
    // in which the offset areas of a rounded rectangle stop being nested (F-25 / F-26)
    let shape = match shape {
        Shape::RRect(rr) if d.aux_u(3, 0, 7) == 7 => {
            let v = d.aux_u(4, 0, 8 * 41 * 4 * 20 * 9 - 1);
            let (side, v) = (v % 8, v / 8);
            let (long, thin) = (20 + v % 41, 2 + (v / 41) % 4);
            let r = Size::new(long + (v / 164) % 20, thin + 1 + (v / 3280) % 9);
            let (size, radius) = if side % 2 == 0 { (Size::new(long, thin), r) } else { (Size::new(thin, long), Size::new(r.height, r.width)) };
            use embedded_graphics::primitives::CornerRadiiBuilder;
            let b = CornerRadiiBuilder::new();
            let corners = match side / 2 {
                0 => b.bottom(radius),
                1 => b.top(radius),
                2 => b.left(radius),
                _ => b.right(radius),
            }
            .build();
            cx.count("rrect_strips_with_corners_larger_than_the_strip", 1);
            Shape::RRect(RoundedRectangle::new(Rectangle::new(rr.rectangle.top_left, size), corners))
        }
        s => s,
    };
    let shape = shape.translate(gen::far_offset(d));
    cx.describe(|| format!("{:?} {} [{}]", shape, gen::style_desc(&style), C::NAME));
    cx.class(match style.stroke_alignment {
        StrokeAlignment::Inside => "inside",
        StrokeAlignment::Center => "center",
        StrokeAlignment::Outside => "outside",
    });
    if let Shape::RRect(rr) = &shape {
        // corners of one side pair with the same height and different widths, all of them at most as wide
        // as the inside part of the stroke but taller than it: the fill area's corners are equal while
        // the stroke area is asymmetric in rows that contain fill
        let c = rr.confine_radii().corners;
        let inside = match style.stroke_alignment {
            StrokeAlignment::Inside => style.stroke_width,
            StrokeAlignment::Center => (style.stroke_width + 1) / 2,
            StrokeAlignment::Outside => 0,
        };
        let pair = |a: Size, b: Size| a.height == b.height && a.width != b.width && a.width.max(b.width) <= inside && a.height > inside;
        cx.count("rrect_equal_height_unequal_width_corners_under_the_stroke", u64::from(pair(c.top_left, c.top_right) || pair(c.bottom_left, c.bottom_right)));
    }
    let out = match &shape {
        Shape::Rect(p) => check_closed!("rectangle", *p, style)?,
        Shape::Circle(p) => check_closed!("circle", *p, style)?,
        Shape::Ellipse(p) => check_closed!("ellipse", *p, style)?,
        Shape::RRect(p) => check_closed!("rounded_rectangle", *p, style)?,
        _ => unreachable!(),
    };
    if out.fill_px + out.stroke_px <= 20_000 {
        shape.pixels_protocol(&style, d)?;
    }
    cx.count("rrect_cases_with_areas_that_are_not_nested", u64::from(NOT_NESTED.with(|c| c.replace(false))));
    cx.nontrivial((out.fill_px > 0 && out.stroke_px > 0) || (out.collapsed_one && out.stroke_px > 0));
    Ok(())
}


fn ellipse_case(e: Ellipse, style: PrimitiveStyle<Rgb888>) -> Result<Outcome, Fail> {
    type C = Rgb888;
    check_closed!("ellipse", e, style)
}

/// Every ellipse up to 64x64 (100x100) with every inside stroke width that leaves or just closes the fill.
fn ellipse_grid(ex: &Ex) {
    let m: u64 = ex.tier.pick(64, 100);
    ex.par(m * m, |i| {
        let (w, h) = ((i % m) as u32 + 1, (i / m) as u32 + 1);
        let e = Ellipse::new(Point::new(-3, 2), Size::new(w, h));
        let (mut n, mut nt) = (0u64, 0u64);
        for t in 1..=(w.min(h) + 1) / 2 {
            let style = PrimitiveStyleBuilder::new().fill_color(Rgb888::nth(1)).stroke_color(Rgb888::nth(2)).stroke_width(t).stroke_alignment(StrokeAlignment::Inside).build();
            n += 1;
            match ellipse_case(e, style) {
                Ok(o) => nt += u64::from(o.fill_px > 0 && o.stroke_px > 0),
                Err(f) => ex.fail(i * 128 + t as u64, f.sig, f.detail, format!("{:?} inside stroke width {}", e, t)),
            }
        }
        ex.add(n, nt);
        if i % 997 == 5 {
            ex.sample(|| format!("Ellipse {}x{}: inside stroke widths 1..={}", w, h, (w.min(h) + 1) / 2));
        }
    });
}


fn circle_case(p: Circle, style: PrimitiveStyle<Rgb888>) -> Result<Outcome, Fail> {
    type C = Rgb888;
    check_closed!("circle", p, style)
}
fn rect_case(p: Rectangle, style: PrimitiveStyle<Rgb888>) -> Result<Outcome, Fail> {
    type C = Rgb888;
    check_closed!("rectangle", p, style)
}
fn rrect_case(p: RoundedRectangle, style: PrimitiveStyle<Rgb888>) -> Result<Outcome, Fail> {
    type C = Rgb888;
    check_closed!("rounded_rectangle", p, style)
}

/// Small closed shapes x stroke widths x alignments x colour presence, completely.
fn small_shapes_grid(ex: &Ex) {
    let styles = |t: u32| -> Vec<PrimitiveStyle<Rgb888>> {
        let mut v = vec![];
        for align in [StrokeAlignment::Inside, StrokeAlignment::Center, StrokeAlignment::Outside] {
            for colours in 0..3 {
                let mut b = PrimitiveStyleBuilder::new().stroke_width(t).stroke_alignment(align);
                if colours != 1 {
                    b = b.fill_color(Rgb888::nth(1));
                }
                if colours != 2 {
                    b = b.stroke_color(Rgb888::nth(2));
                }
                v.push(b.build());
            }
        }
        v
    };
    // items: 101 circles, 13*13 rectangles, 12*12*7 rounded rectangles
    let (nc, nr, nrr) = (101u64, 169u64, 12 * 12 * 7u64);
    ex.par(nc + nr + nrr, |i| {
        let (mut n, mut nt) = (0u64, 0u64);
        let mut judge = |r: Result<Outcome, Fail>, what: String, k: u64| {
            n += 1;
            match r {
                Ok(o) => nt += u64::from(o.fill_px > 0 && o.stroke_px > 0),
                Err(f) => ex.fail(i * 4096 + k, f.sig, f.detail, what),
            }
        };
        if i < nc {
            let dia = i as u32;
            let c = Circle::new(Point::new(2, -3), dia);
            for t in 0..=dia / 2 + 2 {
                for (k, st) in styles(t).into_iter().enumerate() {
                    judge(circle_case(c, st), format!("{:?} {}", c, gen::style_desc(&st)), t as u64 * 16 + k as u64);
                }
            }
        } else if i < nc + nr {
            let j = i - nc;
            let r = Rectangle::new(Point::new(-2, 1), Size::new((j % 13) as u32, (j / 13) as u32));
            for t in 0..=8 {
                for (k, st) in styles(t).into_iter().enumerate() {
                    judge(rect_case(r, st), format!("{:?} {}", r, gen::style_desc(&st)), t as u64 * 16 + k as u64);
                }
            }
        } else {
            let j = i - nc - nr;
            let (w, h, rad) = ((j % 12) as u32 + 1, (j / 12 % 12) as u32 + 1, (j / 144) as u32);
            let rr = RoundedRectangle::with_equal_corners(Rectangle::new(Point::new(1, 1), Size::new(w, h)), Size::new(rad, rad));
            for t in 0..=5 {
                for (k, st) in styles(t).into_iter().enumerate() {
                    judge(rrect_case(rr, st), format!("{:?} {}", rr, gen::style_desc(&st)), t as u64 * 16 + k as u64);
                }
            }
        }
        ex.add(n, nt);
        if i % 211 == 7 {
            ex.sample(|| format!("item {}: all stroke widths x 3 alignments x 3 colour combinations", i));
        }
    });
}


// ---------------------------------------------------------------------------------------------
// Shapes of 1025..=20000 px, judged on sampled rows
// ---------------------------------------------------------------------------------------------

/// Size of a huge shape: 1025..=20000, a third of them next to a power of two or to the squares /
/// products that a 16, 24 or 32 bit intermediate can just hold (4096 = 2^12: d^2 = 2^24; 6886^2 ~ 2^25.5;
/// 11585^2 ~ 2^27; 16384 = 2^14).
pub fn huge_size(d: &mut Dec) -> u32 {
    match d.u(0, 2) {
        0 => {
            let b = d.pick(&[1024u32, 2048, 2896, 4096, 5793, 6886, 8192, 11585, 16384, 19999]);
            (b as i32 + d.i(-3, 3)).clamp(1025, 20000) as u32
        }
        1 => d.u(1025, 6000),
        _ => d.u(1025, 20000),
    }
}


/// Draws the styled shape onto a row-sampling target and judges the sampled rows against `fill_area()` /
/// `stroke_area()` at probes: run ends, box edges, the boundaries of both areas found by bisection (only a
/// way to find interesting probes: every probe is judged by the areas themselves) and `$nrand` probes from `$rand`.
macro_rules! judge_rows {
    ($kind:expr, $p:expr, $style:expr, $rows:expr, $nrand:expr, $rand:expr) => {{
        (|| -> Result<(u64, u64), Fail> {
            let p = $p;
            let kind: &str = $kind;
            let style = $style;
            let rows: &std::collections::BTreeSet<i32> = $rows;
            let mut rand = $rand;
            let s = p.into_styled(style);
            let (fa, sa) = (s.fill_area(), s.stroke_area());
            let bb = s.bounding_box();
            let pb = p.bounding_box();
            let mut t = RowsT::new(rows.iter().copied());
            s.draw(&mut t).map_err(|e| Fail { sig: format!("{}:draw_error", kind), detail: format!("{:?}", e) })?;
            let expected = |q: Point| {
                if fa.contains(q) {
                    style.fill_color
                } else if sa.contains(q) && style.stroke_width > 0 {
                    style.stroke_color
                } else {
                    None
                }
            };
            let (x0, x1) = (bb.top_left.x.min(pb.top_left.x), (bb.top_left.x + bb.size.width as i32).max(pb.top_left.x + pb.size.width as i32));
            let (mut fill_rows, mut stroke_rows) = (0u64, 0u64);
            for &y in rows {
                let mut probes: std::collections::BTreeSet<i32> = Default::default();
                let mut near = |x: i32| {
                    for k in -2..=2 {
                        probes.insert(x + k);
                    }
                };
                near(x0);
                near(x1);
                near((x0 + x1) / 2);
                for x in t.run_ends(y) {
                    near(x);
                }
                for area_is_fill in [false, true] {
                    let inside = |x: i32| if area_is_fill { fa.contains(Point::new(x, y)) } else { sa.contains(Point::new(x, y)) };
                    let mid = (x0 + x1) / 2;
                    if inside(mid) {
                        let (mut lo, mut hi) = (x0 - 2, mid);
                        while hi - lo > 1 {
                            let m = lo + (hi - lo) / 2;
                            if inside(m) { hi = m } else { lo = m }
                        }
                        near(hi);
                        let (mut lo, mut hi) = (mid, x1 + 2);
                        while hi - lo > 1 {
                            let m = lo + (hi - lo) / 2;
                            if inside(m) { lo = m } else { hi = m }
                        }
                        near(lo);
                    }
                }
                for _ in 0..$nrand {
                    probes.insert(rand(x0 - 3, x1 + 3));
                }
                for &x in &probes {
                    let q = Point::new(x, y);
                    let (exp, got) = (expected(q), t.color_at(q));
                    if exp.is_some() && fa.contains(q) { fill_rows += 1; }
                    if exp.is_some() && !fa.contains(q) { stroke_rows += 1; }
                    if exp != got && kind == "rounded_rectangle" {
                        // F-26 (known finding): points where fill area / shape / stroke area are not nested
                        let (f, sh, st) = (fa.contains(q), p.contains(q), sa.contains(q));
                        if (f && !sh) || (f && !st) || (sh && !st) {
                            return fail("rounded_rectangle:areas_not_nested", format!("fill_area() / the shape / stroke_area() are not nested at {:?} (fill {}, shape {}, stroke {}), and draw() differs from the areas there: leaves {:?}, areas give {:?}", q, f, sh, st, got, exp));
                        }
                    }
                    ensure!(exp == got, format!("{}:draw_vs_areas", kind), "{:?}: draw() leaves {:?}, fill_area()/stroke_area() give {:?} (fill_area contains: {}, stroke_area contains: {})", q, got, exp, fa.contains(q), sa.contains(q));
                }
            }
            Ok((fill_rows, stroke_rows))
        })()
    }};
}

/// Complete over the diameter: every circle of 1..=6000 px (thorough: to 20000) with a 1-px Inside stroke (so
/// that every fill diameter occurs as well) and, rotating with the diameter, a Center / Outside stroke of
/// 2..=5 px, judged on the characteristic rows (top, 45 and 30 degree points, centre, bottom, the stroke /
/// fill transitions) and a few rows derived from the diameter.
fn circle_all_diameters(ex: &Ex) {
    let max: u64 = ex.tier.pick(6000, 20000);
    ex.par(max, |i| {
        let dia = (i + 1) as u32;
        let tl = Point::new(-(dia as i32) / 2 + (dia % 5) as i32 - 2, -(dia as i32) / 3);
        let c = Circle::new(tl, dia);
        let (mut n, mut nt) = (0u64, 0u64);
        for variant in 0..2 {
            let mut b = PrimitiveStyleBuilder::<Rgb888>::new().fill_color(Rgb888::nth(1)).stroke_color(Rgb888::nth(2));
            b = if variant == 0 {
                b.stroke_width(1).stroke_alignment(StrokeAlignment::Inside)
            } else {
                b.stroke_width(2 + dia % 4).stroke_alignment(if dia % 2 == 0 { StrokeAlignment::Center } else { StrokeAlignment::Outside })
            };
            let style = b.build();
            let mut rows: std::collections::BTreeSet<i32> = Default::default();
            let h = dia as f64;
            for frac in [0.0, 0.0670, 0.14645, 0.25, 0.5, 0.75, 0.85355, 0.9330, 1.0] {
                for k in -2..=2 {
                    rows.insert(tl.y + (h * frac) as i32 + k);
                }
            }
            let mut x = dia.wrapping_mul(0x9E37_79B1) | 1;
            for _ in 0..4 {
                x ^= x << 13;
                x ^= x >> 17;
                x ^= x << 5;
                rows.insert(tl.y + (x % dia.max(1)) as i32);
            }
            let r = judge_rows!("circle", c, style, &rows, 0, |_lo: i32, _hi: i32| 0);
            n += 1;
            match r {
                Ok((f, s)) => nt += u64::from(f > 0 && s > 0),
                Err(fl) => ex.fail(i * 2 + variant, fl.sig, fl.detail, format!("{:?} {}", c, gen::style_desc(&style))),
            }
        }
        if dia % 1999 == 0 {
            ex.sample(|| format!("Circle d={} at {:?}: 1-px Inside stroke and a {}-px second stroke, {} characteristic rows each", dia, tl, 2 + dia % 4, 49));
        }
        ex.add(n, nt);
    });
}

fn huge(d: &mut Dec, cx: &mut Cx) -> Res {
    if d.bool() {
        huge_c::<Rgb888>(d, cx)
    } else {
        huge_c::<BinaryColor>(d, cx)
    }
}

fn huge_c<C: Col>(d: &mut Dec, cx: &mut Cx) -> Res {
    let kind = d.u(0, 3);
    let (w, h) = match d.u(0, 3) {
        0 => (huge_size(d), d.u(1, 80)),
        1 => (d.u(1, 80), huge_size(d)),
        _ => (huge_size(d), huge_size(d)),
    };
    // position: centred on the origin or anywhere such that every coordinate stays within +-30000
    let tl = if d.bool() { Point::new(-(w as i32) / 2 + d.i(-3, 3), -(h as i32) / 2 + d.i(-3, 3)) } else { Point::new(d.i(-29_000, 29_000 - w as i32 - 700), d.i(-29_000, 29_000 - h as i32 - 700)) };
    let shape = match kind {
        0 => Shape::Rect(Rectangle::new(tl, Size::new(w, h))),
        1 => Shape::Circle(Circle::new(tl, w)),
        2 => Shape::Ellipse(Ellipse::new(tl, Size::new(w, h))),
        _ => {
            // radii that fit (no confining: the areas of confined rounded rectangles are the known finding F-26)
            let (l, r) = { let a = d.u(0, w); (a, d.u(0, w - a)) };
            let (l2, r2) = { let a = d.u(0, w); (a, d.u(0, w - a)) };
            let (tp, bt) = { let a = d.u(0, h); (a, d.u(0, h - a)) };
            let (tp2, bt2) = { let a = d.u(0, h); (a, d.u(0, h - a)) };
            Shape::RRect(RoundedRectangle::new(
                Rectangle::new(tl, Size::new(w, h)),
                CornerRadii { top_left: Size::new(l, tp), top_right: Size::new(r, tp2), bottom_right: Size::new(r2, bt2), bottom_left: Size::new(l2, bt) },
            ))
        }
    };
    let mut style = gen::style::<C>(d, 300);
    if d.ratio(1, 3) {
        style.stroke_width = d.u(300, 3000);
    }
    cx.describe(|| format!("{:?} {} [{}]", shape, gen::style_desc(&style), C::NAME));
    cx.class(shape.kind());
    macro_rules! go {
        ($p:expr) => {{
            let p = $p;
            let kind = shape.kind();
            let s = p.into_styled(style);
            let bb = s.bounding_box();
            let pb = p.bounding_box();
            // sampled rows: the edges of the shape box and of the styled box, the stroke / fill transitions, the
            // centre, the corner rows and random rows
            let (y0, y1) = (bb.top_left.y.min(pb.top_left.y), (bb.top_left.y + bb.size.height as i32).max(pb.top_left.y + pb.size.height as i32));
            let mut rows: std::collections::BTreeSet<i32> = Default::default();
            let sw = style.stroke_width as i32;
            for base in [y0, y1, pb.top_left.y, pb.top_left.y + pb.size.height as i32, pb.top_left.y + sw, pb.top_left.y + pb.size.height as i32 - sw, pb.top_left.y + sw / 2, pb.top_left.y + (pb.size.height / 2) as i32, pb.top_left.y + (pb.size.height as f64 * 0.14645) as i32, pb.top_left.y + (pb.size.height as f64 * 0.85355) as i32] {
                for k in -2..=2 {
                    rows.insert(base + k);
                }
            }
            for _ in 0..20 {
                rows.insert(d.i(y0 - 3, y1 + 3));
            }
            let (fill_rows, stroke_rows) = judge_rows!(kind, p, style, &rows, 6, |lo: i32, hi: i32| d.i(lo, hi))?;
            cx.count("huge_probe_points_fill", fill_rows);
            cx.count("huge_probe_points_stroke", stroke_rows);
            cx.nontrivial(fill_rows > 0 && stroke_rows > 0);
            Ok(())
        }};
    }
    match &shape {
        Shape::Rect(p) => go!(*p),
        Shape::Circle(p) => go!(*p),
        Shape::Ellipse(p) => go!(*p),
        Shape::RRect(p) => go!(*p),
        _ => unreachable!(),
    }
}
