//! C03 — clipped / cropped / translated / colour-converted targets and the trait defaults are exact.

use crate::engine::*;
use crate::ensure;
use crate::gen::Col;
use crate::targets::*;
use embedded_graphics::{
    draw_target::DrawTargetExt,
    geometry::{Point, Size},
    pixelcolor::{Rgb565, Rgb888},
    primitives::{PointsIter, Rectangle},
    Pixel,
};

pub fn prop() -> Prop {
    Prop {
        id: "C03",
        level: "exploration",
        rule: "proptest tapes decoding to a history: a parent (draw_iter-only or native-fill recording target) whose bounding box has its top-left in [-3,3]^2 and size 0..=12 (one case in five zero-sized), an adapter stack of depth 0..=3 from {clipped(r), cropped(r), translated(p), color_converted (Rgb565 -> Rgb888, and the identity conversion)} with rectangles of size 0..=9 anywhere in [-6,18]^2, then 1..=6 operations from {draw_iter with 0..=12 arbitrary unordered, possibly repeated points; fill_contiguous(area, stream) with a full, short or over-long stream; fill_solid; clear}, every operation with its own colours; one history in eight runs on a long strip instead (a side of 250..=320, the other 1..=3) with layer and operation areas of that scale. Oracle: a reference model written from the DrawTargetExt documentation (per layer: coordinate shift, clip rectangle, reported bounding box, colour map; fill_contiguous = row-major zip of the area's points with the stream; clear of a clipped/cropped target fills its bounding box, clear of a translated/converted target clears its parent); after each operation the parent's pixel map must equal the model's (so nothing outside clip area intersected with the parent box ever arrives), and every layer's bounding_box() must equal the model's. Depth 0 checks the trait defaults directly. Non-trivial: an operation's area is cut by a clip edge (partly in, partly out) or its stream is short, and at least one pixel reaches the parent.",
        assumptions: vec![
            "the origin of a cropped target whose area does not intersect the parent box is not documented; the model takes it from Rectangle::intersection (pinned by C16) and only compares zero-sizedness of such bounding boxes",
            "colour conversion is judged by the From impl itself (the property says 'through Into')",
        ],
        subs: vec![
            Sub::tape("histories_native_parent", 2500, 300_000, 15_000_000, |d, cx| history(d, cx, true)),
            Sub::tape("histories_default_parent", 2500, 300_000, 15_000_000, |d, cx| history(d, cx, false)),
        ],
    }
}

#[derive(Clone, Debug)]
pub enum Layer {
    Clipped(Rectangle),
    Cropped(Rectangle),
    Translated(Point),
    Converted,
}

#[derive(Clone, Debug)]
pub enum Op {
    DrawIter(Vec<(Point, u32)>),
    FillContiguous(Rectangle, Vec<u32>),
    FillSolid(Rectangle, u32),
    Clear(u32),
}

pub enum Top<'a> {
    C888(&'a mut dyn Erased<Rgb888>),
    C565(&'a mut dyn Erased<Rgb565>),
}

pub trait Conv: Col + From<Rgb565> {
    fn top<'a>(t: &'a mut dyn Erased<Self>) -> Top<'a>;
}
impl Conv for Rgb888 {
    fn top<'a>(t: &'a mut dyn Erased<Self>) -> Top<'a> {
        Top::C888(t)
    }
}
impl Conv for Rgb565 {
    fn top<'a>(t: &'a mut dyn Erased<Self>) -> Top<'a> {
        Top::C565(t)
    }
}

/// Builds the adapter stack on top of `t` (type erased at every layer), records every layer's
/// bounding box and hands the top of the stack to `f`.
pub fn with_stack<C: Conv>(t: &mut dyn Erased<C>, stack: &[Layer], boxes: &mut Vec<Rectangle>, f: &mut dyn FnMut(Top)) {
    boxes.push(t.e_bbox());
    match stack.first() {
        None => f(C::top(t)),
        Some(Layer::Clipped(r)) => {
            let mut d = Dyn(t);
            let mut a = d.clipped(r);
            with_stack::<C>(&mut a, &stack[1..], boxes, f)
        }
        Some(Layer::Cropped(r)) => {
            let mut d = Dyn(t);
            let mut a = d.cropped(r);
            with_stack::<C>(&mut a, &stack[1..], boxes, f)
        }
        Some(Layer::Translated(o)) => {
            let mut d = Dyn(t);
            let mut a = d.translated(*o);
            with_stack::<C>(&mut a, &stack[1..], boxes, f)
        }
        Some(Layer::Converted) => {
            let mut d = Dyn(t);
            let mut a = d.color_converted::<Rgb565>();
            with_stack::<Rgb565>(&mut a, &stack[1..], boxes, f)
        }
    }
}

fn apply<C: Col>(t: &mut dyn Erased<C>, op: &Op) -> Result<(), Fault> {
    match op {
        Op::DrawIter(px) => t.e_draw_iter(&mut crate::gen::stream_route(px, px.len() as u32).map(|(p, i)| Pixel(p, C::nth(i)))),
        Op::FillContiguous(area, stream) => t.e_fill_contiguous(area, &mut crate::gen::stream_route(stream, (stream.len() as u32).wrapping_mul(3).wrapping_add(area.size.height).wrapping_add(area.top_left.x as u32)).map(|i| C::nth(i))),
        Op::FillSolid(area, i) => t.e_fill_solid(area, C::nth(*i)),
        Op::Clear(i) => t.e_clear(C::nth(*i)),
    }
}

pub fn apply_top(top: Top, op: &Op) -> Result<(), Fault> {
    match top {
        Top::C888(t) => apply::<Rgb888>(t, op),
        Top::C565(t) => apply::<Rgb565>(t, op),
    }
}

// ---- the model --------------------------------------------------------------------------------

/// Exact intersection by interval arithmetic; None if there is no common point.
fn isect(a: &Rectangle, b: &Rectangle) -> Option<Rectangle> {
    let x0 = a.top_left.x.max(b.top_left.x) as i64;
    let y0 = a.top_left.y.max(b.top_left.y) as i64;
    let x1 = (a.top_left.x as i64 + a.size.width as i64).min(b.top_left.x as i64 + b.size.width as i64);
    let y1 = (a.top_left.y as i64 + a.size.height as i64).min(b.top_left.y as i64 + b.size.height as i64);
    if x0 < x1 && y0 < y1 {
        Some(Rectangle::new(Point::new(x0 as i32, y0 as i32), Size::new((x1 - x0) as u32, (y1 - y0) as u32)))
    } else {
        None
    }
}

#[derive(Clone, Debug)]
pub struct ModelLayer {
    /// bounding box reported by this layer (None = empty; exact value not specified)
    pub bbox: Option<Rectangle>,
    pub bbox_exact: Rectangle,
    /// shift applied when passing a point down to the layer below
    pub shift: Point,
    /// clip rectangle in this layer's coordinates (None = no clipping; Some(None) = everything clipped)
    pub clip: Option<Option<Rectangle>>,
    pub kind: Layer,
}

pub struct Model {
    pub parent_box: Rectangle,
    pub layers: Vec<ModelLayer>,
    pub converted: bool,
}

impl Model {
    pub fn new(parent_box: Rectangle, stack: &[Layer]) -> Model {
        let mut layers = vec![];
        // bounding box of the layer below, as a point set (None = empty) plus the exact rectangle value
        let mut below: Option<Rectangle> = if parent_box.is_zero_sized() { None } else { Some(parent_box) };
        let mut below_exact = parent_box;
        let mut converted = false;
        for l in stack {
            let ml = match l {
                Layer::Translated(o) => {
                    let b = below.map(|r| Rectangle::new(r.top_left - *o, r.size));
                    ModelLayer { bbox: b, bbox_exact: Rectangle::new(below_exact.top_left - *o, below_exact.size), shift: *o, clip: None, kind: l.clone() }
                }
                Layer::Cropped(a) => {
                    let inter = below.and_then(|b| isect(a, &b));
                    match inter {
                        Some(r) => ModelLayer { bbox: Some(Rectangle::new(Point::zero(), r.size)), bbox_exact: Rectangle::new(Point::zero(), r.size), shift: r.top_left, clip: None, kind: l.clone() },
                        None => {
                            // A zero-sized area whose top-left corner lies inside the target below is still "a
                            // subregion of the parent": the documented origin (area.top_left) and size apply.
                            // Only for an area that does not touch the target at all is the origin
                            // undocumented; it is taken from Rectangle::intersection then (see assumptions).
                            let inside = below.map_or(false, |b| {
                                a.top_left.x >= b.top_left.x && a.top_left.y >= b.top_left.y && (a.top_left.x as i64) < b.top_left.x as i64 + b.size.width as i64 && (a.top_left.y as i64) < b.top_left.y as i64 + b.size.height as i64
                            });
                            if inside && a.is_zero_sized() {
                                // (the part of a degenerate area that sticks out is cut like for any other area)
                                let b = below.unwrap();
                                let w = (a.size.width as i64).min(b.top_left.x as i64 + b.size.width as i64 - a.top_left.x as i64) as u32;
                                let h = (a.size.height as i64).min(b.top_left.y as i64 + b.size.height as i64 - a.top_left.y as i64) as u32;
                                ModelLayer { bbox: None, bbox_exact: Rectangle::new(Point::zero(), Size::new(w, h)), shift: a.top_left, clip: None, kind: l.clone() }
                            } else {
                                let lib = a.intersection(&below_exact);
                                ModelLayer { bbox: None, bbox_exact: Rectangle::new(Point::zero(), lib.size), shift: lib.top_left, clip: None, kind: l.clone() }
                            }
                        }
                    }
                }
                Layer::Clipped(a) => {
                    let inter = below.and_then(|b| isect(a, &b));
                    let exact = inter.unwrap_or_else(|| a.intersection(&below_exact));
                    ModelLayer { bbox: inter, bbox_exact: exact, shift: Point::zero(), clip: Some(inter), kind: l.clone() }
                }
                Layer::Converted => {
                    converted = true;
                    ModelLayer { bbox: below, bbox_exact: below_exact, shift: Point::zero(), clip: None, kind: l.clone() }
                }
            };
            below = ml.bbox;
            below_exact = ml.bbox_exact;
            layers.push(ml);
        }
        Model { parent_box, layers, converted }
    }

    fn color(&self, i: u32) -> Rgb888 {
        if self.converted {
            Rgb888::from(Rgb565::nth(i))
        } else {
            Rgb888::nth(i)
        }
    }

    /// Pass a point written at layer `from` (index into layers, exclusive top = layers.len()) down
    /// to the parent.
    fn down(&self, mut p: Point, from: usize) -> Option<Point> {
        for l in self.layers[..from].iter().rev() {
            if let Some(clip) = &l.clip {
                match clip {
                    Some(r) if r.contains(p) => {}
                    _ => return None,
                }
            }
            p += l.shift;
        }
        Some(p)
    }

    /// Writes of a clear issued at layer `level` (= number of layers below the issuing target).
    fn clear_points(&self, level: usize) -> Vec<Point> {
        if level == 0 {
            return self.parent_box.points().collect();
        }
        let l = &self.layers[level - 1];
        match l.kind {
            Layer::Translated(_) | Layer::Converted => self.clear_points(level - 1),
            Layer::Clipped(_) | Layer::Cropped(_) => {
                // default clear: fill_solid(bounding_box()) on that layer
                match l.bbox {
                    Some(b) => b.points().filter_map(|p| self.down(p, level)).collect(),
                    None => vec![],
                }
            }
        }
    }

    /// (point on the parent, colour) writes of an operation at the top of the stack, in order.
    pub fn writes(&self, op: &Op) -> (Vec<(Point, Rgb888)>, usize) {
        let top = self.layers.len();
        let mut out = vec![];
        let mut issued = 0;
        match op {
            Op::DrawIter(px) => {
                for (p, i) in px {
                    issued += 1;
                    if let Some(q) = self.down(*p, top) {
                        out.push((q, self.color(*i)));
                    }
                }
            }
            Op::FillContiguous(area, stream) => {
                for (p, i) in area.points().zip(stream.iter()) {
                    issued += 1;
                    if let Some(q) = self.down(p, top) {
                        out.push((q, self.color(*i)));
                    }
                }
            }
            Op::FillSolid(area, i) => {
                for p in area.points() {
                    issued += 1;
                    if let Some(q) = self.down(p, top) {
                        out.push((q, self.color(*i)));
                    }
                }
            }
            Op::Clear(i) => {
                let pts = self.clear_points(top);
                issued = pts.len();
                for q in pts {
                    out.push((q, self.color(*i)));
                }
            }
        }
        (out, issued)
    }
}

// ---- generation -------------------------------------------------------------------------------

/// A rectangle that usually straddles an edge of `around` (or lies anywhere, one time in four).
/// `lim` bounds the part of `around` that is used (14 normally; 400 for the long-strip histories).
fn rect_near(d: &mut Dec, around: &Rectangle, max: u32, lim: u32) -> Rectangle {
    if d.ratio(1, 4) {
        return Rectangle::new(Point::new(d.i(-6, 18), d.i(-6, 18)), Size::new(d.u(0, max), d.u(0, max)));
    }
    let (w, h) = (around.size.width.min(lim) as i32, around.size.height.min(lim) as i32);
    let tl = around.top_left + Point::new(d.i(-3, w + 1), d.i(-3, h + 1));
    let max = if lim > 14 { lim } else { max };
    Rectangle::new(tl, Size::new(d.u(0, max.min(w as u32 + 4)), d.u(0, max.min(h as u32 + 4))))
}

pub fn gen_layer(d: &mut Dec) -> Layer {
    gen_layer_near(d, &Rectangle::new(Point::new(0, 0), Size::new(9, 9)))
}

/// A layer whose rectangle is chosen relative to the bounding box of the target below.
pub fn gen_layer_near(d: &mut Dec, below: &Rectangle) -> Layer {
    gen_layer_lim(d, below, 14)
}

pub fn gen_layer_lim(d: &mut Dec, below: &Rectangle, lim: u32) -> Layer {
    match d.u(0, 6) {
        0 | 1 => Layer::Clipped(rect_near(d, below, 9, lim)),
        2 | 3 => Layer::Cropped(rect_near(d, below, 9, lim)),
        4 | 5 => Layer::Translated(Point::new(d.i(-6, 6), d.i(-6, 6))),
        _ => Layer::Converted,
    }
}

pub fn gen_parent_box(d: &mut Dec) -> Rectangle {
    let tl = Point::new(d.i(-3, 3), d.i(-3, 3));
    match d.u(0, 4) {
        0 => Rectangle::new(tl, Size::new(if d.bool() { 0 } else { d.u(0, 12) }, if d.bool() { 0 } else { d.u(0, 12) })),
        _ => Rectangle::new(tl, Size::new(d.u(1, 12), d.u(1, 12))),
    }
}

pub fn gen_op(d: &mut Dec, color_base: u32) -> Op {
    gen_op_near(d, color_base, &Rectangle::new(Point::new(0, 0), Size::new(8, 8)))
}

/// An operation whose area / points are chosen relative to the bounding box of the stack's top.
pub fn gen_op_near(d: &mut Dec, color_base: u32, top: &Rectangle) -> Op {
    gen_op_lim(d, color_base, top, 14)
}

pub fn gen_op_lim(d: &mut Dec, color_base: u32, top: &Rectangle, lim: u32) -> Op {
    match d.u(0, 9) {
        0..=2 => {
            // (long-strip histories: up to 408 pixels in one iterator)
            let n = d.u(0, 12) * if lim > 14 { 34 } else { 1 };
            let mut v: Vec<(Point, u32)> = vec![];
            let (w, h) = (top.size.width.min(lim) as i32, top.size.height.min(lim) as i32);
            for k in 0..n {
                let p = if k > 0 && d.ratio(1, 5) {
                    v[d.idx(v.len())].0
                } else if d.ratio(1, 4) {
                    Point::new(d.i(-6, 16), d.i(-6, 16))
                } else {
                    top.top_left + Point::new(d.i(-2, w + 1), d.i(-2, h + 1))
                };
                v.push((p, color_base + k));
            }
            Op::DrawIter(v)
        }
        3..=6 => {
            let a = rect_near(d, top, 7, lim);
            let full = (a.size.width * a.size.height) as usize;
            let len = match d.u(0, 3) {
                0 | 1 => full,
                2 => d.u(0, full as u32) as usize,
                _ => full + d.u(1, 9) as usize,
            };
            Op::FillContiguous(a, (0..len as u32).map(|k| color_base + k).collect())
        }
        7 | 8 => Op::FillSolid(rect_near(d, top, 7, lim), color_base),
        _ => Op::Clear(color_base),
    }
}

fn history(d: &mut Dec, cx: &mut Cx, native: bool) -> Res {
    let parent_box = gen_parent_box(d);
    // auxiliary words 5..=7: one history in eight runs on a long strip (a side of 250..=320, the other
    // 1..=3) with layer and operation areas of that scale: sizes and offsets beyond 255
    let big = d.aux_u(5, 0, 7) == 7;
    let (parent_box, lim) = if big {
        let long = d.aux_u(6, 250, 320);
        let short = d.aux_u(7, 1, 3);
        let size = if d.aux_u(7, 0, 1) == 0 { Size::new(long, short) } else { Size::new(short, long) };
        (Rectangle::new(parent_box.top_left, size), 400)
    } else {
        (parent_box, 14)
    };
    let depth = d.u(0, 3);
    let mut stack: Vec<Layer> = vec![];
    let mut top_box = parent_box;
    for _ in 0..depth {
        let l = gen_layer_lim(d, &top_box, lim);
        stack.push(l);
        top_box = Model::new(parent_box, &stack).layers.last().map(|l| l.bbox_exact).unwrap_or(parent_box);
    }
    let nops = d.u(1, 6);
    let mut ops: Vec<Op> = (0..nops).map(|k| gen_op_lim(d, 1 + k * if big { 3000 } else { 80 }, &top_box, lim)).collect();
    // auxiliary word 4: in one history in eight every fill_contiguous stream is uniform (one colour), the
    // case in which an adapter or target might take a solid-fill shortcut
    if d.aux_u(4, 0, 7) == 7 {
        for op in ops.iter_mut() {
            if let Op::FillContiguous(_, stream) = op {
                let c = stream.first().copied().unwrap_or(7);
                for x in stream.iter_mut() {
                    *x = c;
                }
            }
        }
    }
    // one history in 1024: the first fill gets an area more than 65536 px wide (at most 3 rows), extended
    // to the left or to the right, so that a clip cuts away more than 65535 colours of every row
    let huge = big && d.aux_u(6, 0, 127) == 127;
    if huge {
        for op in ops.iter_mut() {
            let a = match op {
                Op::FillContiguous(a, _) | Op::FillSolid(a, _) => a,
                _ => continue,
            };
            let old_full = (a.size.width * a.size.height) as usize;
            let extra = 65_536 + a.size.width * 7 % 50;
            if a.top_left.x.rem_euclid(2) == 0 {
                a.top_left.x -= extra as i32;
            }
            a.size.width += extra;
            a.size.height = a.size.height.min(3);
            let full = (a.size.width * a.size.height) as usize;
            if let Op::FillContiguous(_, stream) = op {
                // keep the stream full, short or over-long as it was
                let len = (full as i64 + stream.len() as i64 - old_full as i64).max(0) as usize;
                let base = stream.first().copied().unwrap_or(7);
                *stream = (0..len as u32).map(|k| base + k).collect();
            }
            break;
        }
    }
    let show_ops = |ops: &Vec<Op>| -> String {
        ops.iter()
            .map(|op| match op {
                Op::FillContiguous(a, s) if s.len() > 64 => format!("FillContiguous({:?}, {} colours {}..={})", a, s.len(), s[0], s[s.len() - 1]),
                Op::DrawIter(v) if v.len() > 64 => format!("DrawIter({} pixels: {:?} ...)", v.len(), &v[..8]),
                o => format!("{:?}", o),
            })
            .collect::<Vec<_>>()
            .join(", ")
    };
    cx.describe(|| format!("parent {} box {:?}; stack (innermost first) {:?}; operations [{}]", if native { "native-fill" } else { "draw_iter-only" }, parent_box, stack, show_ops(&ops)));
    cx.class(match (big, depth) {
        (true, _) if huge => "long_strip_with_65536_wide_fill",
        (true, _) => "long_strip",
        (_, 0) => "depth0",
        (_, 1) => "depth1",
        (_, 2) => "depth2",
        _ => "depth3",
    });
    let model = Model::new(parent_box, &stack);
    let mut model_map: Map<Rgb888> = Map::new();
    let mut native_t = NativeT::<Rgb888>::with_box(parent_box);
    let mut iter_t = IterT::<Rgb888>::with_box(parent_box);
    native_t.0.log = false;
    iter_t.0.log = false;
    let mut nontrivial = false;
    for (k, op) in ops.iter().enumerate() {
        let mut boxes = vec![];
        let mut result = Ok(());
        {
            let mut f = |top: Top| result = apply_top(top, op);
            if native {
                with_stack::<Rgb888>(&mut native_t, &stack, &mut boxes, &mut f);
            } else {
                with_stack::<Rgb888>(&mut iter_t, &stack, &mut boxes, &mut f);
            }
        }
        result.map_err(|e| Fail { sig: "unexpected_error".into(), detail: format!("operation {} returned {:?}", k, e) })?;
        // bounding boxes of all layers (index 0 = parent)
        ensure!(boxes[0] == parent_box, "bounding_box:parent", "parent reports {:?}", boxes[0]);
        for (i, l) in model.layers.iter().enumerate() {
            let got = boxes[i + 1];
            match l.bbox {
                Some(b) => ensure!(got == b, "bounding_box:layer", "layer {} ({:?}) reports bounding box {:?}, documented {:?}", i, l.kind, got, b),
                None => ensure!(got.is_zero_sized(), "bounding_box:layer_not_empty", "layer {} ({:?}) reports bounding box {:?}, but its area does not intersect the target below", i, l.kind, got),
            }
        }
        let (writes, issued) = model.writes(op);
        for (p, c) in &writes {
            model_map.insert((p.x, p.y), *c);
        }
        let got = if native { &native_t.0.map } else { &iter_t.0.map };
        if let Some(df) = diff_maps("reference model", &model_map, "parent target", got) {
            let sig = match op {
                Op::DrawIter(_) => "draw_iter",
                Op::FillContiguous(..) => "fill_contiguous",
                Op::FillSolid(..) => "fill_solid",
                Op::Clear(_) => "clear",
            };
            return fail(format!("pixels:{}", sig), format!("after operation {} ({}): {}", k, show_ops(&vec![op.clone()]), df));
        }
        let short = matches!(op, Op::FillContiguous(a, s) if s.len() < (a.size.width * a.size.height) as usize);
        if !writes.is_empty() && (writes.len() < issued || short) {
            nontrivial = true;
        }
    }
    cx.nontrivial(nontrivial);
    Ok(())
}
