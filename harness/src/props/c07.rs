//! C07 — rendering commutes with translation.

use crate::engine::*;
use crate::ensure;
use crate::gen::{self, Col, Shape, ShapeDom};
use crate::items::*;
use crate::targets::*;
use embedded_graphics::geometry::Point;
use embedded_graphics::pixelcolor::{BinaryColor, Rgb565};
use embedded_graphics::primitives::{Polyline, PointsIter, Primitive, PrimitiveStyle, StrokeAlignment, StrokeStyle};
use embedded_graphics::transform::Transform;
use embedded_graphics::Drawable;

pub fn prop() -> Prop {
    Prop {
        id: "C07",
        level: "exploration",
        rule: "proptest tapes decoding to a drawable (all item kinds of C01; a dedicated sub-check for triangles and polylines with stroke widths 2..=10, one for the drawables rendered through Real arithmetic - dotted rectangles with round dots, arcs, sectors - in both builds) and an offset d in [-60,60]^2 (also d derived from the object's position so that it is moved across an axis). Oracle (metamorphic): pixel map of draw(x.translate(d)) == pixel map of draw(x) shifted by d; same for translate_mut, for Styled::translate, for polylines whose vertices are moved instead, for points() (as a sequence), contains() on a probe grid, non-empty bounding boxes, and the next position returned by text. Non-trivial: d != 0, >= 2 pixels, and for the thick-join sub-check width >= 2 with a non-colinear join.",
        assumptions: vec!["coordinates stay within +-200 (sub-check far_offsets: offsets to +-30000, the i16 scale of scrolled-out content) so no arithmetic overflow can interfere"],
        subs: vec![
            Sub::tape("items", 300, 150_000, 7_500_000, |d, cx| run_items(d, cx)),
            Sub::tape("thick_joins", 64, 100_000, 5_000_000, thick_joins),
            Sub::tape("large_joins", 40, 800, 40_000, large_joins),
            Sub::tape("large", 64, 3_000, 150_000, large),
            Sub::tape("huge_sampled_rows", 400, 600, 30_000, huge),
            Sub::tape("primitives_queries", 48, 100_000, 5_000_000, queries).with_fp(),
            Sub::tape("real_arithmetic", 64, 60_000, 3_000_000, real_arithmetic).with_fp(),
            Sub::tape("far_offsets", 300, 60_000, 3_000_000, far_offsets).with_fp(),
        ],
    }
}

fn offset(d: &mut Dec, anchor: Point) -> Point {
    match d.u(0, 3) {
        // move the anchor across the origin
        0 => Point::new(-anchor.x + d.i(-3, 3), -anchor.y + d.i(-3, 3)),
        1 => Point::new(d.i(-5, 5), d.i(-5, 5)),
        _ => Point::new(d.i(-60, 60), d.i(-60, 60)),
    }
}

fn shift<C: Copy>(m: &Map<C>, by: Point) -> Map<C> {
    m.iter().map(|(&(x, y), &c)| ((x + by.x, y + by.y), c)).collect()
}

fn e(k: &str, e: Fault) -> Fail {
    Fail { sig: format!("{}:draw_error", k), detail: format!("{:?}", e) }
}

fn run_items(d: &mut Dec, cx: &mut Cx) -> Res {
    let kind = d.u(0, ITEM_KINDS - 1);
    if d.bool() {
        item_case::<BinaryColor>(d, cx, kind)
    } else {
        item_case::<Rgb565>(d, cx, kind)
    }
}

fn item_case<C: ImgCol>(d: &mut Dec, cx: &mut Cx, kind: u32) -> Res {
    let dom = ItemDom { r: 30, max: if d.ratio(1, 5) { 40 } else { 14 }, max_width: 10, dotted: true, text_len: 10 };
    let item = gen_item::<C>(d, kind, dom);
    let by = offset(d, item.bounding_box().top_left);
    cx.describe(|| format!("{} translate by {:?}", item.desc(), by));
    cx.class(KIND_NAMES[kind as usize]);
    let n = check_item_translation(&item, by)?;
    cx.nontrivial(by != Point::zero() && n >= 2);
    Ok(())
}

fn check_item_translation<C: ImgCol>(item: &Item<C>, by: Point) -> Result<usize, Fail> {
    let k = item.kind();
    let mut base = NativeT::<C>::new();
    base.0.log = false;
    let pos0 = item.draw(&mut base).map_err(|x| e(k, x))?;
    let expected = shift(&base.0.map, by);
    for mutating in [false, true] {
        let mut t = NativeT::<C>::new();
        t.0.log = false;
        let pos1 = item.draw_translated(by, mutating, &mut t).map_err(|x| e(k, x))?;
        let name = if mutating { "translate_mut" } else { "translate" };
        if let Some(df) = diff_maps("draw(x) shifted by d", &expected, &format!("draw(x.{}(d))", name), &t.0.map) {
            return fail(format!("{}:{}_pixels", k, name), df);
        }
        if let (Some(p0), Some(p1)) = (pos0, pos1) {
            ensure!(p1 == p0 + by, format!("{}:{}_next_position", k, name), "next position {:?} for the translated text, {:?} + {:?} expected", p1, p0, by);
        }
    }
    let mut t = NativeT::<C>::new();
    t.0.log = false;
    if let Some(r) = item.draw_styled_translated(by, &mut t) {
        r.map_err(|x| e(k, x))?;
        if let Some(df) = diff_maps("draw(x) shifted by d", &expected, "draw(styled.translate(d))", &t.0.map) {
            return fail(format!("{}:styled_translate_pixels", k), df);
        }
    }
    let bb = item.bounding_box();
    if !bb.is_zero_sized() {
        let bt = item.bounding_box_translated(by);
        ensure!(bt == bb.translate(by), format!("{}:bounding_box", k), "bounding box {:?} of the translated object, expected {:?} shifted by {:?}", bt, bb, by);
    }
    // polylines: moving the vertices instead
    if let Item::Polyline(p) = item {
        let moved: Vec<Point> = p.pts.iter().map(|q| *q + by).collect();
        let mut t = NativeT::<C>::new();
        t.0.log = false;
        Polyline::new(&moved).translate(p.offset).into_styled(p.style).draw(&mut t).map_err(|x| e(k, x))?;
        if let Some(df) = diff_maps("draw(x) shifted by d", &expected, "draw(polyline with moved vertices)", &t.0.map) {
            return fail("polyline:moved_vertices_pixels", df);
        }
        let a: Vec<Point> = Polyline::new(&p.pts).translate(p.offset).points().map(|q| q + by).collect();
        let b: Vec<Point> = Polyline::new(&moved).translate(p.offset).points().collect();
        let c: Vec<Point> = Polyline::new(&p.pts).translate(p.offset).translate(by).points().collect();
        ensure!(a == b && a == c, "polyline:points", "points() of the moved polyline differ: shifted {:?}, moved vertices {:?}, translate {:?}", a, b, c);
    }
    Ok(base.0.map.len())
}

/// Triangles and polylines with thick strokes: the join geometry must not depend on position.
fn thick_joins(d: &mut Dec, cx: &mut Cx) -> Res {
    type C = Rgb565;
    let width = d.u(2, 10);
    let align = gen::alignment(d);
    let mut style = PrimitiveStyle::<C>::with_stroke(C::nth(2), width);
    style.stroke_alignment = align;
    if d.ratio(1, 3) {
        style.fill_color = Some(C::nth(1));
    }
    let r = if d.ratio(1, 4) { 40 } else { 14 };
    let item: Item<C> = if d.bool() {
        cx.class("triangle");
        let t = crate::props::c05::nonflat_triangle(d, r);
        Item::Styled(Shape::Triangle(t), style)
    } else {
        cx.class("polyline");
        let n = d.u(3, 6);
        let mut pts = vec![];
        for _ in 0..n {
            pts.push(gen::point(d, r));
        }
        let offset = if d.bool() { Point::zero() } else { gen::point(d, 10) };
        Item::Polyline(PolyItem { pts, offset, style })
    };
    let by = offset(d, item.bounding_box().top_left);
    cx.describe(|| format!("{} translate by {:?}", item.desc(), by));
    let n = check_item_translation(&item, by)?;
    let noncolinear = match &item {
        Item::Styled(Shape::Triangle(_), _) => true,
        Item::Polyline(p) => p.pts.windows(3).any(|w| crate::exact::orient(w[0], w[1], w[2]) != 0),
        _ => false,
    };
    let _ = StrokeAlignment::Center;
    cx.nontrivial(by != Point::zero() && n >= 2 && noncolinear);
    Ok(())
}

/// The drawables whose rendering goes through `Real` (f32 or, with `fixed_point`, I16F16): dotted
/// rectangles with round dots, styled arcs and sectors. Run in both builds.
fn real_arithmetic(d: &mut Dec, cx: &mut Cx) -> Res {
    type C = Rgb565;
    let kind = d.pick(&[0u32, 0, 6, 7]);
    let max = if d.ratio(1, 3) { 70 } else { 30 };
    let s = gen::shape_of_kind(d, kind, ShapeDom { r: 30, max });
    let mut st = gen::style::<C>(d, 14);
    if kind == 0 {
        st.stroke_style = StrokeStyle::Dotted;
        if d.ratio(2, 3) {
            st.stroke_color = Some(C::nth(2));
            st.stroke_width = d.u(4, 14);
        }
    }
    let item: Item<C> = Item::Styled(s, st);
    let by = offset(d, item.bounding_box().top_left);
    cx.describe(|| format!("{} {:?} translate by {:?}", item.desc(), st.stroke_style, by));
    cx.class(match (kind, st.stroke_width >= 4) {
        (0, true) => "dotted_rectangle_round_dots",
        (0, false) => "dotted_rectangle_square_dots",
        (6, _) => "arc",
        _ => "sector",
    });
    let n = check_item_translation(&item, by)?;
    cx.nontrivial(by != Point::zero() && n >= 2);
    Ok(())
}

/// Small drawables moved far away from the origin (scrolled-out content): offsets up to +-FAR.
fn far_offsets(d: &mut Dec, cx: &mut Cx) -> Res {
    type C = Rgb565;
    // i16-scale scrolling distances. (Beyond +-46340 `Triangle::area_doubled` multiplies absolute
    // coordinates in i32: with overflow checks that panics, without them the wrapped result is still
    // right. That scale is outside every stated domain, so it is not probed.)
    let far: i32 = 30_000;
    let kind = d.u(0, ITEM_KINDS - 1);
    let dom = ItemDom { r: 30, max: if d.ratio(1, 5) { 40 } else { 14 }, max_width: 10, dotted: true, text_len: 10 };
    let item = gen_item::<C>(d, kind, dom);
    let c = |d: &mut Dec| match d.u(0, 3) {
        0 => d.i(-far, far),
        1 => d.pick(&[-far, far, -32768, 32767, 32768, -32769, 16384, -16384]).clamp(-far, far),
        2 => 0,
        _ => d.i(-far / 16, far / 16),
    };
    let by = Point::new(c(d), c(d));
    cx.describe(|| format!("{} translate by {:?}", item.desc(), by));
    cx.class(KIND_NAMES[kind as usize]);
    let n = check_item_translation(&item, by)?;
    cx.nontrivial(by.x.abs().max(by.y.abs()) >= 2000 && n >= 2);
    Ok(())
}

/// points(), contains() and bounding_box() of the bare primitives.
fn queries(d: &mut Dec, cx: &mut Cx) -> Res {
    let kind = d.u(0, 7);
    let max = if d.ratio(1, 5) { 50 } else { 16 };
    let s = gen::shape_of_kind(d, kind, ShapeDom { r: 30, max });
    let by = offset(d, s.bounding_box().top_left);
    cx.describe(|| format!("{:?} translate by {:?}", s, by));
    cx.class(s.kind());
    let k = s.kind();
    let t1 = s.translate(by);
    let t2 = s.translate_mut(by);
    ensure!(t1 == t2, format!("{}:translate_mut", k), "translate gives {:?}, translate_mut {:?}", t1, t2);
    let p0: Vec<Point> = s.points().into_iter().map(|q| q + by).collect();
    let p1 = t1.points();
    ensure!(p0 == p1, format!("{}:points", k), "points() of the translated primitive differ from the shifted points ({} vs {} points; first difference {:?})", p1.len(), p0.len(), p0.iter().zip(p1.iter()).find(|(a, b)| a != b));
    let bb = s.bounding_box();
    if !bb.is_zero_sized() {
        ensure!(t1.bounding_box() == bb.translate(by), format!("{}:bounding_box", k), "bounding box {:?}, expected {:?} shifted by {:?}", t1.bounding_box(), bb, by);
    }
    if s.contains(Point::zero()).is_some() {
        for q in bb.offset(2).points() {
            let (a, b) = (s.contains(q).unwrap(), t1.contains(q + by).unwrap());
            ensure!(a == b, format!("{}:contains", k), "contains({:?}) = {} but translated contains({:?}) = {}", q, a, q + by, b);
        }
    }
    cx.nontrivial(by != Point::zero() && p0.len() >= 2);
    Ok(())
}


/// Styled primitives of 100..=300 px, offsets to +-300.
fn large(d: &mut Dec, cx: &mut Cx) -> Res {
    type C = Rgb565;
    let kind = d.u(0, 7);
    let st = gen::style::<C>(d, 24);
    // (one large triangle in six spans up to 1024 px: joins whose arithmetic leaves 32 bits)
    let hi = if kind == 4 && d.aux_u(7, 0, 5) == 5 { 1024 } else { 300 };
    let item: Item<C> = Item::Styled(gen::large_shape(d, kind, 100, hi), st);
    let by = match d.u(0, 2) {
        0 => offset(d, item.bounding_box().top_left),
        _ => Point::new(d.i(-300, 300), d.i(-300, 300)),
    };
    cx.describe(|| format!("{} translate by {:?}", item.desc(), by));
    cx.class(item.kind());
    let n = check_item_translation(&item, by)?;
    cx.nontrivial(by != Point::zero() && n >= 2);
    Ok(())
}


/// Closed shapes of 1025..=20000 px (and lines / triangles to 3000 px) moved by up to +-3000 px, on a
/// row-sampling target: the rows that `x.translate(d)` / `translate_mut` / `Styled::translate` draw are the rows
/// of `x` shifted by `d`, on every probe of about 50 sampled rows (run ends of both, box edges, random columns).
fn huge(d: &mut Dec, cx: &mut Cx) -> Res {
    use embedded_graphics::geometry::Size;
    use embedded_graphics::primitives::{Circle, CornerRadii, Ellipse, Line, Rectangle, RoundedRectangle, Triangle};
    type C = Rgb565;
    let kind = d.u(0, 5);
    let closed = kind <= 3;
    let size = |d: &mut Dec| if closed { crate::props::c06::huge_size(d) } else { d.u(1025, 3000) };
    let (w, h) = match d.u(0, 3) {
        0 => (size(d), d.u(1, 80)),
        1 => (d.u(1, 80), size(d)),
        _ => (size(d), size(d)),
    };
    let tl = if d.bool() { Point::new(-(w as i32) / 2 + d.i(-3, 3), -(h as i32) / 2 + d.i(-3, 3)) } else { Point::new(d.i(-25_000, 25_000 - w as i32 - 300), d.i(-25_000, 25_000 - h as i32 - 300)) };
    let shape = match kind {
        0 => Shape::Rect(Rectangle::new(tl, Size::new(w, h))),
        1 => Shape::Circle(Circle::new(tl, w)),
        2 => Shape::Ellipse(Ellipse::new(tl, Size::new(w, h))),
        3 => {
            let (l, r) = { let a = d.u(0, w); (a, d.u(0, w - a)) };
            let (tp, bt) = { let a = d.u(0, h); (a, d.u(0, h - a)) };
            Shape::RRect(RoundedRectangle::new(Rectangle::new(tl, Size::new(w, h)), CornerRadii { top_left: Size::new(l, tp), top_right: Size::new(r, tp), bottom_right: Size::new(r, bt), bottom_left: Size::new(l, bt) }))
        }
        4 => {
            let a = Point::new(d.i(-1500, 1500), d.i(-1500, 1500));
            let b = Point::new(d.i(-1500, 1500), d.i(-1500, 1500));
            let c = Point::new(d.i(-1500, 1500), d.i(-1500, 1500));
            let (b, c) = gen::structure_triangle(d, a, b, c);
            Shape::Triangle(Triangle::new(a, Point::new(b.x.clamp(-3000, 3000), b.y.clamp(-3000, 3000)), Point::new(c.x.clamp(-3000, 3000), c.y.clamp(-3000, 3000))))
        }
        _ => Shape::Line(Line::new(tl, tl + Point::new(w as i32 * if d.bool() { 1 } else { -1 }, h as i32))),
    };
    let mut style = gen::style::<C>(d, if closed { 200 } else { 16 });
    if kind == 5 && style.stroke_width == 0 {
        style.stroke_width = 1;
    }
    // (triangles stay within +-6000 after the move; closed shapes within +-30000)
    let lim = if closed { 3000 } else { 2500 };
    let by = match d.u(0, 3) {
        0 => Point::new(-tl.x + d.i(-3, 3), -tl.y + d.i(-3, 3)).component_max(Point::new(-lim, -lim)).component_min(Point::new(lim, lim)),
        1 => Point::new(d.i(-lim, lim), 0),
        _ => Point::new(d.i(-lim, lim), d.i(-lim, lim)),
    };
    let item: Item<C> = Item::Styled(shape, style);
    cx.describe(|| format!("{} translate by {:?}", item.desc(), by));
    cx.class(item.kind());
    let bb = item.bounding_box();
    let (y0, y1) = (bb.top_left.y, bb.top_left.y + bb.size.height as i32);
    let mut rows: std::collections::BTreeSet<i32> = Default::default();
    for base in [y0, y1, (y0 + y1) / 2, y0 + style.stroke_width as i32, y1 - style.stroke_width as i32, -by.y, 0] {
        for k in -2..=2 {
            rows.insert(base + k);
        }
    }
    for _ in 0..24 {
        rows.insert(d.i(y0 - 3, y1 + 3));
    }
    let k = item.kind();
    let e = |what: &str, e: Fault| Fail { sig: format!("{}:{}_error", k, what), detail: format!("{:?}", e) };
    let mut base = RowsT::<C>::new(rows.iter().copied());
    item.draw(&mut base).map_err(|x| e("draw", x))?;
    let moved_rows: Vec<i32> = rows.iter().map(|y| y + by.y).collect();
    let mut routes: Vec<(&str, RowsT<C>)> = vec![];
    for (name, mutating) in [("translate", false), ("translate_mut", true)] {
        let mut t = RowsT::<C>::new(moved_rows.iter().copied());
        item.draw_translated(by, mutating, &mut t).map_err(|x| e(name, x))?;
        routes.push((name, t));
    }
    let mut t = RowsT::<C>::new(moved_rows.iter().copied());
    if let Some(r) = item.draw_styled_translated(by, &mut t) {
        r.map_err(|x| e("styled_translate", x))?;
        routes.push(("Styled::translate", t));
    }
    ensure!(item.bounding_box_translated(by) == gen::Shape::Rect(bb).translate(by).bounding_box() || bb.is_zero_sized(), format!("{}:bounding_box", k), "bounding box of the moved object {:?}, the original's {:?} moved by {:?}", item.bounding_box_translated(by), bb, by);
    let (x0, x1) = (bb.top_left.x, bb.top_left.x + bb.size.width as i32);
    let mut painted = 0u64;
    for &y in &rows {
        let mut probes: std::collections::BTreeSet<i32> = Default::default();
        let mut near = |x: i32| {
            for k in -2..=2 {
                probes.insert(x + k);
            }
        };
        for x in base.run_ends(y).into_iter().chain([x0, x1, (x0 + x1) / 2, -by.x, 0]) {
            near(x);
        }
        for (_, t) in &routes {
            for x in t.run_ends(y + by.y).into_iter().take(64) {
                near(x - by.x);
            }
        }
        for _ in 0..6 {
            probes.insert(d.i(x0 - 3, x1 + 3));
        }
        for &x in &probes {
            let q = Point::new(x, y);
            let a = base.color_at(q);
            painted += u64::from(a.is_some());
            for (name, t) in &routes {
                let b = t.color_at(q + by);
                if a != b {
                    return fail(format!("{}:{}_pixels", k, name), format!("{:?} is {:?} in the drawing of the object, but {:?} + {:?} is {:?} in the drawing of the object moved with {}", q, a, q, by, b, name));
                }
            }
        }
    }
    cx.nontrivial(by != Point::zero() && painted >= 2);
    Ok(())
}

/// Thick outlines (no fill) of triangles and open polylines whose edges are 400..=1100 px long and have small
/// rational slopes, so that stroke edges meet exactly on half pixels; offsets up to +-1100. The rounding of
/// a join must not depend on where the shape sits, also where the arithmetic leaves 32 bits.
fn large_joins(d: &mut Dec, cx: &mut Cx) -> Res {
    type C = Rgb565;
    const V: [(i32, i32); 14] = [(1, 2), (2, 1), (1, 3), (3, 1), (2, 3), (3, 2), (1, 1), (1, -2), (2, -1), (1, -1), (1, 0), (0, 1), (1, 4), (4, 1)];
    let a = Point::new(d.i(-1100, 1100), d.i(-1100, 1100));
    let mut leg = |d: &mut Dec| {
        let v = V[d.idx(V.len())];
        let unit = v.0.abs().max(v.1.abs());
        let k = d.i(400 / unit, 1100 / unit);
        let (sx, sy) = (if d.bool() { 1 } else { -1 }, if d.bool() { 1 } else { -1 });
        Point::new(sx * v.0 * k, sy * v.1 * k)
    };
    let (b, c) = (a + leg(d), a + leg(d));
    let width = d.u(2, 8);
    let mut style = PrimitiveStyle::<C>::with_stroke(C::nth(2), width);
    style.stroke_alignment = gen::alignment(d);
    let item: Item<C> = if d.bool() {
        cx.class("triangle");
        Item::Styled(Shape::Triangle(embedded_graphics::primitives::Triangle::new(a, b, c)), style)
    } else {
        cx.class("polyline");
        Item::Polyline(PolyItem { pts: vec![b, a, c], offset: Point::zero(), style })
    };
    let by = match d.u(0, 2) {
        0 => Point::new(-a.x + d.i(-3, 3), -a.y + d.i(-3, 3)),
        1 => Point::new(d.i(-1100, 1100), 0),
        _ => Point::new(d.i(-1100, 1100), d.i(-1100, 1100)),
    };
    cx.describe(|| format!("{} translate by {:?}", item.desc(), by));
    let n = check_item_translation(&item, by)?;
    cx.nontrivial(by != Point::zero() && n >= 2);
    Ok(())
}
