//! C14 — text draws the glyph the font's mapping designates, in the right cell.

use crate::engine::*;
use crate::ensure;
use crate::gen::{self, Col};
use crate::items::*;
use crate::targets::*;
use embedded_graphics::{
    geometry::{OriginDimensions, Point, Size},
    image::{GetPixel, ImageRaw},
    mono_font::{mapping::GlyphMapping, mapping::StrGlyphMapping, DecorationDimensions, MonoFont, MonoTextStyle, MonoTextStyleBuilder},
    pixelcolor::{BinaryColor, Rgb888},
    text::{Baseline, DecorationColor, Text},
    Drawable,
};
use std::collections::BTreeMap;

pub fn prop() -> Prop {
    Prop {
        id: "C14",
        level: "exploration",
        rule: "(a) complete enumeration of every built-in font (table extracted from /repo) x every character of its mapping: the font's glyph_mapping.index(c) agrees with the mapping constant named in the font's source, is unique, its cell and the replacement glyph's cell lie completely inside font.image, and the character rendered alone reproduces that cell (thorough: every pair; quick: every font with 24 characters spread over its mapping). (b) proptest tapes: random built-in font, strings of mapped and unmapped characters (controls, non-BMP), text/background colour present or absent, underline/strikethrough in {None, TextColor, Custom}. (d) StrGlyphMapping strings of 1..=7 segments (single characters and \\0-ranges of 1..=6 characters from ASCII, Latin-1, Greek, CJK and non-BMP code points) judged by an independent decoder of the documented encoding: index(), contains(), chars(), ranges(), replacement index for characters next to every segment, and a text rendered through a font with that mapping. (e) very_long_lines: one line whose width crosses 2^15 or 2^16 pixels (up to about 11 000 characters), judged on windows at the start, at 2^15, at 2^16 and at the end of the line by the same reference renderer, plus the returned position and measure_string. (c) custom fonts built by the harness: atlas of 1..=4 rows with different row lengths, glyph 1..=9 x 1..=9, spacing 0..=3, own StrGlyphMapping with ranges or a closure mapping. Oracle: a reference renderer reading the atlas (cell i at x = i*(width+spacing); pixel = font.image.pixel(cell origin + (dx,dy)) -> text colour / background / untouched; spacing columns -> background if set; strikethrough then underline over n*(width+spacing)-spacing columns at the font's offsets); the recorded pixel map and the returned position must equal the reference. Non-trivial: at least one mapped non-blank and one unmapped character, or spacing > 0 with a background or decoration.",
        assumptions: vec![
            "ImageRaw::pixel is the atlas reader (pinned by C09)",
            "single lines with Baseline::Top and left alignment (layout is C15's business)",
        ],
        subs: vec![
            Sub::enumerate("font_data", font_data),
            Sub::tape("builtin_render", 300, 100_000, 5_000_000, builtin_render),
            Sub::tape("custom_fonts", 120, 100_000, 5_000_000, custom_fonts),
            Sub::tape("str_mappings", 120, 100_000, 5_000_000, str_mappings),
            Sub::tape("very_long_lines", 40, 2_000, 100_000, very_long_lines),
        ],
    }
}

type C = Rgb888;

#[derive(Clone, Debug)]
pub struct LineStyle {
    pub text: Option<C>,
    pub background: Option<C>,
    pub underline: DecorationColor<C>,
    pub strikethrough: DecorationColor<C>,
}

impl LineStyle {
    pub fn gen(d: &mut Dec) -> Self {
        let text = gen_text_color::<C>(d);
        LineStyle {
            text,
            background: gen_background(d, text),
            underline: gen_decoration(d, 5),
            strikethrough: gen_decoration(d, 6),
        }
    }
    pub fn build<'a>(&self, font: &'a MonoFont<'a>) -> MonoTextStyle<'a, C> {
        // the font is selected first, last (after the decorations), or the finished style is given another
        // font through `MonoTextStyleBuilder::from(&style).font(..)`; chosen by the decoration pattern so
        // that no extra tape word is needed
        let route = (self.text.is_some() as u32 + 2 * self.background.is_some() as u32 + match self.underline { DecorationColor::None => 0, DecorationColor::TextColor => 1, DecorationColor::Custom(_) => 2 }) % 3;
        if route != 0 {
            let mut b = MonoTextStyleBuilder::new();
            if route == 2 {
                b = b.font(&embedded_graphics::mono_font::ascii::FONT_4X6);
            }
            if let Some(c) = self.text {
                b = b.text_color(c);
            }
            if let Some(c) = self.background {
                b = b.background_color(c);
            }
            b = match self.underline {
                DecorationColor::None => b,
                DecorationColor::TextColor => b.underline(),
                DecorationColor::Custom(c) => b.underline_with_color(c),
            };
            b = match self.strikethrough {
                DecorationColor::None => b,
                DecorationColor::TextColor => b.strikethrough(),
                DecorationColor::Custom(c) => b.strikethrough_with_color(c),
            };
            return if route == 1 { b.font(font).build() } else { MonoTextStyleBuilder::from(&b.build()).font(font).build() };
        }
        let mut b = MonoTextStyleBuilder::new().font(font);
        if let Some(c) = self.text {
            b = b.text_color(c);
        }
        if let Some(c) = self.background {
            b = b.background_color(c);
        }
        b = match self.underline {
            DecorationColor::None => b,
            DecorationColor::TextColor => b.underline(),
            DecorationColor::Custom(c) => b.underline_with_color(c),
        };
        b = match self.strikethrough {
            DecorationColor::None => b,
            DecorationColor::TextColor => b.strikethrough(),
            DecorationColor::Custom(c) => b.strikethrough_with_color(c),
        };
        b.build()
    }
}

fn effective(dc: DecorationColor<C>, text: Option<C>) -> Option<C> {
    match dc {
        DecorationColor::None => None,
        DecorationColor::TextColor => text,
        DecorationColor::Custom(c) => Some(c),
    }
}

/// Reference renderer for one line whose top-left corner is `pos`; returns the expected map and
/// the x coordinate of the next position.
pub fn render_line_ref(font: &MonoFont, text: &str, st: &LineStyle, pos: Point) -> Result<(Map<C>, i32), Fail> {
    let (cw, ch) = (font.character_size.width as i32, font.character_size.height as i32);
    let sp = font.character_spacing as i32;
    let iw = font.image.size().width as i32;
    let mut map: Map<C> = Map::new();
    let gpr = if cw > 0 { iw / cw } else { 0 };
    let n = text.chars().count() as i32;
    for (i, c) in text.chars().enumerate() {
        let x0 = pos.x + i as i32 * (cw + sp);
        if gpr > 0 {
            let g = font.glyph_mapping.index(c) as i32;
            let cell = Point::new((g % gpr) * cw, (g / gpr) * ch);
            for dy in 0..ch {
                for dx in 0..cw {
                    let bit = font.image.pixel(cell + Point::new(dx, dy)).ok_or_else(|| Fail {
                        sig: "harness:cell_outside_atlas".into(),
                        detail: format!("glyph {} of {:?}: cell pixel {:?} is outside the atlas", g, c, cell + Point::new(dx, dy)),
                    })?;
                    let col = match bit {
                        BinaryColor::On => st.text,
                        BinaryColor::Off => st.background,
                    };
                    if let Some(col) = col {
                        map.insert((x0 + dx, pos.y + dy), col);
                    }
                }
            }
        }
        if i as i32 + 1 < n && sp > 0 {
            if let Some(bg) = st.background {
                for dy in 0..ch {
                    for dx in 0..sp {
                        map.insert((x0 + cw + dx, pos.y + dy), bg);
                    }
                }
            }
        }
    }
    let width = (n * (cw + sp) - sp).max(0);
    if n > 0 && width > 0 {
        for (dec, dims) in [(st.strikethrough, font.strikethrough), (st.underline, font.underline)] {
            if let Some(col) = effective(dec, st.text) {
                for dy in 0..dims.height as i32 {
                    for dx in 0..width {
                        map.insert((pos.x + dx, pos.y + dims.offset as i32 + dy), col);
                    }
                }
            }
        }
    }
    Ok((map, pos.x + if n > 0 { width } else { 0 }))
}

fn check_line(font: &MonoFont, text: &str, st: &LineStyle, pos: Point, kind: &str) -> Result<usize, Fail> {
    let (expected, next_x) = render_line_ref(font, text, st, pos)?;
    let style = st.build(font);
    let mut t = NativeT::<C>::new();
    t.0.log = false;
    let next = Text::with_baseline(text, pos, style, Baseline::Top)
        .draw(&mut t)
        .map_err(|e| Fail { sig: format!("{}:draw_error", kind), detail: format!("{:?}", e) })?;
    let mismatch = diff_maps("reference renderer (atlas)", &expected, "Text::draw", &t.0.map);
    if mismatch.is_some() || next != Point::new(next_x, pos.y) {
        // F-17 (known finding, pinned by the repository's own test
        // transparent_text_dimensions_one_line_spaced): with neither text nor background colour
        // and a spaced font the run is one trailing spacing too wide.
        let sp = font.character_spacing as i32;
        if st.text.is_none() && st.background.is_none() && sp > 0 && text.chars().next().is_some() {
            let mut alt = expected.clone();
            let width = next_x - pos.x;
            for (dec, dims) in [(st.strikethrough, font.strikethrough), (st.underline, font.underline)] {
                if let Some(col) = effective(dec, st.text) {
                    for dy in 0..dims.height as i32 {
                        for dx in width..width + sp {
                            alt.insert((pos.x + dx, pos.y + dims.offset as i32 + dy), col);
                        }
                    }
                }
            }
            if alt == t.0.map && next == Point::new(next_x + sp, pos.y) {
                return fail(
                    "transparent_spaced_text:trailing_spacing",
                    format!("text without text and background colour in a font with spacing {}: draw returned {:?} (measure_string predicts x = {}) and decorations are {} px wide instead of {}", sp, next, next_x, width + sp, width),
                );
            }
        }
    }
    if let Some(df) = mismatch {
        return fail(format!("{}:pixels", kind), df);
    }
    ensure!(next == Point::new(next_x, pos.y), format!("{}:next_position", kind), "draw returned {:?}, expected {:?}", next, Point::new(next_x, pos.y));
    Ok(expected.len())
}

fn font_data(ex: &Ex) {
    let thorough = ex.tier == Tier::Thorough;
    if !thorough {
        ex.incomplete();
    }
    ex.par(FONTS.len() as u64, |fi| {
        let (name, font, mapping) = FONTS[fi as usize];
        let chars = font_chars(fi as usize);
        let (cw, ch) = (font.character_size.width, font.character_size.height);
        let isz = font.image.size();
        let res = (|| -> Res {
            ensure!(cw > 0 && ch > 0 && isz.width >= cw, "font_data:sizes", "{}: character size {}x{}, image {:?}", name, cw, ch, isz);
            let gpr = isz.width / cw;
            let mut seen: BTreeMap<usize, char> = BTreeMap::new();
            let cell_inside = |g: usize| {
                let (col, row) = (g as u32 % gpr, g as u32 / gpr);
                (col + 1) * cw <= isz.width && (row + 1) * ch <= isz.height
            };
            for (pos, &c) in chars.iter().enumerate() {
                let g = font.glyph_mapping.index(c);
                let g2 = mapping.index(c);
                ensure!(g == g2, "font_data:mapping_mismatch", "{}: glyph_mapping.index({:?}) = {}, the mapping constant gives {}", name, c, g, g2);
                let _ = pos;
                if let Some(prev) = seen.insert(g, c) {
                    return fail("font_data:index_not_unique", format!("{}: {:?} and {:?} share glyph index {}", name, prev, c, g));
                }
                ensure!(mapping.contains(c), "font_data:contains", "{}: contains({:?}) is false for a character of the mapping", name, c);
                ensure!(cell_inside(g), "font_data:cell_outside_image", "{}: glyph {} of {:?} does not lie inside the {}x{} image", name, g, c, isz.width, isz.height);
            }
            // unmapped characters get the replacement glyph, whose cell is inside the image
            let mut replacement: Option<usize> = None;
            for &c in UNMAPPED_WIDE.iter().chain(['\u{3042}'].iter()) {
                if chars.contains(&c) {
                    continue;
                }
                let g = font.glyph_mapping.index(c);
                ensure!(!mapping.contains(c), "font_data:contains_unmapped", "{}: contains({:?}) is true", name, c);
                ensure!(cell_inside(g), "font_data:replacement_outside_image", "{}: replacement glyph {} does not lie inside the image", name, g);
                // every unmapped character designates the same (replacement) glyph
                let first = *replacement.get_or_insert(g);
                ensure!(g == first, "font_data:replacement_differs", "{}: unmapped {:?} maps to glyph {}, another unmapped character to {}", name, c, g, first);
            }
            Ok(())
        })();
        ex.check(fi * 100_000, res, || name.to_string());
        // render characters alone
        let st = LineStyle { text: Some(C::nth(3)), background: Some(C::nth(4)), underline: DecorationColor::None, strikethrough: DecorationColor::None };
        let step = if thorough { 1 } else { (chars.len() / 24).max(1) };
        let mut n = 0;
        for (k, &c) in chars.iter().enumerate().step_by(step) {
            let s = c.to_string();
            let r = check_line(font, &s, &st, Point::new(-3, 2), "builtin").map(|_| ());
            ex.check(fi * 100_000 + 1 + k as u64, r, || format!("{} {:?}", name, c));
            n += 1;
        }
        ex.add(n, n);
        if fi % 40 == 3 {
            ex.sample(|| format!("{}: {} mapped characters, {} rendered alone", name, chars.len(), n));
        }
    });
}

fn builtin_render(d: &mut Dec, cx: &mut Cx) -> Res {
    let fi = d.idx(FONTS.len());
    let (name, font, _) = FONTS[fi];
    let text: String = gen_string(d, fi, 10, false, false).chars().filter(|c| *c != '\r' && *c != '\n').collect();
    let st = LineStyle::gen(d);
    let pos = gen::point(d, 30) + gen::far_offset(d);
    cx.describe(|| format!("font {} text {:?} at {:?} {:?}", name, text, pos, st));
    let chars = font_chars(fi);
    let mapped_nonblank = text.chars().any(|c| c != ' ' && chars.contains(&c));
    let unmapped = text.chars().any(|c| !chars.contains(&c));
    cx.class(if text.is_empty() { "empty" } else if unmapped { "with_unmapped" } else { "mapped_only" });
    check_line(font, &text, &st, pos, "builtin")?;
    cx.nontrivial(mapped_nonblank && unmapped);
    Ok(())
}

fn custom_fonts(d: &mut Dec, cx: &mut Cx) -> Res {
    let (cw, ch) = (d.u(1, 9), d.u(1, 9));
    let spacing = d.u(0, 3);
    let nglyphs = d.u(1, 14) as usize;
    let gpr = d.u(1, nglyphs as u32) as usize;
    let rows = (nglyphs + gpr - 1) / gpr;
    let pad = d.u(0, 2); // image wider than a whole number of glyphs
    let (iw, ih) = (gpr as u32 * cw + pad.min(cw - 1), rows as u32 * ch);
    let stride = (iw as usize + 7) / 8;
    let mut x = d.raw() | 1;
    let data: Vec<u8> = (0..stride * ih as usize)
        .map(|_| {
            x ^= x << 13;
            x ^= x >> 17;
            x ^= x << 5;
            x as u8
        })
        .collect();
    // mapping: a range starting at 'a' followed by single characters from "XYZ..." (StrGlyphMapping), or a closure
    let range_len = d.u(0, nglyphs as u32) as usize;
    let mut mapped: Vec<char> = (0..range_len).map(|i| (b'a' + i as u8) as char).collect();
    for i in 0..(nglyphs - range_len) {
        mapped.push(char::from_u32(0x391 + i as u32 * 3).unwrap()); // Greek capitals, not contiguous
    }
    let mut mstr = String::new();
    if range_len >= 1 {
        mstr.push('\0');
        mstr.push('a');
        mstr.push((b'a' + range_len as u8 - 1) as char);
    }
    for c in &mapped[range_len..] {
        mstr.push(*c);
    }
    let replacement = d.idx(nglyphs);
    let str_mapping = StrGlyphMapping::new(&mstr, replacement);
    let mapped2 = mapped.clone();
    let closure = move |c: char| mapped2.iter().position(|m| *m == c).unwrap_or(replacement);
    let use_closure = d.bool();
    let font = MonoFont {
        image: ImageRaw::new(&data, Size::new(iw, ih)).map_err(|e| Fail { sig: "harness:atlas".into(), detail: format!("{:?}", e) })?,
        character_size: Size::new(cw, ch),
        character_spacing: spacing,
        baseline: d.u(0, ch - 1),
        strikethrough: DecorationDimensions::new(d.u(0, ch + 1), d.u(0, 2)),
        underline: DecorationDimensions::new(d.u(0, ch + 2), d.u(0, 2)),
        glyph_mapping: if use_closure { &closure } else { &str_mapping },
    };
    let n = d.u(0, 8);
    let mut text = String::new();
    for _ in 0..n {
        text.push(match d.u(0, 5) {
            0 => d.pick(&['?', ' ', '\u{1}', 'z', '\u{1F600}']),
            _ => mapped[d.idx(mapped.len())],
        });
    }
    let st = LineStyle::gen(d);
    let pos = gen::point(d, 20) + gen::far_offset(d);
    cx.describe(|| {
        format!(
            "custom font glyph {}x{} spacing {} atlas {}x{} ({} glyphs, {} per row) mapping {:?} ({}), replacement {}, strikethrough {:?} underline {:?}; text {:?} at {:?} {:?}",
            cw, ch, spacing, iw, ih, nglyphs, gpr, mstr, if use_closure { "closure" } else { "StrGlyphMapping" }, replacement, font.strikethrough, font.underline, text, pos, st
        )
    });
    cx.class(if spacing > 0 { "spaced" } else { "unspaced" });
    // the mapping itself
    for (i, c) in mapped.iter().enumerate() {
        ensure!(str_mapping.index(*c) == i, "custom:str_mapping_index", "StrGlyphMapping({:?}).index({:?}) = {}, expected {}", mstr, c, str_mapping.index(*c), i);
    }
    ensure!(str_mapping.index('\u{1F600}') == replacement, "custom:replacement_index", "unmapped character maps to {}, replacement index is {}", str_mapping.index('\u{1F600}'), replacement);
    let chars: Vec<char> = str_mapping.chars().collect();
    ensure!(chars == mapped, "custom:mapping_chars", "chars() = {:?}, expected {:?}", chars, mapped);
    check_line(&font, &text, &st, pos, "custom")?;
    let decorated = !st.underline.is_none() || !st.strikethrough.is_none();
    cx.nontrivial(text.chars().count() >= 2 && spacing > 0 && (st.background.is_some() || decorated));
    Ok(())
}


/// `StrGlyphMapping` against an independent decoder of the documented string encoding: a character
/// maps to its position in the string, `\0 a b` stands for the inclusive range a..=b.
fn str_mappings(d: &mut Dec, cx: &mut Cx) -> Res {
    let nseg = d.u(1, 7);
    let mut cp: u32 = match d.u(0, 4) {
        0 => 0x20,
        1 => 0xA0,
        2 => 0x390,
        3 => 0x4E00,
        _ => 0x1F600,
    };
    let mut mstr = String::new();
    let mut expanded: Vec<char> = vec![];
    let mut segs: Vec<(usize, char, char)> = vec![];
    let mut outside: Vec<char> = vec![];
    let mut any_range = false;
    for _ in 0..nseg {
        // strictly increasing code points, so all characters are distinct; never a surrogate, never NUL
        let gap = match d.u(0, 3) {
            0 => 1,
            1 => d.u(2, 5),
            2 => d.u(6, 300),
            _ => d.u(301, 70_000),
        };
        cp += gap;
        let len = if d.bool() { 1 } else { d.u(1, 6) };
        if (0xD800 - 8..=0xDFFF).contains(&cp) {
            cp = 0xE000 + 1;
        }
        if cp + len > 0x10FFFF {
            cp = 0x1F000;
        }
        let as_range = len > 1 || d.ratio(1, 4);
        let (mut a, mut b) = (char::from_u32(cp).unwrap(), char::from_u32(cp + len - 1).unwrap());
        // derived choice: one segment in eight that lies below the surrogate gap becomes a range that straddles
        // it (U+D7FD..=U+E001, say): U+D800..=U+DFFF are not characters and take no glyph index
        let as_range = if cp < 0xD7F0 && d.derived(0x5a99 + segs.len() as u64, 8) == 0 {
            cp = 0xD7FF - d.derived(0x5a9a + segs.len() as u64, 3);
            a = char::from_u32(cp).unwrap();
            b = char::from_u32(0xE000 + d.derived(0x5a9b + segs.len() as u64, 3)).unwrap();
            true
        } else {
            as_range
        };
        if let Some(o) = char::from_u32(cp - 1) {
            if o != '\0' && !expanded.contains(&o) {
                outside.push(o);
            }
        }
        segs.push((expanded.len(), a, b));
        if as_range {
            any_range = true;
            mstr.push('\0');
            mstr.push(a);
            mstr.push(b);
        } else {
            mstr.push(a);
        }
        expanded.extend(a..=b);
        cp = b as u32;
        if let Some(o) = char::from_u32(cp + 1) {
            outside.push(o);
        }
    }
    outside.retain(|o| !expanded.contains(o));
    let replacement = d.idx(expanded.len());
    let m = StrGlyphMapping::new(&mstr, replacement);
    cx.describe(|| format!("StrGlyphMapping::new({:?}, {}): {} characters in {} segments", mstr, replacement, expanded.len(), segs.len()));
    cx.class(if any_range { "with_ranges" } else { "singles_only" });
    for (i, c) in expanded.iter().enumerate() {
        ensure!(m.index(*c) == i, "mapping:index", "index({:?}) = {}, position {} in the documented encoding", c, m.index(*c), i);
        ensure!(m.contains(*c), "mapping:contains", "contains({:?}) is false for position {}", c, i);
    }
    for o in &outside {
        ensure!(m.index(*o) == replacement, "mapping:replacement", "index({:?}) = {} for a character outside the mapping, replacement index {}", o, m.index(*o), replacement);
        ensure!(!m.contains(*o), "mapping:contains_outside", "contains({:?}) is true for a character outside the mapping", o);
    }
    let chars: Vec<char> = m.chars().collect();
    ensure!(chars == expanded, "mapping:chars", "chars() = {:?}, expected {:?}", chars, expanded);
    let ranges: Vec<(usize, char, char)> = m.ranges().map(|(i, r)| (i, *r.start(), *r.end())).collect();
    // (the number that `ranges()` pairs with each range is not documented; it is compared with the index of the
    // range's first character only up to and including the first range that straddles the surrogate gap — after
    // such a range the unchanged library counts the 2048 surrogates, unlike `index()`; the ranges themselves
    // are compared everywhere)
    let straddle = segs.iter().position(|(_, a, b)| (*a as u32) < 0xD800 && (*b as u32) > 0xDFFF).unwrap_or(usize::MAX);
    let same = ranges.len() == segs.len() && ranges.iter().zip(segs.iter()).enumerate().all(|(k, (r, s))| r.1 == s.1 && r.2 == s.2 && (k > straddle || r.0 == s.0));
    ensure!(same, "mapping:ranges", "ranges() = {:?}, expected {:?}", ranges, segs);
    // a text through a font with this mapping (one atlas row, 3x3 glyphs)
    let n = expanded.len();
    let gpr = d.u(1, n as u32) as usize;
    let rows = (n + gpr - 1) / gpr;
    let (cw, ch) = (3u32, 3u32);
    let (iw, ih) = (gpr as u32 * cw, rows as u32 * ch);
    let stride = (iw as usize + 7) / 8;
    let mut x = d.raw() | 1;
    let data: Vec<u8> = (0..stride * ih as usize)
        .map(|_| {
            x ^= x << 13;
            x ^= x >> 17;
            x ^= x << 5;
            x as u8
        })
        .collect();
    let font = MonoFont {
        image: ImageRaw::new(&data, Size::new(iw, ih)).map_err(|e| Fail { sig: "harness:atlas".into(), detail: format!("{:?}", e) })?,
        character_size: Size::new(cw, ch),
        character_spacing: d.u(0, 1),
        baseline: 2,
        strikethrough: DecorationDimensions::new(1, 1),
        underline: DecorationDimensions::new(3, 1),
        glyph_mapping: &m,
    };
    let mut text = String::new();
    for _ in 0..d.u(0, 8) {
        text.push(if !outside.is_empty() && d.ratio(1, 5) { outside[d.idx(outside.len())] } else { expanded[d.idx(n)] });
    }
    let st = LineStyle::gen(d);
    check_line(&font, &text, &st, Point::new(1, 1), "mapping")?;
    cx.nontrivial(segs.len() >= 2 && any_range);
    Ok(())
}


// ---- very long lines ---------------------------------------------------------------------------

/// Records only the pixels whose x lies in one of the windows (everything else is counted).
struct WindowT {
    wins: Vec<(i32, i32)>,
    map: Map<C>,
    outside: u64,
}

impl embedded_graphics::geometry::Dimensions for WindowT {
    fn bounding_box(&self) -> embedded_graphics::primitives::Rectangle {
        embedded_graphics::primitives::Rectangle::new(Point::new(-200_000, -200_000), Size::new(400_000, 400_000))
    }
}

impl embedded_graphics::draw_target::DrawTarget for WindowT {
    type Color = C;
    type Error = core::convert::Infallible;
    fn draw_iter<I: IntoIterator<Item = embedded_graphics::Pixel<C>>>(&mut self, pixels: I) -> Result<(), Self::Error> {
        for embedded_graphics::Pixel(p, c) in pixels {
            if self.wins.iter().any(|(a, b)| p.x >= *a && p.x <= *b) {
                self.map.insert((p.x, p.y), c);
            } else {
                self.outside += 1;
            }
        }
        Ok(())
    }
}

fn very_long_lines(d: &mut Dec, cx: &mut Cx) -> Res {
    let fi = d.idx(FONTS.len());
    let (name, base, _) = FONTS[fi];
    let spacing = if d.ratio(1, 3) { d.u(1, 2) } else { 0 };
    let font_value = MonoFont { character_spacing: spacing, ..*base };
    let font = &font_value;
    let (cw, sp) = (font.character_size.width as i32, spacing as i32);
    // line width just below / above 2^15 or 2^16
    let target = d.pick(&[32_768, 65_536, 65_536, 65_536]) + d.i(-70, 400);
    let n = ((target + sp) / (cw + sp)).max(1) + d.i(0, 2);
    let chars = font_chars(fi);
    let mut x = d.raw() | 1;
    let text: String = (0..n)
        .map(|_| {
            x ^= x << 13;
            x ^= x >> 17;
            x ^= x << 5;
            // mostly mapped characters, some unmapped ones
            if x % 23 == 0 { '\u{1}' } else { chars[(x >> 8) as usize % chars.len()] }
        })
        .collect();
    let st = LineStyle::gen(d);
    let pos = Point::new(d.i(-20, 20), d.i(-20, 20));
    let width = n * (cw + sp) - sp;
    cx.describe(|| format!("font {} spacing {}: one line of {} characters = {} px at {:?}, {:?}; text starts {:?}", name, spacing, n, width, pos, st, text.chars().take(12).collect::<String>()));
    cx.class(if width > 65_535 { "wider_than_65535" } else if width > 32_767 { "wider_than_32767" } else { "up_to_32767" });
    let wins: Vec<(i32, i32)> = [0, 32_768, 65_536, width].iter().map(|k| (pos.x + k - 45, pos.x + k + 45)).collect();
    let in_win = |x: i32| wins.iter().any(|(a, b)| x >= *a && x <= *b);
    // reference: only the cells and decoration columns that touch a window
    let mut expected: Map<C> = Map::new();
    let (full, next_x) = {
        // characters whose cell or following spacing touches a window, rendered one by one at their place
        let mut m: Map<C> = Map::new();
        let all: Vec<char> = text.chars().collect();
        for (i, c) in all.iter().enumerate() {
            let x0 = pos.x + i as i32 * (cw + sp);
            if !(in_win(x0) || in_win(x0 + cw + sp) || in_win(x0 + (cw + sp) / 2)) {
                continue;
            }
            // a one-character line without decorations at the cell's position, plus the spacing fill
            let cell_style = LineStyle { text: st.text, background: st.background, underline: DecorationColor::None, strikethrough: DecorationColor::None };
            let (cell, _) = render_line_ref(font, &c.to_string(), &cell_style, Point::new(x0, pos.y))?;
            m.extend(cell);
            if i + 1 < all.len() && sp > 0 {
                if let Some(bg) = st.background {
                    for dy in 0..font.character_size.height as i32 {
                        for dx in 0..sp {
                            m.insert((x0 + cw + dx, pos.y + dy), bg);
                        }
                    }
                }
            }
        }
        for (dec, dims) in [(st.strikethrough, font.strikethrough), (st.underline, font.underline)] {
            if let Some(col) = effective(dec, st.text) {
                for dy in 0..dims.height as i32 {
                    for (a, b) in &wins {
                        for xx in (*a).max(pos.x)..=(*b).min(pos.x + width - 1) {
                            m.insert((xx, pos.y + dims.offset as i32 + dy), col);
                        }
                    }
                }
            }
        }
        (m, pos.x + width)
    };
    for (k, v) in full {
        if in_win(k.0) {
            expected.insert(k, v);
        }
    }
    let style = st.build(font);
    let mut t = WindowT { wins: wins.clone(), map: Map::new(), outside: 0 };
    let next = Text::with_baseline(&text, pos, style, Baseline::Top).draw(&mut t).unwrap();
    // F-17 (known finding): with neither text nor background colour in a spaced font the run is exactly one
    // trailing spacing too wide (decorations and returned position); recognised only in that exact form
    if st.text.is_none() && st.background.is_none() && sp > 0 {
        let mut alt = expected.clone();
        for (dec, dims) in [(st.strikethrough, font.strikethrough), (st.underline, font.underline)] {
            if let Some(col) = effective(dec, st.text) {
                for dy in 0..dims.height as i32 {
                    for xx in pos.x + width..pos.x + width + sp {
                        if in_win(xx) {
                            alt.insert((xx, pos.y + dims.offset as i32 + dy), col);
                        }
                    }
                }
            }
        }
        if (alt != expected || next != Point::new(next_x, pos.y)) && alt == t.map && next == Point::new(next_x + sp, pos.y) {
            return fail("transparent_spaced_text:trailing_spacing", format!("very long line: draw returned {:?} (measure_string predicts x = {}) and the decorations are {} px wide instead of {}", next, next_x, width + sp, width));
        }
    }
    if let Some(df) = diff_maps("reference renderer (atlas), windows only", &expected, "Text::draw", &t.map) {
        return fail("long_line:pixels", df);
    }
    ensure!(next == Point::new(next_x, pos.y), "long_line:next_position", "draw returned {:?}, expected {:?} ({} characters of {} px plus spacing {})", next, Point::new(next_x, pos.y), n, cw, sp);
    use embedded_graphics::text::renderer::TextRenderer;
    let m = style.measure_string(&text, pos, Baseline::Top);
    ensure!(m.next_position == Point::new(next_x, pos.y), "long_line:measure_next_position", "measure_string predicts {:?}, expected {:?}", m.next_position, Point::new(next_x, pos.y));
    ensure!(m.bounding_box.top_left.x == pos.x && m.bounding_box.size.width as i32 == width, "long_line:measure_width", "measure_string box {:?}, expected x = {} and width {}", m.bounding_box, pos.x, width);
    cx.nontrivial(width > 32_767 && !expected.is_empty());
    Ok(())
}
