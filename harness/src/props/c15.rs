//! C15 — text layout: positions, alignment, baselines and line breaks are consistent.

use crate::engine::*;
use crate::ensure;
use crate::gen::{self};
use crate::items::*;
use crate::targets::*;
use embedded_graphics::{
    geometry::{Dimensions, Point},
    mono_font::{MonoFont, MonoTextStyle, MonoTextStyleBuilder},
    pixelcolor::Rgb888,
    text::{renderer::TextRenderer, Alignment, Baseline, LineHeight, Text},
    Drawable,
};

pub fn prop() -> Prop {
    Prop {
        id: "C15",
        level: "exploration",
        rule: "proptest tapes decoding to a Text: random built-in font, strings over the font's mapping with \\n, \\r\\n, empty lines, trailing newline, unmapped characters, 3 alignments x 4 baselines x line heights in percent (0..=400) and pixels (0..=40), colour/decoration sets, positions in [-30,30]. Oracle (relations between API calls): per line the bounding box starts at x (Left), ends at x (Right) or satisfies |left + right - 2x| <= 1 (Center), its top is y minus the documented baseline offset {Top 0, Bottom h-1, Middle (h-1)/2, Alphabetic font.baseline}, its width is n*char_width; draw returns measure_string(line, line start).next_position; draw(s1) then draw(s2) at the returned point == draw(s1+s2) in pixels and position (single line, left aligned, built-in fonts have no spacing); a text with line breaks == its lines drawn separately k*line_height below the position, in order, with the last line's return value; replacing \\n by \\r\\n changes neither pixels, nor the returned position, nor the bounding box. Sub-check very_long_lines: one or two lines of which one crosses 2^15 or 2^16 pixels in width (up to about 11 000 characters), three alignments, judged without pixel maps: bounding box start / end / centre rule, drawn extent (an extent-tracking target) inside the box and equal to it horizontally when a background or decoration paints every column, returned position == measure_string's prediction == line start + width. A second sub-check repeats all relations except concatenation with copies of the built-in fonts that have character_spacing 1..=3 (line width n*(w+s)-s). Non-trivial: >= 2 lines of different length with alignment != Left, or a \\r\\n.",
        assumptions: vec![
            "line_height is LineHeight::to_absolute(font height) as documented (pixels, or percent of the font height rounded down)",
            "the concatenation clause is only claimed for fonts without spacing (all built-in fonts)",
        ],
        subs: vec![
            Sub::tape("layout", 300, 200_000, 10_000_000, |d, cx| layout(d, cx, false)),
            Sub::tape("layout_spaced_fonts", 300, 100_000, 5_000_000, |d, cx| layout(d, cx, true)),
            Sub::tape("very_long_lines", 40, 1_500, 75_000, very_long_lines),
        ],
    }
}

type C = Rgb888;

/// Draws the text of `t` with `font` (which may be a spaced copy of the built-in font).
fn draw_map(t: &TextItem<C>, font: &MonoFont) -> Result<(Map<C>, Point), Fail> {
    let mut tgt = NativeT::<C>::new();
    tgt.0.log = false;
    let p = build(t, font).draw(&mut tgt).map_err(|e| Fail { sig: "draw_error".into(), detail: format!("{:?}", e) })?;
    Ok((tgt.0.map, p))
}

fn char_style<'a>(t: &TextItem<C>, font: &'a MonoFont<'a>) -> MonoTextStyle<'a, C> {
    // same colours and decorations, other font
    MonoTextStyleBuilder::from(&t.char_style()).font(font).build()
}

fn build<'a>(t: &'a TextItem<C>, font: &'a MonoFont<'a>) -> Text<'a, MonoTextStyle<'a, C>> {
    // the item's API route for the `Text` constructor and the text style, with the (possibly spaced) font
    let t0 = t.build();
    Text { text: t0.text, position: t0.position, character_style: char_style(t, font), text_style: t0.text_style }
}

fn layout(d: &mut Dec, cx: &mut Cx, spaced: bool) -> Res {
    let mut item = gen_text::<C>(d, 30, 12);
    item.pos += crate::gen::far_offset(d);
    item.spacing = 0; // this sub-check sets the spacing itself (`spaced`)
    // strings with CR LF in this property are generated as LF and converted below
    item.text = item.text.replace("\r\n", "\n");
    let with_crlf = d.ratio(1, 3);
    cx.describe(|| format!("{} (CR LF variant compared: {})", item.desc(), with_crlf));
    let transparent_spaced = spaced && item.text_color.is_none() && item.background.is_none();
    let spacing = if spaced { d.u(1, 3) } else { 0 };
    let mut font_value = MonoFont { character_spacing: spacing, ..*item.font() };
    // derived choice: one font in four gets another baseline than the built-in one, also on or below the
    // bottom of the glyph cell (a raised font): the Alphabetic offset is `font.baseline`, whatever it is
    let hgt = font_value.character_size.height;
    font_value.baseline = match d.derived(0xba5e, 16) {
        0 => 0,
        1 => hgt.saturating_sub(1),
        2 => hgt,
        3 => hgt + 1 + d.derived(0xba5f, 12),
        _ => font_value.baseline,
    };
    let font = &font_value;
    let sp = spacing as i32;
    let (cw, ch) = (font.character_size.width as i32, font.character_size.height as i32);
    let lines: Vec<&str> = item.text.split('\n').collect();
    cx.class(match item.alignment {
        Alignment::Left => "left",
        Alignment::Center => "center",
        Alignment::Right => "right",
    });
    let lh = item.line_height.to_absolute(font.character_size.height) as i32;
    let style = char_style(&item, font);
    let base_off = match item.baseline {
        Baseline::Top => 0,
        Baseline::Bottom => ch - 1,
        Baseline::Middle => (ch - 1) / 2,
        Baseline::Alphabetic => font.baseline as i32,
    };

    // ---- whole text
    let (whole_map, whole_next) = draw_map(&item, font)?;

    // ---- per line: alignment, baseline, returned position, and the separate-lines map
    let mut sep_map: Map<C> = Map::new();
    let mut last_next = item.pos;
    for (k, line) in lines.iter().enumerate() {
        let mut single = item.clone();
        single.text = line.to_string();
        single.pos = item.pos + Point::new(0, k as i32 * lh);
        let (m, next) = draw_map(&single, font)?;
        for (key, v) in m {
            sep_map.insert(key, v);
        }
        last_next = next;
        let n = line.chars().count() as i32;
        let bb = build(&single, font).bounding_box();
        let w = n * (cw + sp) - if n > 0 { sp } else { 0 };
        if n > 0 {
            let (left, right) = (bb.top_left.x, bb.top_left.x + bb.size.width as i32 - 1);
            ensure!(bb.size.width as i32 == w, "line:width", "line {:?}: bounding box {:?}, expected width {}", line, bb, w);
            let x = single.pos.x;
            match item.alignment {
                Alignment::Left => ensure!(left == x, "alignment:left", "line {:?}: box {:?} does not start at x = {}", line, bb, x),
                Alignment::Right => ensure!(right == x, "alignment:right", "line {:?}: box {:?} does not end at x = {}", line, bb, x),
                Alignment::Center => ensure!((left + right - 2 * x).abs() <= 1, "alignment:center", "line {:?}: box {:?} is not centred on x = {}", line, bb, x),
            }
            ensure!(bb.top_left.y == single.pos.y - base_off, "baseline:offset", "line {:?}: box top {} but y - baseline offset = {} ({:?})", line, bb.top_left.y, single.pos.y - base_off, item.baseline);
            // draw returns what measure_string predicts for the line at its start position
            let start = Point::new(left, single.pos.y);
            let predicted = style.measure_string(line, start, item.baseline).next_position;
            if transparent_spaced && next == predicted + Point::new(sp, 0) {
                // F-17 (known finding, see C14): the transparent arm adds a trailing spacing
                return fail("transparent_spaced_text:trailing_spacing", format!("line {:?} without text and background colour in a font with spacing {}: draw returned {:?}, measure_string predicts {:?}", line, sp, next, predicted));
            }
            ensure!(next == predicted, "draw:returns_measure_string", "line {:?}: draw returned {:?}, measure_string(line start {:?}) predicts {:?}", line, next, start, predicted);
            ensure!(next == Point::new(left + w, single.pos.y), "draw:next_position", "line {:?}: draw returned {:?}, expected {:?}", line, next, Point::new(left + w, single.pos.y));
        }
    }
    if let Some(df) = diff_maps("lines drawn separately, line_height apart", &sep_map, "text with line breaks", &whole_map) {
        return fail("multiline:pixels", df);
    }
    ensure!(whole_next == last_next, "multiline:next_position", "text with line breaks returned {:?}, its last line drawn separately {:?}", whole_next, last_next);

    // ---- CR LF
    if with_crlf {
        let mut crlf = item.clone();
        // every line break becomes CR LF, or (derived choice, half of the cases) only some of them: a text
        // may mix both kinds of line ending
        let mask = if d.derived(0xc71f, 2) == 0 { u32::MAX } else { d.derived(0xc720, 1 << 16) | 1 << (d.derived(0xc721, 3)) };
        let mut k = 0u32;
        crlf.text = String::new();
        for ch in item.text.chars() {
            if ch == '\n' {
                if mask >> (k % 16) & 1 == 1 {
                    crlf.text.push('\r');
                }
                k += 1;
            }
            crlf.text.push(ch);
        }
        let (m, next) = draw_map(&crlf, font)?;
        if let Some(df) = diff_maps("text with \\n", &whole_map, "text with \\r\\n", &m) {
            return fail("crlf:pixels", df);
        }
        ensure!(next == whole_next, "crlf:next_position", "\\r\\n variant returned {:?}, \\n variant {:?}", next, whole_next);
        let (b1, b2) = (build(&item, font).bounding_box(), build(&crlf, font).bounding_box());
        ensure!(b1 == b2, "crlf:bounding_box", "\\r\\n variant has bounding box {:?}, \\n variant {:?}", b2, b1);
    }

    // ---- concatenation (single line, left aligned)
    if lines.len() == 1 && !spaced {
        let chars: Vec<char> = item.text.chars().collect();
        let cut = if chars.is_empty() { 0 } else { d.idx(chars.len() + 1) };
        let (s1, s2): (String, String) = (chars[..cut].iter().collect(), chars[cut..].iter().collect());
        let mut left_item = item.clone();
        left_item.alignment = Alignment::Left;
        let (joined, joined_next) = draw_map(&left_item, font)?;
        let mut tgt = NativeT::<C>::new();
        tgt.0.log = false;
        let mut a = left_item.clone();
        a.text = s1.clone();
        let p1 = build(&a, font).draw(&mut tgt).map_err(|e| Fail { sig: "draw_error".into(), detail: format!("{:?}", e) })?;
        let mut b = left_item.clone();
        b.text = s2.clone();
        b.pos = p1;
        let p2 = build(&b, font).draw(&mut tgt).map_err(|e| Fail { sig: "draw_error".into(), detail: format!("{:?}", e) })?;
        if let Some(df) = diff_maps(&format!("draw({:?} + {:?})", s1, s2), &joined, "draw(s1) then draw(s2) at the returned position", &tgt.0.map) {
            return fail("concat:pixels", df);
        }
        ensure!(p2 == joined_next, "concat:next_position", "draw(s1), draw(s2) ends at {:?}, draw(s1+s2) at {:?}", p2, joined_next);
    }
    let lens: Vec<usize> = lines.iter().map(|l| l.chars().count()).collect();
    let different = lens.iter().any(|l| *l != lens[0]);
    cx.nontrivial((lines.len() >= 2 && different && item.alignment != Alignment::Left) || (with_crlf && lines.len() >= 2));
    let _ = (gen::point, LineHeight::Percent(100));
    Ok(())
}


/// Lines wider than 2^15 / 2^16 pixels: the alignment arithmetic and the returned position, judged on
/// boxes, extents and positions only (no pixel maps).
fn very_long_lines(d: &mut Dec, cx: &mut Cx) -> Res {
    let mut item = gen_text::<C>(d, 20, 4);
    item.spacing = 0;
    let font = item.font();
    let (cw, ch) = (font.character_size.width as i32, font.character_size.height as i32);
    let target = d.pick(&[32_768, 65_536, 65_536, 65_536]) + d.i(-70, 400);
    let n = (target / cw).max(1) + d.i(0, 2);
    let chars = font_chars(item.font);
    let mut x = d.raw() | 1;
    let long: String = (0..n)
        .map(|_| {
            x ^= x << 13;
            x ^= x >> 17;
            x ^= x << 5;
            chars[(x >> 8) as usize % chars.len()]
        })
        .collect();
    // the long line alone, or after / before a short line (the short part comes from the generator)
    let short: String = item.text.chars().filter(|c| *c != '\n' && *c != '\r').take(3).collect();
    let (text, long_index, nlines) = match d.u(0, 2) {
        0 => (long.clone(), 0, 1),
        1 => (format!("{}\n{}", short, long), 1, 2),
        _ => (format!("{}\n{}", long, short), 0, 2),
    };
    item.text = text;
    item.line_height = embedded_graphics::text::LineHeight::Percent(100);
    let width = n * cw;
    let short_w = short.chars().count() as i32 * cw;
    cx.describe(|| format!("{} characters of {} px = {} px in line {} of {}; font {} alignment {:?} baseline {:?} pos {:?} colours {:?}/{:?} underline {:?}", n, cw, width, long_index, nlines, FONTS[item.font].0, item.alignment, item.baseline, item.pos, item.text_color, item.background, item.underline));
    cx.class(match item.alignment {
        Alignment::Left => "left",
        Alignment::Center => "center",
        Alignment::Right => "right",
    });
    let text = item.build();
    let bb = text.bounding_box();
    let x0 = item.pos.x;
    // per line: [left, right] by the alignment rule
    let line_box = |w: i32| -> (i32, i32, bool) {
        match item.alignment {
            Alignment::Left => (x0, x0 + w - 1, true),
            Alignment::Right => (x0 - w + 1, x0, true),
            Alignment::Center => (x0 - (w - 1) / 2 - 1, x0 + w / 2 + 1, false), // within one pixel, checked below
        }
    };
    let (l, r, exact) = line_box(width);
    let (bl, br) = (bb.top_left.x, bb.top_left.x + bb.size.width as i32 - 1);
    // the box of the whole text is the envelope of its lines; the long line dominates
    if exact {
        let (sl, sr, _) = if nlines == 2 && short_w > 0 { line_box(short_w) } else { (l, r, true) };
        ensure!(bl == l.min(sl) && br == r.max(sr), "long_line:bounding_box", "bounding box spans x = {}..={}, the {:?}-aligned line of {} px at x = {} spans {}..={}", bl, br, item.alignment, width, x0, l, r);
    } else {
        ensure!(bb.size.width as i32 == width, "long_line:bounding_box_width", "bounding box is {} px wide, the line {}", bb.size.width, width);
        ensure!((bl + br - 2 * x0).abs() <= 1, "long_line:center", "centred line spans x = {}..={} around x = {} (left + right - 2x = {})", bl, br, x0, bl + br - 2 * x0);
    }
    // drawn extent and returned position
    let mut t = ExtentT::<C>::new();
    let next = text.draw(&mut t).map_err(|e| Fail { sig: "long_line:draw_error".into(), detail: format!("{:?}", e) })?;
    if let (Some(min), Some(max)) = (t.min, t.max) {
        ensure!(min.x >= bl && max.x <= br, "long_line:drawn_outside_box", "drawn extent x = {}..={} is not inside the bounding box {}..={}", min.x, max.x, bl, br);
        // (a background alone does not paint the 'on' pixels of a glyph: a glyph column may stay untouched)
        let paints_all_columns = (item.background.is_some() && item.text_color.is_some()) || (!item.underline.is_none() && (item.text_color.is_some() || matches!(item.underline, embedded_graphics::text::DecorationColor::Custom(_))));
        if paints_all_columns {
            ensure!(min.x == bl && max.x == br, "long_line:drawn_extent", "every column is painted (background or underline) but the drawn extent is x = {}..={}, the box {}..={}", min.x, max.x, bl, br);
        }
    }
    // the last line decides the returned position: its left end plus its width
    let last_w = if long_index + 1 == nlines { width } else { short_w };
    let last_left = match item.alignment {
        Alignment::Left => x0,
        Alignment::Right => x0 - last_w + if last_w > 0 { 1 } else { 0 },
        Alignment::Center => next.x - last_w, // judged through the bounding box above
    };
    if last_w > 0 {
        ensure!(next.x == last_left + last_w, "long_line:next_position", "draw returned x = {}, the last line starts at {} and is {} px wide", next.x, last_left, last_w);
    }
    let _ = ch;
    cx.nontrivial(width > 32_767 && item.alignment != Alignment::Left);
    Ok(())
}
