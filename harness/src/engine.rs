//! Engine: choice-tape decoder, per-case context, drivers (proptest tape driver, parallel
//! enumerator, replay), statistics, known-findings filter, evidence writer.
//!
//! A *tape* is a `Vec<u32>` of raw choices. Every property sub-check is a function that
//! constructs a case from the tape (`Dec`) and judges it; there is no rejection. The same function
//! is driven by proptest (random tapes, shrinking), by replay files and by the libFuzzer targets.

use proptest::test_runner::{Config, RngSeed, TestCaseError, TestError, TestRunner};
use serde_json::{json, Value};
use std::cell::RefCell;
use std::collections::{BTreeMap, HashSet};
use std::panic::{catch_unwind, AssertUnwindSafe};
use std::sync::atomic::{AtomicBool, AtomicU64, AtomicUsize, Ordering};
use std::sync::Mutex;
use std::time::Instant;

// ---------------------------------------------------------------------------------------------
// Tape decoder
// ---------------------------------------------------------------------------------------------

/// Number of auxiliary words at the start of every tape (layout 2). They are read by index with
/// `aux_u` / `aux_i`, not by the sequential cursor, so that a generator can be given an additional
/// choice without shifting the meaning of every following word (which would silently turn saved
/// tapes into different cases). A zero auxiliary word selects the default behaviour.
pub const AUX: usize = 8;

/// Decoder over a tape of raw 32-bit choices. Exhausted tapes yield 0 (the low end of each range).
pub struct Dec<'a> {
    tape: &'a [u32],
    pos: usize,
    hash: u64,
    /// Set by `gen::far_offset` when the case was placed far away from the origin (reported as the
    /// counter `far_placed_cases`).
    pub far: bool,
}

impl<'a> Dec<'a> {
    pub fn new(tape: &'a [u32]) -> Self {
        Self {
            tape,
            pos: AUX,
            hash: 0xcbf29ce484222325,
            far: false,
        }
    }

    /// Auxiliary choice `k` (`k < AUX`), uniform in `lo..=hi`, `lo` for a zero word.
    pub fn aux_u(&mut self, k: usize, lo: u32, hi: u32) -> u32 {
        debug_assert!(k < AUX && lo <= hi);
        let span = (hi - lo) as u64 + 1;
        let w = self.tape.get(k).copied().unwrap_or(0) as u64;
        let v = lo + ((w * span) >> 32) as u32;
        self.mix(v as u64 ^ 0x3333 ^ ((k as u64) << 40));
        v
    }

    /// Auxiliary choice `k`, uniform in `lo..=hi`, the value nearest to zero for a zero word.
    pub fn aux_i(&mut self, k: usize, lo: i32, hi: i32) -> i32 {
        debug_assert!(k < AUX && lo <= hi);
        let w = self.tape.get(k).copied().unwrap_or(0);
        let v = Self::map_i(w, lo, hi);
        self.mix(v as u64 ^ 0xcccc ^ ((k as u64) << 40));
        v
    }

    fn word(&mut self) -> u32 {
        let w = self.tape.get(self.pos).copied().unwrap_or(0);
        self.pos += 1;
        w
    }

    fn mix(&mut self, v: u64) {
        self.hash ^= v;
        self.hash = self.hash.wrapping_mul(0x100000001b3);
        self.hash ^= self.hash >> 29;
    }

    /// Words consumed so far (including the auxiliary words at the start).
    pub fn used(&self) -> usize {
        self.pos
    }

    /// Fingerprint of all values decoded so far.
    pub fn fingerprint(&self) -> u64 {
        self.hash
    }

    /// Uniform in `lo..=hi`, monotone in the raw word (so shrinking a word shrinks the value).
    pub fn u(&mut self, lo: u32, hi: u32) -> u32 {
        debug_assert!(lo <= hi);
        let span = (hi - lo) as u64 + 1;
        let w = self.word() as u64;
        let v = lo + ((w * span) >> 32) as u32;
        self.mix(v as u64 ^ 0x5555);
        v
    }

    /// Uniform in `lo..=hi`; value nearest to zero (or `lo` if positive) for a zero word.
    pub fn i(&mut self, lo: i32, hi: i32) -> i32 {
        debug_assert!(lo <= hi);
        let w = self.word();
        let v = Self::map_i(w, lo, hi);
        self.mix(v as u64 ^ 0xaaaa);
        v
    }

    fn map_i(w: u32, lo: i32, hi: i32) -> i32 {
        let span = (hi as i64 - lo as i64) as u64 + 1;
        let k = ((w as u64 * span) >> 32) as i64;
        // Order the range so that k = 0 is the value closest to zero: 0, 1, -1, 2, -2, ...
        let v = if lo <= 0 && hi >= 0 {
            let (nl, nh) = (-(lo as i64), hi as i64);
            let m = nl.min(nh);
            if k <= 2 * m {
                if k % 2 == 1 {
                    (k + 1) / 2
                } else {
                    -(k / 2)
                }
            } else if nh > nl {
                k - m
            } else {
                -(k - m)
            }
        } else if lo > 0 {
            lo as i64 + k
        } else {
            hi as i64 - k
        };
        v as i32
    }

    /// A choice in `0..n` *derived* from everything decoded so far (the fingerprint) and a salt, without
    /// consuming a tape word: the case stays a pure function of the tape, saved tapes keep their meaning
    /// for every other decoded value, and generators can be given further equivalent-route choices late.
    /// Only to be used for choices between routes that are documented to be equivalent (the decoded
    /// case is the same object either way), because the value jumps when an earlier word shrinks.
    pub fn derived(&self, salt: u64, n: u32) -> u32 {
        let mut h = self.hash ^ salt.wrapping_mul(0x9e3779b97f4a7c15);
        h ^= h >> 31;
        h = h.wrapping_mul(0xbf58476d1ce4e5b9);
        h ^= h >> 29;
        h = h.wrapping_mul(0x94d049bb133111eb);
        h ^= h >> 32;
        ((h & 0xffff_ffff) * n as u64 >> 32) as u32
    }

    pub fn bool(&mut self) -> bool {
        self.u(0, 1) == 1
    }

    /// True with probability n/d (false for a zero word).
    pub fn ratio(&mut self, n: u32, d: u32) -> bool {
        self.u(0, d - 1) >= d - n
    }

    pub fn pick<T: Copy>(&mut self, items: &[T]) -> T {
        items[self.u(0, items.len() as u32 - 1) as usize]
    }

    pub fn idx(&mut self, len: usize) -> usize {
        self.u(0, len as u32 - 1) as usize
    }

    /// Raw 32 bit value.
    pub fn raw(&mut self) -> u32 {
        self.u(0, u32::MAX)
    }

    /// Size-like value in `0..=max`, biased towards small values and the listed boundaries.
    pub fn size(&mut self, max: u32) -> u32 {
        match self.u(0, 9) {
            0..=2 => self.u(0, max.min(3)),
            3..=5 => self.u(0, max.min(12)),
            6..=7 => self.u(0, max.min(40)),
            _ => self.u(0, max),
        }
    }

    /// Coordinate in `-r..=r`, biased towards small magnitudes.
    pub fn coord(&mut self, r: i32) -> i32 {
        match self.u(0, 3) {
            0 => self.i(-r.min(3), r.min(3)),
            1 => self.i(-r.min(12), r.min(12)),
            _ => self.i(-r, r),
        }
    }
}

// ---------------------------------------------------------------------------------------------
// Per-case context and verdicts
// ---------------------------------------------------------------------------------------------

#[derive(Debug, Clone)]
pub struct Fail {
    /// Stable signature (used for known-findings matching): which clause failed / panic site.
    pub sig: String,
    /// Human readable detail of the disagreement.
    pub detail: String,
}

pub type Res = Result<(), Fail>;

pub fn fail<T>(sig: impl Into<String>, detail: impl Into<String>) -> Result<T, Fail> {
    Err(Fail {
        sig: sig.into(),
        detail: detail.into(),
    })
}

#[macro_export]
macro_rules! ensure {
    ($cond:expr, $sig:expr, $($arg:tt)*) => {
        if !($cond) {
            return $crate::engine::fail($sig, format!($($arg)*));
        }
    };
}

/// Per-case context handed to a sub-check.
pub struct Cx {
    pub want_desc: bool,
    pub desc: Option<String>,
    pub class: &'static str,
    pub nontrivial: bool,
    /// Extra counters a check may bump (merged into the evidence file).
    pub counters: Vec<(&'static str, u64)>,
    pub tier: Tier,
}

impl Cx {
    pub fn new(want_desc: bool, tier: Tier) -> Self {
        Self {
            want_desc,
            desc: None,
            class: "default",
            nontrivial: false,
            counters: Vec::new(),
            tier,
        }
    }
    /// Record a description of the decoded case (only evaluated when needed).
    pub fn describe(&mut self, f: impl FnOnce() -> String) {
        if self.want_desc {
            self.desc = Some(f());
        }
    }
    pub fn class(&mut self, c: &'static str) {
        self.class = c;
    }
    pub fn nontrivial(&mut self, b: bool) {
        self.nontrivial = b;
    }
    pub fn count(&mut self, name: &'static str, n: u64) {
        self.counters.push((name, n));
    }
}

#[derive(Clone, Copy, PartialEq, Eq, Debug)]
pub enum Tier {
    Quick,
    Thorough,
}

impl Tier {
    pub fn name(self) -> &'static str {
        match self {
            Tier::Quick => "quick",
            Tier::Thorough => "thorough",
        }
    }
    pub fn pick<T>(self, q: T, t: T) -> T {
        match self {
            Tier::Quick => q,
            Tier::Thorough => t,
        }
    }
}

pub type TapeFn = fn(&mut Dec, &mut Cx) -> Res;
pub type EnumFn = fn(&Ex) -> ();

pub enum Kind {
    /// Random tapes through proptest: tape length, cases in quick / thorough tier.
    Tape {
        len: usize,
        quick: u32,
        thorough: u32,
        f: TapeFn,
    },
    /// Complete enumeration of a finite domain (the function loops itself via `Ex`).
    Enum { f: EnumFn },
}

pub struct Sub {
    pub name: &'static str,
    pub kind: Kind,
    /// Also run in the `fixed_point` build.
    pub fp: bool,
}

impl Sub {
    pub fn tape(name: &'static str, len: usize, quick: u32, thorough: u32, f: TapeFn) -> Self {
        Sub {
            name,
            kind: Kind::Tape {
                len,
                quick,
                thorough,
                f,
            },
            fp: false,
        }
    }
    pub fn enumerate(name: &'static str, f: EnumFn) -> Self {
        Sub {
            name,
            kind: Kind::Enum { f },
            fp: false,
        }
    }
    pub fn with_fp(mut self) -> Self {
        self.fp = true;
        self
    }
}

pub struct Prop {
    pub id: &'static str,
    pub level: &'static str,
    pub rule: &'static str,
    pub assumptions: Vec<&'static str>,
    pub subs: Vec<Sub>,
}

// ---------------------------------------------------------------------------------------------
// Panic capture
// ---------------------------------------------------------------------------------------------

thread_local! {
    static LAST_PANIC: RefCell<Option<(String, u32, String)>> = RefCell::new(None);
    static QUIET: RefCell<bool> = RefCell::new(false);
}

pub fn install_panic_hook() {
    let default = std::panic::take_hook();
    std::panic::set_hook(Box::new(move |info| {
        let quiet = QUIET.with(|q| *q.borrow()) && std::env::var_os("EGVERIF_LOUD").is_none();
        let msg = if let Some(s) = info.payload().downcast_ref::<&str>() {
            s.to_string()
        } else if let Some(s) = info.payload().downcast_ref::<String>() {
            s.clone()
        } else {
            "<non-string panic payload>".to_string()
        };
        let (file, line) = info
            .location()
            .map(|l| (l.file().to_string(), l.line()))
            .unwrap_or(("?".into(), 0));
        LAST_PANIC.with(|p| *p.borrow_mut() = Some((file, line, msg)));
        if !quiet {
            default(info);
        }
    }));
}

/// Information about a caught panic.
#[derive(Debug, Clone)]
pub struct PanicInfo {
    pub file: String,
    pub line: u32,
    pub msg: String,
}

/// Run `f`, catching a panic and reporting where it came from. Allocation-free on the success
/// path apart from what `f` does.
pub fn catch<T>(f: impl FnOnce() -> T) -> Result<T, PanicInfo> {
    let prev = QUIET.with(|q| std::mem::replace(&mut *q.borrow_mut(), true));
    let r = catch_unwind(AssertUnwindSafe(f));
    QUIET.with(|q| *q.borrow_mut() = prev);
    match r {
        Ok(v) => Ok(v),
        Err(_) => {
            let (file, line, msg) = LAST_PANIC
                .with(|p| p.borrow_mut().take())
                .unwrap_or(("?".into(), 0, "?".into()));
            Err(PanicInfo { file, line, msg })
        }
    }
}

fn short_file(f: &str) -> String {
    // strip the absolute prefix so that signatures do not depend on where the tree lives
    if let Some(i) = f.find("/repo/") {
        f[i + 6..].to_string()
    } else {
        f.to_string()
    }
}

impl PanicInfo {
    /// Raised in the harness's own sources (a bug of the check, reported as INCONCLUSIVE, never as a verdict).
    pub fn in_harness(&self) -> bool {
        !self.file.starts_with('/') && (self.file.starts_with("src/") || self.file.starts_with("harness/"))
    }
}

pub fn panic_fail(p: PanicInfo) -> Fail {
    let mut msg = p.msg.clone();
    if msg.len() > 120 {
        msg.truncate(120);
    }
    // first line only
    let msg1 = msg.lines().next().unwrap_or("").to_string();
    // A panic raised in the harness's own sources (relative path, not under /repo and not in the
    // standard library) is a bug of the check, not a verdict about the library.
    let harness = !p.file.starts_with('/') && (p.file.starts_with("src/") || p.file.starts_with("harness/"));
    Fail {
        sig: format!("{}:{}:{}", if harness { "harness_panic" } else { "panic" }, short_file(&p.file), msg1),
        detail: format!("panic at {}:{}: {}", p.file, p.line, p.msg),
    }
}

// ---------------------------------------------------------------------------------------------
// Known findings
// ---------------------------------------------------------------------------------------------

#[derive(Clone, Debug)]
pub struct Known {
    pub property: String,
    pub sig: String,
    pub status: String,
    pub description: String,
}

pub fn load_known(root: &str) -> Vec<Known> {
    let path = format!("{}/known_findings.json", root);
    let Ok(text) = std::fs::read_to_string(&path) else {
        return vec![];
    };
    let v: Value = serde_json::from_str(&text).expect("known_findings.json is not valid JSON");
    let mut out = vec![];
    for f in v["findings"].as_array().cloned().unwrap_or_default() {
        out.push(Known {
            property: f["property"].as_str().unwrap_or("").to_string(),
            sig: f["sig"].as_str().unwrap_or("").to_string(),
            status: f["status"].as_str().unwrap_or("").to_string(),
            description: f["description"].as_str().unwrap_or("").to_string(),
        });
    }
    out
}

fn sig_matches(pattern: &str, sig: &str) -> bool {
    if let Some(prefix) = pattern.strip_suffix('*') {
        sig.starts_with(prefix)
    } else {
        pattern == sig
    }
}

// ---------------------------------------------------------------------------------------------
// Statistics
// ---------------------------------------------------------------------------------------------

#[derive(Default)]
pub struct Stats {
    pub evaluations: u64,
    pub nontrivial_total: u64,
    pub fps: HashSet<u64>,
    /// distinct non-trivial cases counted directly by exhaustive enumerations
    pub enum_nontrivial: u64,
    pub classes: BTreeMap<String, u64>,
    pub counters: BTreeMap<String, u64>,
    pub samples: Vec<Value>,
    pub excluded: BTreeMap<String, u64>,
    pub exhaustive_subs: Vec<String>,
    pub per_sub: BTreeMap<String, (u64, u64)>,
}

impl Stats {
    pub fn merge(&mut self, o: Stats) {
        self.evaluations += o.evaluations;
        self.nontrivial_total += o.nontrivial_total;
        self.fps.extend(o.fps);
        self.enum_nontrivial += o.enum_nontrivial;
        for (k, v) in o.classes {
            *self.classes.entry(k).or_default() += v;
        }
        for (k, v) in o.counters {
            *self.counters.entry(k).or_default() += v;
        }
        self.samples.extend(o.samples);
        for (k, v) in o.excluded {
            *self.excluded.entry(k).or_default() += v;
        }
        self.exhaustive_subs.extend(o.exhaustive_subs);
        for (k, v) in o.per_sub {
            let e = self.per_sub.entry(k).or_default();
            e.0 += v.0;
            e.1 += v.1;
        }
    }
    pub fn distinct_nontrivial(&self) -> u64 {
        self.fps.len() as u64 + self.enum_nontrivial
    }
}

// ---------------------------------------------------------------------------------------------
// Run configuration
// ---------------------------------------------------------------------------------------------

pub struct Run {
    pub root: String,
    pub tier: Tier,
    pub seed: u64,
    pub threads: usize,
    pub known: Vec<Known>,
    pub strict: bool,
    pub build: &'static str,
}

impl Run {
    fn known_status(&self, prop: &str, sig: &str) -> Option<&Known> {
        if self.strict {
            return None;
        }
        self.known
            .iter()
            .find(|k| k.property == prop && k.status == "known" && sig_matches(&k.sig, sig))
    }
}

#[derive(Debug, Clone)]
pub struct Violation {
    pub sub: String,
    pub fail: Fail,
    pub tape: Option<Vec<u32>>,
    pub case: String,
}

// ---------------------------------------------------------------------------------------------
// Watchdog: a single case running too long ends the process with exit code 2 (inconclusive).
// ---------------------------------------------------------------------------------------------

const SLOTS: usize = 64;
static CASE_START: [AtomicU64; SLOTS] = {
    #[allow(clippy::declare_interior_mutable_const)]
    const Z: AtomicU64 = AtomicU64::new(0);
    [Z; SLOTS]
};
static EPOCH: Mutex<Option<Instant>> = Mutex::new(None);

fn now_ms() -> u64 {
    let mut e = EPOCH.lock().unwrap();
    let epoch = *e.get_or_insert_with(Instant::now);
    epoch.elapsed().as_millis() as u64 + 1
}

pub fn start_watchdog(limit_s: u64) {
    now_ms();
    std::thread::spawn(move || loop {
        std::thread::sleep(std::time::Duration::from_millis(500));
        let now = now_ms();
        for s in CASE_START.iter() {
            let t = s.load(Ordering::Relaxed);
            if t != 0 && now.saturating_sub(t) > limit_s * 1000 {
                println!(
                    "INCONCLUSIVE: a single case ran longer than {} s (watchdog); no verdict",
                    limit_s
                );
                std::process::exit(2);
            }
        }
    });
}

struct SlotGuard(usize);
impl SlotGuard {
    fn enter(slot: usize) -> Self {
        CASE_START[slot % SLOTS].store(now_ms(), Ordering::Relaxed);
        SlotGuard(slot % SLOTS)
    }
}
impl Drop for SlotGuard {
    fn drop(&mut self) {
        CASE_START[self.0].store(0, Ordering::Relaxed);
    }
}

// ---------------------------------------------------------------------------------------------
// Running a single tape case
// ---------------------------------------------------------------------------------------------

pub struct CaseReport {
    pub fp: u64,
    pub class: &'static str,
    pub nontrivial: bool,
    pub desc: Option<String>,
    pub counters: Vec<(&'static str, u64)>,
    pub result: Res,
}

pub fn run_case(f: TapeFn, tape: &[u32], want_desc: bool, tier: Tier) -> CaseReport {
    let mut dec = Dec::new(tape);
    let mut cx = Cx::new(want_desc, tier);
    let r = catch(|| f(&mut dec, &mut cx));
    let result = match r {
        Ok(r) => r,
        Err(p) => Err(panic_fail(p)),
    };
    if dec.far {
        cx.counters.push(("far_placed_cases", 1));
    }
    // a decoder that runs past the end of the tape gets zeros (the low end of every range): harmless for
    // a case now and then, a blind spot if it happens systematically; reported so that it is noticed
    if dec.pos > tape.len() {
        cx.counters.push(("tape_exhausted_cases", 1));
    }
    CaseReport {
        fp: dec.fingerprint(),
        class: cx.class,
        nontrivial: cx.nontrivial,
        desc: cx.desc,
        counters: cx.counters,
        result,
    }
}

fn splitmix(mut x: u64) -> u64 {
    x = x.wrapping_add(0x9E3779B97F4A7C15);
    let mut z = x;
    z = (z ^ (z >> 30)).wrapping_mul(0xBF58476D1CE4E5B9);
    z = (z ^ (z >> 27)).wrapping_mul(0x94D049BB133111EB);
    z ^ (z >> 31)
}

fn str_hash(s: &str) -> u64 {
    let mut h = 0xcbf29ce484222325u64;
    for b in s.bytes() {
        h ^= b as u64;
        h = h.wrapping_mul(0x100000001b3);
    }
    h
}

const SHARDS: usize = 16;
const SAMPLES_PER_SUB: usize = 6;

/// Drive one tape sub-check with proptest: `cases` random tapes split over a fixed number of
/// shards (so the result does not depend on the number of cores).
pub fn drive_tape(
    run: &Run,
    prop: &Prop,
    sub: &Sub,
    len: usize,
    cases: u32,
    f: TapeFn,
) -> (Stats, Option<Violation>) {
    let shards = SHARDS.min(cases.max(1) as usize);
    let next = AtomicUsize::new(0);
    let results: Mutex<Vec<(usize, Stats, Option<Violation>)>> = Mutex::new(vec![]);
    let stop = AtomicBool::new(false);
    // smallest index of a shard that has reported a violation: the violation of the smallest failing shard is
    // the one reported, so shards with a larger index have nothing to add and end at once (deterministic: the
    // winning shard's search and shrinking never depend on the others)
    let best = AtomicUsize::new(usize::MAX);
    let tier = run.tier;

    std::thread::scope(|scope| {
        for _ in 0..run.threads.min(shards) {
            scope.spawn(|| loop {
                let shard = next.fetch_add(1, Ordering::SeqCst);
                if shard >= shards {
                    break;
                }
                let n = cases / shards as u32 + u32::from((shard as u32) < cases % shards as u32);
                if n == 0 {
                    continue;
                }
                let seed = splitmix(
                    run.seed
                        .wrapping_mul(0x2545F4914F6CDD1D)
                        .wrapping_add(str_hash(prop.id))
                        .wrapping_add(str_hash(sub.name).rotate_left(17))
                        .wrapping_add(shard as u64 * 0x1000193),
                );
                let state = RefCell::new((Stats::default(), 0usize, false));
                let mut config = Config::default();
                config.cases = n;
                config.failure_persistence = None;
                config.rng_seed = RngSeed::Fixed(seed);
                // (a case of a `huge_*` sub-check costs up to 0.1 s: fewer shrink steps, a less minimal replay; the
                // bound limits minimisation only, never a verdict)
                config.max_shrink_iters = if sub.name.starts_with("huge") { 60 } else { 20_000 };
                config.max_shrink_time = 0;
                config.verbose = 0;
                config.source_file = None;
                let mut runner = TestRunner::new(config);
                let strat = proptest::collection::vec(proptest::arbitrary::any::<u32>(), len + AUX);
                let res = runner.run(&strat, |tape| {
                    if best.load(Ordering::SeqCst) < shard {
                        return Ok(());
                    }
                    let _g = SlotGuard::enter(shard);
                    let rep = run_case(f, &tape, false, tier);
                    let mut st = state.borrow_mut();
                    let (stats, nt_samples, failed) = &mut *st;
                    match rep.result {
                        Ok(()) => {}
                        Err(fl) => {
                            if run.known_status(prop.id, &fl.sig).is_some() {
                                if !*failed {
                                    *stats.excluded.entry(fl.sig.clone()).or_default() += 1;
                                    stats.evaluations += 1;
                                }
                                return Ok(());
                            }
                            *failed = true;
                            return Err(TestCaseError::fail(fl.sig));
                        }
                    }
                    if !*failed {
                        stats.evaluations += 1;
                        *stats.classes.entry(format!("{}/{}", sub.name, rep.class)).or_default() +=
                            1;
                        for (k, v) in rep.counters {
                            let key = if k == "tape_exhausted_cases" { format!("{}/{}", k, sub.name) } else { k.to_string() };
                            *stats.counters.entry(key).or_default() += v;
                        }
                        if rep.nontrivial {
                            stats.nontrivial_total += 1;
                            stats.fps.insert(rep.fp ^ str_hash(sub.name));
                        }
                        // samples: the first case of shard 0 and the first non-trivial ones
                        let first = shard == 0 && stats.evaluations == 1;
                        if first || (rep.nontrivial && *nt_samples < 1 && shard < SAMPLES_PER_SUB) {
                            if rep.nontrivial {
                                *nt_samples += 1;
                            }
                            let again = run_case(f, &tape, true, tier);
                            stats.samples.push(json!({
                                "sub": sub.name,
                                "class": rep.class,
                                "nontrivial": rep.nontrivial,
                                "case": again.desc.unwrap_or_else(|| format!("tape {:?}", &tape[..tape.len().min(16)])),
                            }));
                        }
                    }
                    Ok(())
                });
                let (mut stats, _, _) = state.into_inner();
                let mut violation = None;
                match res {
                    Ok(()) => {}
                    Err(TestError::Fail(_, tape)) => {
                        let rep = run_case(f, &tape, true, tier);
                        let fl = rep.result.err().unwrap_or(Fail {
                            sig: "unstable".into(),
                            detail: "the shrunk tape passed when re-run (non-deterministic check?)"
                                .into(),
                        });
                        // cut unused tail
                        let mut d = Dec::new(&tape);
                        let mut cx = Cx::new(false, tier);
                        let _ = catch(|| f(&mut d, &mut cx));
                        let used = d.used().min(tape.len());
                        violation = Some(Violation {
                            sub: sub.name.to_string(),
                            fail: fl,
                            tape: Some(tape[..used].to_vec()),
                            case: rep.desc.unwrap_or_default(),
                        });
                        stop.store(true, Ordering::SeqCst);
                        best.fetch_min(shard, Ordering::SeqCst);
                    }
                    Err(TestError::Abort(r)) => {
                        violation = Some(Violation {
                            sub: sub.name.to_string(),
                            fail: Fail {
                                sig: "abort".into(),
                                detail: format!("proptest aborted: {}", r),
                            },
                            tape: None,
                            case: String::new(),
                        });
                    }
                }
                stats
                    .per_sub
                    .insert(sub.name.to_string(), (stats.evaluations, stats.nontrivial_total));
                results.lock().unwrap().push((shard, stats, violation));
            });
        }
    });

    let mut results = results.into_inner().unwrap();
    results.sort_by_key(|r| r.0);
    let mut total = Stats::default();
    let mut violation = None;
    for (_, s, v) in results {
        total.merge(s);
        if violation.is_none() {
            violation = v;
        }
    }
    (total, violation)
}

// ---------------------------------------------------------------------------------------------
// Enumeration context
// ---------------------------------------------------------------------------------------------

/// Context of an exhaustive enumeration. `par` distributes item indices over threads; the
/// failure with the smallest index wins, so the outcome is deterministic.
pub struct Ex<'r> {
    pub tier: Tier,
    pub sub: &'static str,
    prop: &'static str,
    run: &'r Run,
    evaluations: AtomicU64,
    nontrivial: AtomicU64,
    inner: Mutex<ExInner>,
    stop: AtomicBool,
    complete: AtomicBool,
}

#[derive(Default)]
struct ExInner {
    samples: Vec<Value>,
    excluded: BTreeMap<String, u64>,
    failure: Option<(u64, Fail, String)>,
    counters: BTreeMap<String, u64>,
    classes: BTreeMap<String, u64>,
}

impl<'r> Ex<'r> {
    /// Count `n` evaluated cases of which `nontrivial` are non-trivial (all distinct by
    /// construction of the enumeration).
    pub fn add(&self, n: u64, nontrivial: u64) {
        self.evaluations.fetch_add(n, Ordering::Relaxed);
        self.nontrivial.fetch_add(nontrivial, Ordering::Relaxed);
    }
    pub fn counter(&self, name: &str, n: u64) {
        *self.inner.lock().unwrap().counters.entry(name.to_string()).or_default() += n;
    }
    pub fn class(&self, name: &str, n: u64) {
        *self
            .inner
            .lock()
            .unwrap()
            .classes
            .entry(format!("{}/{}", self.sub, name))
            .or_default() += n;
    }
    pub fn sample(&self, f: impl FnOnce() -> String) {
        let mut g = self.inner.lock().unwrap();
        if g.samples.len() < SAMPLES_PER_SUB {
            let s = f();
            g.samples.push(json!({"sub": self.sub, "case": s}));
        }
    }
    pub fn want_sample(&self) -> bool {
        self.inner.lock().unwrap().samples.len() < SAMPLES_PER_SUB
    }
    pub fn stopped(&self) -> bool {
        self.stop.load(Ordering::Relaxed)
    }
    /// Mark that the enumeration was cut short (not exhaustive).
    pub fn incomplete(&self) {
        self.complete.store(false, Ordering::Relaxed);
    }
    /// Report a failing case with order index `index` (smallest index wins).
    pub fn fail(&self, index: u64, sig: impl Into<String>, detail: impl Into<String>, case: impl Into<String>) {
        let sig = sig.into();
        let mut g = self.inner.lock().unwrap();
        if self.run.known_status(self.prop, &sig).is_some() {
            *g.excluded.entry(sig).or_default() += 1;
            return;
        }
        let better = match &g.failure {
            None => true,
            Some((i, _, _)) => index < *i,
        };
        if better {
            g.failure = Some((
                index,
                Fail {
                    sig,
                    detail: detail.into(),
                },
                case.into(),
            ));
        }
        self.stop.store(true, Ordering::SeqCst);
    }
    /// Convenience: report a `Res`.
    pub fn check(&self, index: u64, r: Res, case: impl FnOnce() -> String) {
        if let Err(f) = r {
            self.fail(index, f.sig, f.detail, case());
        }
    }

    /// Run `f(i)` for all `i in 0..n` in parallel, in increasing hand-out order. Panics inside `f`
    /// are reported as failures of item `i`.
    pub fn par(&self, n: u64, f: impl Fn(u64) + Sync) {
        let next = AtomicU64::new(0);
        let threads = self.run.threads.max(1);
        let chunk = (n / (threads as u64 * 32)).clamp(1, 4096);
        std::thread::scope(|scope| {
            for t in 0..threads {
                let next = &next;
                let f = &f;
                scope.spawn(move || loop {
                    if self.stopped() {
                        break;
                    }
                    let start = next.fetch_add(chunk, Ordering::SeqCst);
                    if start >= n {
                        break;
                    }
                    let _g = SlotGuard::enter(t);
                    for i in start..(start + chunk).min(n) {
                        if let Err(p) = catch(|| f(i)) {
                            let fl = panic_fail(p);
                            self.fail(i, fl.sig, fl.detail, format!("enumeration item {}", i));
                        }
                    }
                });
            }
        });
    }
}

pub fn drive_enum(run: &Run, prop: &Prop, sub: &Sub, f: EnumFn) -> (Stats, Option<Violation>) {
    let ex = Ex {
        tier: run.tier,
        sub: sub.name,
        prop: prop.id,
        run,
        evaluations: AtomicU64::new(0),
        nontrivial: AtomicU64::new(0),
        inner: Mutex::new(ExInner::default()),
        stop: AtomicBool::new(false),
        complete: AtomicBool::new(true),
    };
    let _g = SlotGuard::enter(SLOTS - 1);
    if let Err(p) = catch(|| f(&ex)) {
        let fl = panic_fail(p);
        ex.fail(u64::MAX - 1, fl.sig, fl.detail, "enumeration driver");
    }
    let inner = ex.inner.into_inner().unwrap();
    let mut stats = Stats::default();
    stats.evaluations = ex.evaluations.load(Ordering::SeqCst);
    stats.enum_nontrivial = ex.nontrivial.load(Ordering::SeqCst);
    stats.nontrivial_total = stats.enum_nontrivial;
    stats.samples = inner.samples;
    stats.excluded = inner.excluded;
    stats.counters = inner.counters;
    stats.classes = inner.classes;
    stats
        .per_sub
        .insert(sub.name.to_string(), (stats.evaluations, stats.enum_nontrivial));
    let violation = inner.failure.map(|(_, fail, case)| Violation {
        sub: sub.name.to_string(),
        fail,
        tape: None,
        case,
    });
    if violation.is_none() && ex.complete.load(Ordering::SeqCst) {
        stats.exhaustive_subs.push(sub.name.to_string());
    }
    (stats, violation)
}

// ---------------------------------------------------------------------------------------------
// Replay files
// ---------------------------------------------------------------------------------------------

pub fn write_replay(run: &Run, prop: &Prop, v: &Violation) -> String {
    let dir = format!("{}/replays", run.root);
    let _ = std::fs::create_dir_all(&dir);
    let body = json!({
        "property": prop.id,
        "sub": v.sub,
        "mode": if v.tape.is_some() { "tape" } else { "enumerate" },
        "tape": v.tape,
        "layout": 2,
        "build": run.build,
        "tier": run.tier.name(),
        "signature": v.fail.sig,
        "detail": v.fail.detail,
        "case": v.case,
        "seed": run.seed,
    });
    let text = serde_json::to_string_pretty(&body).unwrap();
    let h = str_hash(&format!("{}{:?}{}", v.sub, v.tape, v.fail.sig));
    let path = format!("{}/{}-{}-{:08x}.json", dir, prop.id, v.sub, h as u32);
    std::fs::write(&path, text).expect("cannot write replay file");
    path
}

/// Replay one file. Returns Ok(true) if the case passes now.
pub fn replay_value(run: &Run, props: &[Prop], v: &Value) -> Result<(bool, String), String> {
    let pid = v["property"].as_str().ok_or("replay file: no property")?;
    let subname = v["sub"].as_str().ok_or("replay file: no sub")?;
    let prop = props.iter().find(|p| p.id == pid).ok_or("unknown property")?;
    let sub = prop
        .subs
        .iter()
        .find(|s| s.name == subname)
        .ok_or_else(|| format!("unknown sub-check {}", subname))?;
    match &sub.kind {
        Kind::Tape { f, .. } => {
            let mut tape: Vec<u32> = v["tape"]
                .as_array()
                .ok_or("replay file: no tape")?
                .iter()
                .map(|x| x.as_u64().unwrap_or(0) as u32)
                .collect();
            if v["layout"].as_u64().unwrap_or(1) < 2 {
                // layout 1 had no auxiliary words: all default
                let mut t = vec![0u32; AUX];
                t.extend(tape);
                tape = t;
            }
            let rep = run_case(*f, &tape, true, run.tier);
            let case = rep.desc.clone().unwrap_or_default();
            match rep.result {
                Ok(()) => Ok((true, case)),
                Err(fl) => {
                    if let Some(k) = run.known_status(pid, &fl.sig) {
                        println!("KNOWN-FINDING: property={} {} ({})", pid, k.description, fl.sig);
                        return Ok((true, case));
                    }
                    Ok((false, format!("{}\n  {}: {}", case, fl.sig, fl.detail)))
                }
            }
        }
        Kind::Enum { f } => {
            let (_, viol) = drive_enum(run, prop, sub, *f);
            match viol {
                None => Ok((true, String::new())),
                Some(v) => Ok((false, format!("{}\n  {}: {}", v.case, v.fail.sig, v.fail.detail))),
            }
        }
    }
}

// ---------------------------------------------------------------------------------------------
// Evidence
// ---------------------------------------------------------------------------------------------

pub fn stats_to_json(s: &Stats) -> Value {
    json!({
        "evaluations": s.evaluations,
        "nontrivial_total": s.nontrivial_total,
        "fps": s.fps.iter().collect::<Vec<_>>(),
        "enum_nontrivial": s.enum_nontrivial,
        "classes": s.classes,
        "counters": s.counters,
        "samples": s.samples,
        "excluded": s.excluded,
        "exhaustive_subs": s.exhaustive_subs,
        "per_sub": s.per_sub.iter().map(|(k, v)| (k.clone(), json!([v.0, v.1]))).collect::<BTreeMap<_, _>>(),
    })
}

pub fn stats_from_json(v: &Value) -> Stats {
    let mut s = Stats::default();
    s.evaluations = v["evaluations"].as_u64().unwrap_or(0);
    s.nontrivial_total = v["nontrivial_total"].as_u64().unwrap_or(0);
    s.enum_nontrivial = v["enum_nontrivial"].as_u64().unwrap_or(0);
    for x in v["fps"].as_array().cloned().unwrap_or_default() {
        s.fps.insert(x.as_u64().unwrap_or(0));
    }
    let map = |key: &str| -> BTreeMap<String, u64> {
        v[key]
            .as_object()
            .map(|o| o.iter().map(|(k, v)| (k.clone(), v.as_u64().unwrap_or(0))).collect())
            .unwrap_or_default()
    };
    s.classes = map("classes");
    s.counters = map("counters");
    s.excluded = map("excluded");
    s.samples = v["samples"].as_array().cloned().unwrap_or_default();
    s.exhaustive_subs = v["exhaustive_subs"]
        .as_array()
        .map(|a| a.iter().filter_map(|x| x.as_str().map(String::from)).collect())
        .unwrap_or_default();
    if let Some(o) = v["per_sub"].as_object() {
        for (k, x) in o {
            s.per_sub
                .insert(k.clone(), (x[0].as_u64().unwrap_or(0), x[1].as_u64().unwrap_or(0)));
        }
    }
    s
}

#[allow(clippy::too_many_arguments)]
pub fn write_evidence(
    run: &Run,
    prop: &Prop,
    stats: &Stats,
    violations: u64,
    wall_s: f64,
    builds: &[String],
    all_enum_exhaustive: bool,
    replayed: u64,
) {
    let dir = format!("{}/evidence", run.root);
    let _ = std::fs::create_dir_all(&dir);
    let mut assumptions: Vec<String> = prop.assumptions.iter().map(|s| s.to_string()).collect();
    assumptions.push(
        "the harness binary is rebuilt by ./check from /repo's working tree (path dependency), \
         opt-level 2 with overflow-checks and debug-assertions on"
            .into(),
    );
    let mut samples = stats.samples.clone();
    samples.truncate(60);
    let coverage = json!({
        "evaluations": stats.evaluations,
        "distinct_nontrivial": stats.distinct_nontrivial(),
        "nontrivial_total": stats.nontrivial_total,
        "rule": prop.rule,
        "samples": samples,
        "exhaustive": all_enum_exhaustive,
        "exhaustive_subchecks": stats.exhaustive_subs,
        "per_subcheck_evaluations_nontrivial": stats.per_sub.iter().map(|(k, v)| (k.clone(), json!([v.0, v.1]))).collect::<BTreeMap<_, _>>(),
        "class_histogram": stats.classes,
        "counters": stats.counters,
        "excluded_known": stats.excluded,
        "regression_replays_run": replayed,
        "builds": builds,
    });
    let body = json!({
        "property_id": prop.id,
        "tier": run.tier.name(),
        "seed": run.seed,
        "level": prop.level,
        "coverage": coverage,
        "assumptions": assumptions,
        "wall_s": wall_s,
        "violations": violations,
    });
    let path = format!("{}/{}.json", dir, prop.id);
    std::fs::write(&path, serde_json::to_string_pretty(&body).unwrap())
        .expect("cannot write evidence file");
}
