//! egverif: property-based / fuzzing checks for the listed properties C01..C20 of
//! embedded-graphics. See /verif/DESIGN.md.

#![allow(clippy::type_complexity)]

use egverif::engine::*;
use egverif::{alloc_count, props, BUILD};
use serde_json::Value;
use std::time::Instant;

#[global_allocator]
static GLOBAL: alloc_count::Counting = alloc_count::Counting;


fn usage() -> ! {
    eprintln!(
        "usage: egverif run <Cxx> <quick|thorough> [--only <sub>] [--partial <file>]\n       \
         egverif replay <file>\n       egverif list"
    );
    std::process::exit(64);
}

fn main() {
    let args: Vec<String> = std::env::args().collect();
    if args.len() < 2 {
        usage();
    }
    install_panic_hook();
    let root = std::env::var("VERIF_ROOT").unwrap_or_else(|_| "/verif".to_string());
    let seed: u64 = std::env::var("VERIF_SEED")
        .ok()
        .and_then(|s| s.trim().parse::<i64>().ok())
        .map(|v| v as u64)
        .unwrap_or(1);
    let threads = std::env::var("VERIF_THREADS")
        .ok()
        .and_then(|s| s.parse().ok())
        .unwrap_or_else(|| {
            std::thread::available_parallelism()
                .map(|n| n.get())
                .unwrap_or(4)
                .min(16)
        });
    let props = props::all();

    match args[1].as_str() {
        "list" => {
            for p in &props {
                println!("{}", p.id);
                for s in &p.subs {
                    println!(
                        "  {} {}{}",
                        s.name,
                        match &s.kind {
                            Kind::Tape { quick, thorough, len, .. } =>
                                format!("tape len={} quick={} thorough={}", len, quick, thorough),
                            Kind::Enum { .. } => "enumeration".to_string(),
                        },
                        if s.fp { " +fixed_point" } else { "" }
                    );
                }
            }
        }
        "replay" => {
            if args.len() < 3 {
                usage();
            }
            let text = std::fs::read_to_string(&args[2]).expect("cannot read replay file");
            let v: Value = serde_json::from_str(&text).expect("replay file is not JSON");
            let want_build = v["build"].as_str().unwrap_or("default");
            if want_build != BUILD {
                // hand over to the other binary
                if let Ok(bin) = std::env::var(if want_build == "fixed_point" {
                    "EGVERIF_FP_BIN"
                } else {
                    "EGVERIF_BIN"
                }) {
                    let st = std::process::Command::new(bin)
                        .args(&args[1..])
                        .status()
                        .expect("cannot start the other build");
                    std::process::exit(st.code().unwrap_or(2));
                }
            }
            let tier = if v["tier"].as_str() == Some("thorough") {
                Tier::Thorough
            } else {
                Tier::Quick
            };
            let run = Run {
                root: root.clone(),
                tier,
                seed,
                threads,
                known: load_known(&root),
                strict: false,
                build: BUILD,
            };
            start_watchdog(600);
            match replay_value(&run, &props, &v) {
                Ok((true, case)) => {
                    println!("replay passes: {}", case);
                }
                Ok((false, what)) => {
                    println!("replay fails: {}", what);
                    println!(
                        "VIOLATION property={} replay={}",
                        v["property"].as_str().unwrap_or("?"),
                        args[2]
                    );
                    std::process::exit(1);
                }
                Err(e) => {
                    eprintln!("replay error: {}", e);
                    std::process::exit(2);
                }
            }
        }
        "fuzz-replay" => {
            // egverif fuzz-replay <Cxx> <crash file>: run a libFuzzer input through the plain
            // driver; on failure write a replay file (tape) and print the VIOLATION line.
            if args.len() < 4 {
                usage();
            }
            let Some(prop) = props.iter().find(|p| p.id == args[2]) else {
                eprintln!("unknown property {}", args[2]);
                std::process::exit(64);
            };
            let data = std::fs::read(&args[3]).expect("cannot read fuzz input");
            let run = Run { root: root.clone(), tier: Tier::Thorough, seed, threads, known: load_known(&root), strict: false, build: BUILD };
            start_watchdog(900);
            match egverif::fuzz::run_input(prop, &data, true) {
                None => println!("property {} has no tape sub-check", prop.id),
                Some(o) => match o.report.result {
                    Ok(()) => println!("fuzz input passes: {}", o.report.desc.unwrap_or_default()),
                    Err(f) => {
                        if run.known.iter().any(|k| k.property == prop.id && k.status == "known" && k.sig == f.sig) {
                            println!("KNOWN-FINDING: property={} {}", prop.id, f.sig);
                        } else {
                            let v = Violation { sub: o.sub.to_string(), fail: f.clone(), tape: Some(o.tape.clone()), case: o.report.desc.clone().unwrap_or_default() };
                            let path = write_replay(&run, prop, &v);
                            println!("violation in {}/{} [{}] (found by libFuzzer): {}\n  case: {}\n  detail: {}", prop.id, o.sub, BUILD, f.sig, v.case, f.detail);
                            println!("VIOLATION property={} replay={}", prop.id, path);
                            std::process::exit(1);
                        }
                    }
                },
            }
        }
        "fuzz-evidence" => {
            // egverif fuzz-evidence <Cxx> <target> <runs> <corpus files> <crashes> <seconds>: add
            // the libFuzzer campaign to the evidence file written by the preceding run
            if args.len() < 8 {
                usage();
            }
            let path = format!("{}/evidence/{}.json", root, args[2]);
            let text = std::fs::read_to_string(&path).expect("evidence file missing");
            let mut v: Value = serde_json::from_str(&text).expect("evidence not JSON");
            let num = |s: &str| s.parse::<u64>().unwrap_or(0);
            v["coverage"]["libfuzzer"] = serde_json::json!({
                "target": args[3], "runs": num(&args[4]), "corpus_files_after": num(&args[5]), "crashes": num(&args[6]), "seconds": num(&args[7]),
                "note": "coverage-guided campaign on the same decoders and oracles (debug assertions and overflow checks on); runs are in addition to 'evaluations'",
            });
            if num(&args[6]) > 0 {
                v["violations"] = serde_json::json!(v["violations"].as_u64().unwrap_or(0) + num(&args[6]));
            }
            std::fs::write(&path, serde_json::to_string_pretty(&v).unwrap()).expect("cannot write evidence");
        }
        "run" => {
            if args.len() < 4 {
                usage();
            }
            let id = args[2].as_str();
            let tier = match args[3].as_str() {
                "quick" => Tier::Quick,
                "thorough" => Tier::Thorough,
                _ => usage(),
            };
            let mut only: Option<String> = None;
            let mut partial: Option<String> = None;
            let mut i = 4;
            while i < args.len() {
                match args[i].as_str() {
                    "--only" => {
                        only = args.get(i + 1).cloned();
                        i += 2;
                    }
                    "--partial" => {
                        partial = args.get(i + 1).cloned();
                        i += 2;
                    }
                    _ => usage(),
                }
            }
            let Some(prop) = props.iter().find(|p| p.id == id) else {
                eprintln!("unknown property {}", id);
                std::process::exit(64);
            };
            let run = Run {
                root: root.clone(),
                tier,
                seed,
                threads,
                known: load_known(&root),
                strict: false,
                build: BUILD,
            };
            start_watchdog(tier.pick(120, 900));
            let code = run_property(&run, prop, &props, only.as_deref(), partial.as_deref());
            std::process::exit(code);
        }
        _ => usage(),
    }
}

fn run_property(
    run: &Run,
    prop: &Prop,
    props: &[Prop],
    only: Option<&str>,
    partial: Option<&str>,
) -> i32 {
    let t0 = Instant::now();
    let is_fp_build = BUILD == "fixed_point";
    let mut total = Stats::default();
    let mut violations: Vec<(Violation, String)> = vec![];
    let mut builds = vec![BUILD.to_string()];
    let mut all_exhaustive = true;
    let mut child_violation = false;
    let mut harness_bug = false;

    // 1. fixed_point part (delegated to the second binary)
    let has_fp = prop.subs.iter().any(|s| s.fp);
    if !is_fp_build && has_fp && only.is_none() {
        match std::env::var("EGVERIF_FP_BIN") {
            Ok(bin) => {
                let pfile = format!("{}/evidence/.{}.fp.partial.json", run.root, prop.id);
                let _ = std::fs::remove_file(&pfile);
                let st = std::process::Command::new(&bin)
                    .args(["run", prop.id, run.tier.name(), "--partial", &pfile])
                    .status()
                    .expect("cannot start fixed_point build of the harness");
                match st.code() {
                    Some(0) => {}
                    Some(1) => child_violation = true,
                    c => {
                        println!("INCONCLUSIVE: fixed_point run ended with {:?}", c);
                        return 2;
                    }
                }
                if let Ok(text) = std::fs::read_to_string(&pfile) {
                    let v: Value = serde_json::from_str(&text).unwrap_or(Value::Null);
                    let mut s = stats_from_json(&v["stats"]);
                    // keep the two builds apart in the tables
                    s.classes = s.classes.into_iter().map(|(k, v)| (format!("fp:{}", k), v)).collect();
                    s.per_sub = s.per_sub.into_iter().map(|(k, v)| (format!("fp:{}", k), v)).collect();
                    s.exhaustive_subs = s.exhaustive_subs.into_iter().map(|k| format!("fp:{}", k)).collect();
                    // fingerprints of the other build are different cases
                    s.fps = s.fps.into_iter().map(|x| x ^ 0x0f0f_f0f0_1234_5678).collect();
                    if !v["all_exhaustive"].as_bool().unwrap_or(true) {
                        all_exhaustive = false;
                    }
                    total.merge(s);
                    builds.push("fixed_point".into());
                    let _ = std::fs::remove_file(&pfile);
                }
            }
            Err(_) => {
                println!("note: EGVERIF_FP_BIN not set; fixed_point sub-checks skipped");
            }
        }
    }

    // 2. regression tier: committed replay files of this property
    let mut replayed = 0u64;
    if only.is_none() {
        let dir = format!("{}/regress/{}", run.root, prop.id);
        let mut files: Vec<_> = std::fs::read_dir(&dir)
            .map(|rd| rd.filter_map(|e| e.ok().map(|e| e.path())).collect())
            .unwrap_or_default();
        files.sort();
        for f in files {
            if f.extension().and_then(|e| e.to_str()) != Some("json") {
                continue;
            }
            let text = std::fs::read_to_string(&f).unwrap_or_default();
            let Ok(v) = serde_json::from_str::<Value>(&text) else {
                continue;
            };
            if v["build"].as_str().unwrap_or("default") != BUILD {
                continue;
            }
            replayed += 1;
            match replay_value(run, props, &v) {
                Ok((true, case)) => {
                    // a tape decodes by position: a generator change can silently turn a regression
                    // tape into a different case. Say so, so that the file gets regenerated.
                    if let Some(rec) = v["case"].as_str() {
                        if !case.is_empty() && rec != case {
                            println!("note: regression tape {} no longer decodes to the recorded case (generator changed); it still passes", f.display());
                        }
                    }
                }
                Ok((false, what)) => {
                    println!("regression replay {} fails: {}", f.display(), what);
                    println!("VIOLATION property={} replay={}", prop.id, f.display());
                    child_violation = true;
                }
                Err(e) => {
                    println!("note: regression file {} not usable: {}", f.display(), e);
                }
            }
        }
    }

    // 3. the sub-checks
    for sub in &prop.subs {
        if let Some(o) = only {
            if sub.name != o {
                continue;
            }
        }
        if is_fp_build && !sub.fp && only.is_none() {
            continue;
        }
        let ts = Instant::now();
        let (stats, viol) = match &sub.kind {
            Kind::Tape { len, quick, thorough, f } => {
                all_exhaustive = false;
                let cases = run.tier.pick(*quick, *thorough);
                drive_tape(run, prop, sub, *len, cases, *f)
            }
            Kind::Enum { f } => {
                let (s, v) = drive_enum(run, prop, sub, *f);
                if !s.exhaustive_subs.iter().any(|n| n == sub.name) {
                    all_exhaustive = false;
                }
                (s, v)
            }
        };
        eprintln!(
            "[{} {} {}] {}: {} cases, {} non-trivial, {:.2}s{}",
            prop.id,
            run.tier.name(),
            BUILD,
            sub.name,
            stats.evaluations,
            stats.nontrivial_total,
            ts.elapsed().as_secs_f64(),
            if viol.is_some() { "  ** VIOLATION **" } else { "" }
        );
        // generator health: a sub-check whose decoder regularly runs past the end of its tape explores less
        // than its generator describes (the missing choices are all zero)
        let exhausted = stats.counters.get(&format!("tape_exhausted_cases/{}", sub.name)).copied().unwrap_or(0);
        if stats.evaluations > 0 && exhausted * 10 > stats.evaluations {
            eprintln!("note: {} of {} cases of {}/{} ran past the end of their tape: raise the tape length of this sub-check", exhausted, stats.evaluations, prop.id, sub.name);
        }
        total.merge(stats);
        if let Some(v) = viol {
            if v.fail.sig.starts_with("harness_panic:") {
                let path = write_replay(run, prop, &v);
                println!("INCONCLUSIVE: the check {}/{} itself panicked ({}); this is a defect of the check, no verdict (case saved as {})", prop.id, v.sub, v.fail.detail, path);
                harness_bug = true;
                continue;
            }
            let path = write_replay(run, prop, &v);
            println!(
                "violation in {}/{} [{}]: {}\n  case: {}\n  detail: {}",
                prop.id, v.sub, BUILD, v.fail.sig, v.case, v.fail.detail
            );
            println!("VIOLATION property={} replay={}", prop.id, path);
            violations.push((v, path));
        }
    }

    // known findings that were met (the fixed_point child reports through the parent)
    for (sig, n) in total.excluded.iter().filter(|_| partial.is_none()) {
        let desc = run
            .known
            .iter()
            .find(|k| k.property == prop.id && k.status == "known" && (k.sig == *sig || (k.sig.ends_with('*') && sig.starts_with(k.sig.trim_end_matches('*')))))
            .map(|k| k.description.clone())
            .unwrap_or_default();
        println!("KNOWN-FINDING: property={} {} [{}; {} cases excluded]", prop.id, desc, sig, n);
    }

    let nviol = violations.len() as u64 + u64::from(child_violation);
    let wall = t0.elapsed().as_secs_f64();
    if let Some(pfile) = partial {
        let body = serde_json::json!({
            "stats": stats_to_json(&total),
            "violations": nviol,
            "all_exhaustive": all_exhaustive,
        });
        std::fs::write(pfile, serde_json::to_string(&body).unwrap()).expect("cannot write partial");
    } else if only.is_none() {
        write_evidence(run, prop, &total, nviol, wall, &builds, all_exhaustive, replayed);
    }
    eprintln!(
        "[{} {} {}] total: {} evaluations, {} distinct non-trivial, {} violation(s), {:.1}s",
        prop.id,
        run.tier.name(),
        BUILD,
        total.evaluations,
        total.distinct_nontrivial(),
        nviol,
        wall
    );
    if nviol > 0 {
        1
    } else if harness_bug {
        2
    } else {
        0
    }
}
