//! Reference draw targets. None of them clips: a pixel that should not arrive is recorded.
//!
//! * `IterT`   implements `draw_iter` only and inherits the trait defaults (what MockDisplay is).
//! * `NativeT` implements `fill_contiguous`, `fill_solid` and `clear` directly with the documented
//!   meaning (row-major zip of the area's points with the colours; it then drains the colour
//!   iterator and records how many colours it could pull).
//! * `NullT`   counts only (allocation free).
//! * `Dyn`     type-erased target for adapter stacks chosen at run time.

use embedded_graphics::{
    draw_target::DrawTarget,
    geometry::{Dimensions, Point, Size},
    pixelcolor::PixelColor,
    primitives::{PointsIter, Rectangle},
    Pixel,
};
use std::collections::BTreeMap;

#[derive(Debug, Clone, Copy, PartialEq, Eq)]
pub struct Fault(pub usize);

#[derive(Debug, Clone, PartialEq)]
pub enum Call<C> {
    DrawIter(Vec<(i32, i32, C)>),
    /// area, colours pulled (all of them, also beyond the area)
    FillContiguous(Rectangle, Vec<C>),
    FillSolid(Rectangle, C),
    Clear(C),
}

impl<C> Call<C> {
    pub fn kind(&self) -> &'static str {
        match self {
            Call::DrawIter(_) => "draw_iter",
            Call::FillContiguous(..) => "fill_contiguous",
            Call::FillSolid(..) => "fill_solid",
            Call::Clear(_) => "clear",
        }
    }
}

pub type Map<C> = BTreeMap<(i32, i32), C>;

pub const BIG_BOX: Rectangle = Rectangle::new(Point::new(-1_000_000, -1_000_000), Size::new(2_000_000, 2_000_000));
/// Upper bound on colours drained from an over-long (possibly infinite) colour stream.
pub const DRAIN_LIMIT: usize = 2_000_000;

#[derive(Clone)]
pub struct Rec<C: PixelColor> {
    pub map: Map<C>,
    pub bbox: Rectangle,
    pub calls: Vec<Call<C>>,
    /// index of the call that fails
    pub fail_at: Option<usize>,
    /// how many items the failing call pulls from its iterator before failing
    pub pull_on_fail: usize,
    pub ncalls: usize,
    pub log: bool,
    pub failed: bool,
    pub calls_after_failure: usize,
}

impl<C: PixelColor> Rec<C> {
    pub fn new() -> Self {
        Self::with_box(BIG_BOX)
    }
    pub fn with_box(bbox: Rectangle) -> Self {
        Self {
            map: BTreeMap::new(),
            bbox,
            calls: vec![],
            fail_at: None,
            pull_on_fail: usize::MAX,
            ncalls: 0,
            log: true,
            failed: false,
            calls_after_failure: 0,
        }
    }
    /// Returns true if this call must fail.
    fn tick(&mut self) -> bool {
        if self.failed {
            self.calls_after_failure += 1;
        }
        let n = self.ncalls;
        self.ncalls += 1;
        if self.fail_at == Some(n) {
            self.failed = true;
            true
        } else {
            false
        }
    }

    fn do_draw_iter(&mut self, pixels: &mut dyn Iterator<Item = Pixel<C>>) -> Result<(), Fault> {
        let failing = self.tick();
        let limit = if failing { self.pull_on_fail } else { usize::MAX };
        let mut v = vec![];
        let mut n = 0;
        while n < limit {
            let Some(Pixel(p, c)) = pixels.next() else { break };
            n += 1;
            if self.log {
                v.push((p.x, p.y, c));
            }
            if !failing {
                self.map.insert((p.x, p.y), c);
            }
        }
        if self.log {
            self.calls.push(Call::DrawIter(v));
        }
        if failing {
            Err(Fault(self.ncalls - 1))
        } else {
            Ok(())
        }
    }

    fn do_fill_contiguous(
        &mut self,
        area: &Rectangle,
        colors: &mut dyn Iterator<Item = C>,
    ) -> Result<(), Fault> {
        let failing = self.tick();
        let limit = if failing { self.pull_on_fail } else { DRAIN_LIMIT };
        let mut v = vec![];
        let mut pts = area.points();
        let mut n = 0;
        // a driver may ask the stream how much is left at any time (before, while and after pulling, also
        // after the end): these calls must not panic
        let _ = colors.size_hint();
        while n < limit {
            let Some(c) = colors.next() else {
                let _ = colors.size_hint();
                let _ = colors.next();
                let _ = colors.size_hint();
                break;
            };
            n += 1;
            v.push(c);
            if !failing {
                if let Some(p) = pts.next() {
                    self.map.insert((p.x, p.y), c);
                }
            }
        }
        self.calls.push(Call::FillContiguous(*area, v));
        if failing {
            Err(Fault(self.ncalls - 1))
        } else {
            Ok(())
        }
    }

    fn do_fill_solid(&mut self, area: &Rectangle, color: C) -> Result<(), Fault> {
        let failing = self.tick();
        self.calls.push(Call::FillSolid(*area, color));
        if failing {
            return Err(Fault(self.ncalls - 1));
        }
        for p in area.points() {
            self.map.insert((p.x, p.y), color);
        }
        Ok(())
    }

    fn do_clear(&mut self, color: C) -> Result<(), Fault> {
        let failing = self.tick();
        self.calls.push(Call::Clear(color));
        if failing {
            return Err(Fault(self.ncalls - 1));
        }
        for p in self.bbox.points() {
            self.map.insert((p.x, p.y), color);
        }
        Ok(())
    }
}

impl<C: PixelColor> Default for Rec<C> {
    fn default() -> Self {
        Self::new()
    }
}

/// Target with `draw_iter` only.
#[derive(Clone)]
pub struct IterT<C: PixelColor>(pub Rec<C>);
/// Target with native fills.
#[derive(Clone)]
pub struct NativeT<C: PixelColor>(pub Rec<C>);

impl<C: PixelColor> IterT<C> {
    pub fn new() -> Self {
        IterT(Rec::new())
    }
    pub fn with_box(b: Rectangle) -> Self {
        IterT(Rec::with_box(b))
    }
}
impl<C: PixelColor> NativeT<C> {
    pub fn new() -> Self {
        NativeT(Rec::new())
    }
    pub fn with_box(b: Rectangle) -> Self {
        NativeT(Rec::with_box(b))
    }
}
impl<C: PixelColor> Default for IterT<C> {
    fn default() -> Self {
        Self::new()
    }
}
impl<C: PixelColor> Default for NativeT<C> {
    fn default() -> Self {
        Self::new()
    }
}

impl<C: PixelColor> Dimensions for IterT<C> {
    fn bounding_box(&self) -> Rectangle {
        self.0.bbox
    }
}
impl<C: PixelColor> Dimensions for NativeT<C> {
    fn bounding_box(&self) -> Rectangle {
        self.0.bbox
    }
}

impl<C: PixelColor> DrawTarget for IterT<C> {
    type Color = C;
    type Error = Fault;
    fn draw_iter<I>(&mut self, pixels: I) -> Result<(), Fault>
    where
        I: IntoIterator<Item = Pixel<C>>,
    {
        self.0.do_draw_iter(&mut pixels.into_iter())
    }
}

impl<C: PixelColor> DrawTarget for NativeT<C> {
    type Color = C;
    type Error = Fault;
    fn draw_iter<I>(&mut self, pixels: I) -> Result<(), Fault>
    where
        I: IntoIterator<Item = Pixel<C>>,
    {
        self.0.do_draw_iter(&mut pixels.into_iter())
    }
    fn fill_contiguous<I>(&mut self, area: &Rectangle, colors: I) -> Result<(), Fault>
    where
        I: IntoIterator<Item = C>,
    {
        self.0.do_fill_contiguous(area, &mut colors.into_iter())
    }
    fn fill_solid(&mut self, area: &Rectangle, color: C) -> Result<(), Fault> {
        self.0.do_fill_solid(area, color)
    }
    fn clear(&mut self, color: C) -> Result<(), Fault> {
        self.0.do_clear(color)
    }
}

/// Counting target without any allocation; refuses to accept more than `budget` pixels.
pub struct NullT<C: PixelColor> {
    pub bbox: Rectangle,
    pub pixels: u64,
    pub calls: u64,
    pub budget: u64,
    pub native: bool,
    _c: core::marker::PhantomData<C>,
}

impl<C: PixelColor> NullT<C> {
    pub fn new(bbox: Rectangle, budget: u64, native: bool) -> Self {
        Self {
            bbox,
            pixels: 0,
            calls: 0,
            budget,
            native,
            _c: core::marker::PhantomData,
        }
    }
    fn add(&mut self, n: u64) -> Result<(), Fault> {
        self.pixels += n;
        if self.pixels > self.budget {
            Err(Fault(usize::MAX))
        } else {
            Ok(())
        }
    }
}
impl<C: PixelColor> Dimensions for NullT<C> {
    fn bounding_box(&self) -> Rectangle {
        self.bbox
    }
}
impl<C: PixelColor> DrawTarget for NullT<C> {
    type Color = C;
    type Error = Fault;
    fn draw_iter<I>(&mut self, pixels: I) -> Result<(), Fault>
    where
        I: IntoIterator<Item = Pixel<C>>,
    {
        self.calls += 1;
        for _ in pixels {
            self.add(1)?;
        }
        Ok(())
    }
    fn fill_contiguous<I>(&mut self, area: &Rectangle, colors: I) -> Result<(), Fault>
    where
        I: IntoIterator<Item = C>,
    {
        if !self.native {
            return self.draw_iter(area.points().zip(colors).map(|(p, c)| Pixel(p, c)));
        }
        self.calls += 1;
        let n = area.size.width as u64 * area.size.height as u64;
        let mut k = 0;
        let mut it = colors.into_iter();
        let _ = it.size_hint();
        while it.next().is_some() {
            self.add(1)?;
            k += 1;
            if k > n + 1_000_000 {
                return Err(Fault(usize::MAX - 1));
            }
            if k % 7 == 3 {
                let _ = it.size_hint();
            }
        }
        // asked again after the end, as a chunked (DMA style) driver does
        let _ = it.size_hint();
        let _ = it.next();
        let _ = it.size_hint();
        Ok(())
    }
    fn fill_solid(&mut self, area: &Rectangle, _color: C) -> Result<(), Fault> {
        self.calls += 1;
        self.add(area.size.width as u64 * area.size.height as u64)
    }
    fn clear(&mut self, _color: C) -> Result<(), Fault> {
        self.calls += 1;
        self.add(self.bbox.size.width as u64 * self.bbox.size.height as u64)
    }
}

// ---------------------------------------------------------------------------------------------
// Type erasure
// ---------------------------------------------------------------------------------------------

pub trait Erased<C: PixelColor> {
    fn e_draw_iter(&mut self, it: &mut dyn Iterator<Item = Pixel<C>>) -> Result<(), Fault>;
    fn e_fill_contiguous(
        &mut self,
        area: &Rectangle,
        it: &mut dyn Iterator<Item = C>,
    ) -> Result<(), Fault>;
    fn e_fill_solid(&mut self, area: &Rectangle, c: C) -> Result<(), Fault>;
    fn e_clear(&mut self, c: C) -> Result<(), Fault>;
    fn e_bbox(&self) -> Rectangle;
}

impl<C: PixelColor, T: DrawTarget<Color = C, Error = Fault>> Erased<C> for T {
    fn e_draw_iter(&mut self, it: &mut dyn Iterator<Item = Pixel<C>>) -> Result<(), Fault> {
        self.draw_iter(it)
    }
    fn e_fill_contiguous(
        &mut self,
        area: &Rectangle,
        it: &mut dyn Iterator<Item = C>,
    ) -> Result<(), Fault> {
        self.fill_contiguous(area, it)
    }
    fn e_fill_solid(&mut self, area: &Rectangle, c: C) -> Result<(), Fault> {
        self.fill_solid(area, c)
    }
    fn e_clear(&mut self, c: C) -> Result<(), Fault> {
        self.clear(c)
    }
    fn e_bbox(&self) -> Rectangle {
        self.bounding_box()
    }
}

pub struct Dyn<'a, C: PixelColor>(pub &'a mut dyn Erased<C>);

impl<C: PixelColor> Dimensions for Dyn<'_, C> {
    fn bounding_box(&self) -> Rectangle {
        self.0.e_bbox()
    }
}

impl<C: PixelColor> DrawTarget for Dyn<'_, C> {
    type Color = C;
    type Error = Fault;
    fn draw_iter<I>(&mut self, pixels: I) -> Result<(), Fault>
    where
        I: IntoIterator<Item = Pixel<C>>,
    {
        self.0.e_draw_iter(&mut pixels.into_iter())
    }
    fn fill_contiguous<I>(&mut self, area: &Rectangle, colors: I) -> Result<(), Fault>
    where
        I: IntoIterator<Item = C>,
    {
        self.0.e_fill_contiguous(area, &mut colors.into_iter())
    }
    fn fill_solid(&mut self, area: &Rectangle, color: C) -> Result<(), Fault> {
        self.0.e_fill_solid(area, color)
    }
    fn clear(&mut self, color: C) -> Result<(), Fault> {
        self.0.e_clear(color)
    }
}

/// Compare two pixel maps; describes the first difference.
pub fn diff_maps<C: PixelColor + core::fmt::Debug>(
    a_name: &str,
    a: &Map<C>,
    b_name: &str,
    b: &Map<C>,
) -> Option<String> {
    if a == b {
        return None;
    }
    for (k, v) in a {
        match b.get(k) {
            None => return Some(format!("{:?}: {}={:?}, {} untouched", k, a_name, v, b_name)),
            Some(w) if w != v => {
                return Some(format!("{:?}: {}={:?}, {}={:?}", k, a_name, v, b_name, w))
            }
            _ => {}
        }
    }
    for (k, w) in b {
        if !a.contains_key(k) {
            return Some(format!("{:?}: {} untouched, {}={:?}", k, a_name, b_name, w));
        }
    }
    None
}


/// Native-fill target that only tracks the extent (min / max corner) of everything it is asked to
/// paint, in O(1) per fill: for bounding-box containment of display-scale drawables (C02).
pub struct ExtentT<C: PixelColor> {
    pub bbox: Rectangle,
    pub min: Option<Point>,
    pub max: Option<Point>,
    pub pixels: u64,
    _c: core::marker::PhantomData<C>,
}

impl<C: PixelColor> ExtentT<C> {
    pub fn new() -> Self {
        Self { bbox: BIG_BOX, min: None, max: None, pixels: 0, _c: core::marker::PhantomData }
    }
    fn touch(&mut self, p: Point) {
        self.min = Some(self.min.map_or(p, |m| m.component_min(p)));
        self.max = Some(self.max.map_or(p, |m| m.component_max(p)));
    }
    fn touch_rect(&mut self, r: &Rectangle) {
        if let Some(br) = r.bottom_right() {
            self.touch(r.top_left);
            self.touch(br);
            self.pixels += r.size.width as u64 * r.size.height as u64;
        }
    }
}
impl<C: PixelColor> Default for ExtentT<C> {
    fn default() -> Self {
        Self::new()
    }
}
impl<C: PixelColor> Dimensions for ExtentT<C> {
    fn bounding_box(&self) -> Rectangle {
        self.bbox
    }
}
impl<C: PixelColor> DrawTarget for ExtentT<C> {
    type Color = C;
    type Error = Fault;
    fn draw_iter<I>(&mut self, pixels: I) -> Result<(), Fault>
    where
        I: IntoIterator<Item = Pixel<C>>,
    {
        for Pixel(p, _) in pixels {
            self.touch(p);
            self.pixels += 1;
        }
        Ok(())
    }
    fn fill_contiguous<I>(&mut self, area: &Rectangle, colors: I) -> Result<(), Fault>
    where
        I: IntoIterator<Item = C>,
    {
        for (p, _) in area.points().zip(colors) {
            self.touch(p);
            self.pixels += 1;
        }
        Ok(())
    }
    fn fill_solid(&mut self, area: &Rectangle, _color: C) -> Result<(), Fault> {
        self.touch_rect(area);
        Ok(())
    }
    fn clear(&mut self, _color: C) -> Result<(), Fault> {
        let b = self.bbox;
        self.touch_rect(&b);
        Ok(())
    }
}

// ---------------------------------------------------------------------------------------------
// Row-sampling target (shapes of thousands of pixels: only some rows are recorded)
// ---------------------------------------------------------------------------------------------

/// Records, for a set of sampled rows only, the horizontal runs that are drawn: `fill_solid` costs
/// O(sampled rows inside the area), so a scanline-drawn shape of 20 000 px costs O(20 000) instead of
/// O(4 * 10^8). Later runs overwrite earlier ones (`color_at`). It never clips.
pub struct RowsT<C: PixelColor> {
    pub sample: std::collections::BTreeSet<i32>,
    pub rows: BTreeMap<i32, Vec<(i32, i32, C)>>,
    /// pixels pulled through `draw_iter` / `fill_contiguous` (bounded by the caller's choice of shapes)
    pub pulled: u64,
    pub fills: u64,
}

impl<C: PixelColor> RowsT<C> {
    pub fn new(sample: impl IntoIterator<Item = i32>) -> Self {
        Self { sample: sample.into_iter().collect(), rows: BTreeMap::new(), pulled: 0, fills: 0 }
    }
    /// Colour of the point after all recorded calls (`None` = untouched); `y` must be a sampled row.
    pub fn color_at(&self, p: Point) -> Option<C> {
        self.rows.get(&p.y).and_then(|runs| runs.iter().rev().find(|(a, b, _)| *a <= p.x && p.x <= *b).map(|r| r.2))
    }
    /// All run ends of a sampled row (probe positions).
    pub fn run_ends(&self, y: i32) -> Vec<i32> {
        self.rows.get(&y).map(|r| r.iter().flat_map(|(a, b, _)| [*a, *b]).collect()).unwrap_or_default()
    }
}

impl<C: PixelColor> Dimensions for RowsT<C> {
    fn bounding_box(&self) -> Rectangle {
        Rectangle::new(Point::new(-1_000_000, -1_000_000), Size::new(2_000_000, 2_000_000))
    }
}

impl<C: PixelColor> DrawTarget for RowsT<C> {
    type Color = C;
    type Error = Fault;
    fn draw_iter<I: IntoIterator<Item = Pixel<C>>>(&mut self, pixels: I) -> Result<(), Fault> {
        for Pixel(p, c) in pixels {
            self.pulled += 1;
            if self.sample.contains(&p.y) {
                self.rows.entry(p.y).or_default().push((p.x, p.x, c));
            }
        }
        Ok(())
    }
    fn fill_contiguous<I: IntoIterator<Item = C>>(&mut self, area: &Rectangle, colors: I) -> Result<(), Fault> {
        let w = area.size.width as i32;
        let mut it = colors.into_iter();
        for y in area.rows() {
            if !self.sample.contains(&y) {
                // skip the row's colours
                if w > 0 && it.nth(w as usize - 1).is_none() {
                    return Ok(());
                }
                self.pulled += w as u64;
                continue;
            }
            for x in area.columns() {
                match it.next() {
                    Some(c) => {
                        self.pulled += 1;
                        self.rows.entry(y).or_default().push((x, x, c));
                    }
                    None => return Ok(()),
                }
            }
        }
        Ok(())
    }
    fn fill_solid(&mut self, area: &Rectangle, color: C) -> Result<(), Fault> {
        self.fills += 1;
        if area.is_zero_sized() {
            return Ok(());
        }
        let (x0, x1) = (area.top_left.x, area.top_left.x + area.size.width as i32 - 1);
        let rows = area.rows();
        for &y in self.sample.range(rows) {
            self.rows.entry(y).or_default().push((x0, x1, color));
        }
        Ok(())
    }
    fn clear(&mut self, color: C) -> Result<(), Fault> {
        let b = self.bounding_box();
        self.fill_solid(&b, color)
    }
}


/// Forwards `draw_iter` only, so `fill_contiguous`, `fill_solid` and `clear` are the trait defaults
/// (what a draw_iter-only driver is), on top of any recording target.
pub struct IterOnly<T>(pub T);

impl<T: Dimensions> Dimensions for IterOnly<T> {
    fn bounding_box(&self) -> Rectangle {
        self.0.bounding_box()
    }
}

impl<T: DrawTarget> DrawTarget for IterOnly<T> {
    type Color = T::Color;
    type Error = T::Error;
    fn draw_iter<I: IntoIterator<Item = Pixel<T::Color>>>(&mut self, pixels: I) -> Result<(), T::Error> {
        self.0.draw_iter(pixels)
    }
}
