//! Entry point shared by the libFuzzer targets and by `egverif fuzz-replay`: bytes -> tape ->
//! the same decode/check functions the proptest driver uses.

use crate::engine::*;

/// Convert fuzzer bytes into (sub-check selector, tape).
pub fn bytes_to_tape(data: &[u8]) -> (usize, Vec<u32>) {
    let sel = data.first().copied().unwrap_or(0) as usize;
    let rest = if data.is_empty() { data } else { &data[1..] };
    let mut tape = Vec::with_capacity(rest.len() / 4 + 1);
    for ch in rest.chunks(4) {
        let mut w = [0u8; 4];
        w[..ch.len()].copy_from_slice(ch);
        // big endian: the first byte of a chunk is the most significant, so that single-byte
        // mutations of the first byte move a value through its whole range
        tape.push(u32::from_be_bytes(w));
    }
    (sel, tape)
}

/// The tape sub-checks of a property, in declaration order.
pub fn tape_subs(prop: &Prop) -> Vec<(&'static str, TapeFn)> {
    prop.subs
        .iter()
        .filter_map(|s| match &s.kind {
            Kind::Tape { f, .. } => Some((s.name, *f)),
            _ => None,
        })
        .collect()
}

pub struct FuzzOutcome {
    pub sub: &'static str,
    pub tape: Vec<u32>,
    pub report: CaseReport,
}

/// Run one fuzz input against a property. Returns None if the property has no tape sub-check.
pub fn run_input(prop: &Prop, data: &[u8], want_desc: bool) -> Option<FuzzOutcome> {
    let subs = tape_subs(prop);
    if subs.is_empty() {
        return None;
    }
    let (sel, tape) = bytes_to_tape(data);
    let (name, f) = subs[sel % subs.len()];
    let report = run_case(f, &tape, want_desc, Tier::Thorough);
    Some(FuzzOutcome { sub: name, tape, report })
}

/// Used inside a fuzz target: panics (so that libFuzzer saves the input) on a violation that is
/// not a listed known finding.
pub fn fuzz_one(prop: &Prop, known: &[Known], data: &[u8]) {
    if let Some(o) = run_input(prop, data, false) {
        if let Err(f) = o.report.result {
            let is_known = known.iter().any(|k| k.property == prop.id && k.status == "known" && (k.sig == f.sig || (k.sig.ends_with('*') && f.sig.starts_with(k.sig.trim_end_matches('*')))));
            if !is_known {
                panic!("VIOLATION property={} sub={} sig={} detail={}", prop.id, o.sub, f.sig, f.detail);
            }
        }
    }
}
