//! Counting global allocator with a thread-local "armed" flag (C08: no heap allocation).
//! While armed on the current thread every `alloc`/`realloc` is counted.

use std::alloc::{GlobalAlloc, Layout, System};
use std::cell::Cell;

pub struct Counting;

thread_local! {
    static ARMED: Cell<bool> = const { Cell::new(false) };
    static COUNT: Cell<u64> = const { Cell::new(0) };
}

unsafe impl GlobalAlloc for Counting {
    unsafe fn alloc(&self, layout: Layout) -> *mut u8 {
        let _ = ARMED.try_with(|a| {
            if a.get() {
                let _ = COUNT.try_with(|c| c.set(c.get() + 1));
            }
        });
        System.alloc(layout)
    }
    unsafe fn dealloc(&self, ptr: *mut u8, layout: Layout) {
        System.dealloc(ptr, layout)
    }
    unsafe fn realloc(&self, ptr: *mut u8, layout: Layout, new_size: usize) -> *mut u8 {
        let _ = ARMED.try_with(|a| {
            if a.get() {
                let _ = COUNT.try_with(|c| c.set(c.get() + 1));
            }
        });
        System.realloc(ptr, layout, new_size)
    }
}

/// Run `f` with allocation counting armed; returns the result and the number of allocations
/// made on this thread while it ran. If `f` panics the counter is disarmed by the guard.
pub fn counted<T>(f: impl FnOnce() -> T) -> (T, u64) {
    struct Guard(bool);
    impl Drop for Guard {
        fn drop(&mut self) {
            ARMED.with(|a| a.set(self.0));
        }
    }
    let before = COUNT.with(|c| c.get());
    let prev = ARMED.with(|a| a.replace(true));
    let g = Guard(prev);
    let r = f();
    drop(g);
    let after = COUNT.with(|c| c.get());
    (r, after - before)
}
