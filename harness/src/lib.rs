//! egverif library: engine, reference components and one module per property. Used by the
//! `egverif` binary (proptest / enumeration / replay drivers) and by the libFuzzer targets under
//! /verif/fuzz.

#![allow(clippy::type_complexity)]

pub mod alloc_count;
pub mod engine;
pub mod exact;
pub mod fuzz;
pub mod gen;
pub mod items;
pub mod props;
pub mod targets;

#[cfg(feature = "fixed_point")]
pub const BUILD: &str = "fixed_point";
#[cfg(not(feature = "fixed_point"))]
pub const BUILD: &str = "default";
