//! Run-time descriptions of every built-in drawable (styled primitives, polylines, images and
//! sub-images, text) with uniform draw / bounding_box / translate operations; shared by C01, C02,
//! C04, C07 and C08.

use crate::engine::Dec;
use crate::gen::{self, *};
use crate::targets::Fault;
use crate::with_shape;
use embedded_graphics::{
    draw_target::DrawTarget,
    image::{Image, ImageDrawable, ImageDrawableExt, ImageRaw},
    mono_font::{MonoFont, MonoTextStyle, MonoTextStyleBuilder},
    pixelcolor::raw::{BigEndianLsb0, LittleEndianMsb0},
    primitives::{Primitive, PrimitiveStyle, StrokeStyle},
    text::{Alignment, Baseline, DecorationColor, LineHeight, Text, TextStyle, TextStyleBuilder},
    transform::Transform,
    Drawable,
};
use std::sync::OnceLock;

include!(concat!(env!("OUT_DIR"), "/fonts.rs"));

/// Characters of each built-in font's mapping.
pub fn font_chars(idx: usize) -> &'static [char] {
    static CACHE: OnceLock<Vec<Vec<char>>> = OnceLock::new();
    let all = CACHE.get_or_init(|| FONTS.iter().map(|(_, _, m)| m.chars().collect()).collect());
    &all[idx]
}

// ---------------------------------------------------------------------------------------------
// Images
// ---------------------------------------------------------------------------------------------

#[derive(Clone, Debug)]
pub struct ImageItem {
    pub data: Vec<u8>,
    pub size: Size,
    pub big_endian: bool,
    pub pos: Point,
    /// nested sub-image areas (0, 1 or 2)
    pub subs: Vec<Rectangle>,
    /// position is a centre (`Image::with_center`)
    pub centered: bool,
}

pub trait ImageVisitor<C: PixelColor> {
    type Out;
    fn visit<T: ImageDrawable<Color = C>>(self, img: Image<'_, T>) -> Self::Out;
}

/// Colour types for which raw images can be built.
pub trait ImgCol: Col {
    const BPP: u32;
    fn visit_image<V: ImageVisitor<Self>>(item: &ImageItem, v: V) -> V::Out;
}

macro_rules! impl_imgcol {
    ($($t:ty => $bpp:expr),+) => { $(
        impl ImgCol for $t {
            const BPP: u32 = $bpp;
            fn visit_image<V: ImageVisitor<Self>>(item: &ImageItem, v: V) -> V::Out {
                macro_rules! go {
                    ($o:ty) => {{
                        let raw = ImageRaw::<$t, $o>::new(&item.data, item.size).expect("image data length");
                        let mk = |center: bool| center;
                        let _ = mk;
                        match item.subs.len() {
                            0 => {
                                let img = if item.centered { Image::with_center(&raw, item.pos) } else { Image::new(&raw, item.pos) };
                                v.visit(img)
                            }
                            1 => {
                                let s1 = raw.sub_image(&item.subs[0]);
                                let img = if item.centered { Image::with_center(&s1, item.pos) } else { Image::new(&s1, item.pos) };
                                v.visit(img)
                            }
                            _ => {
                                let s1 = raw.sub_image(&item.subs[0]);
                                let s2 = s1.sub_image(&item.subs[1]);
                                let img = if item.centered { Image::with_center(&s2, item.pos) } else { Image::new(&s2, item.pos) };
                                v.visit(img)
                            }
                        }
                    }};
                }
                if item.big_endian { go!(BigEndianLsb0) } else { go!(LittleEndianMsb0) }
            }
        }
    )+ };
}
impl_imgcol!(BinaryColor => 1, Gray4 => 4, Gray8 => 8, Rgb565 => 16, Rgb888 => 24);

pub fn bytes_per_row(width: u32, bpp: u32) -> usize {
    (width as usize * bpp as usize + 7) / 8
}

pub fn gen_image<C: ImgCol>(d: &mut Dec, r: i32, max: u32) -> ImageItem {
    // one image in ten is a long strip (a side of 250..=300 px) when the caller allows >= 17 px
    let size = if max >= 17 && d.ratio(1, 10) {
        let long = d.u(250, 300);
        let short = d.u(1, 3);
        if d.bool() {
            Size::new(long, short)
        } else {
            Size::new(short, long)
        }
    } else {
        Size::new(d.size(max), d.size(max))
    };
    let n = bytes_per_row(size.width, C::BPP) * size.height as usize;
    let mut data = Vec::with_capacity(n);
    let mode = d.u(0, 3);
    let mut x = d.raw();
    // derived choice: a third of the xorshift images are made of uniform rows / runs instead (bytes 0x00,
    // 0xFF or one other value per row, or per run of 1..=8 bytes) — the content a real bitmap has
    let runs = if mode >= 2 { d.derived(0x1a6e, 6) } else { 0 };
    let bpr = bytes_per_row(size.width, C::BPP).max(1);
    let mut cur = 0u8;
    let mut left = 0u32;
    for i in 0..n {
        if runs == 4 || runs == 5 {
            if (runs == 4 && i % bpr == 0) || (runs == 5 && left == 0) {
                x ^= x << 13;
                x ^= x >> 17;
                x ^= x << 5;
                cur = match x % 4 {
                    0 => 0x00,
                    1 => 0xFF,
                    2 => cur,
                    _ => (x >> 8) as u8,
                };
                left = 1 + (x >> 16) % 8;
            }
            left = left.saturating_sub(1);
            data.push(cur);
            continue;
        }
        data.push(match mode {
            0 => d.u(0, 255) as u8,
            1 => (i as u32).wrapping_mul(37).wrapping_add((i as u32 >> 8).wrapping_mul(7)).wrapping_add(x) as u8,
            _ => {
                x ^= x << 13;
                x ^= x >> 17;
                x ^= x << 5;
                x as u8
            }
        });
    }
    let nsub = match d.u(0, 3) {
        0 | 1 => 0,
        2 => 1,
        _ => 2,
    };
    let mut subs = vec![];
    let mut cur = size;
    for _ in 0..nsub {
        let a = match d.u(0, 3) {
            // inside
            0 | 1 => {
                let w = d.u(0, cur.width);
                let h = d.u(0, cur.height);
                let x = d.u(0, cur.width - w);
                let y = d.u(0, cur.height - h);
                Rectangle::new(Point::new(x as i32, y as i32), Size::new(w, h))
            }
            // anywhere (overlapping / outside / zero sized)
            _ => Rectangle::new(
                Point::new(d.i(-3, cur.width as i32 + 2), d.i(-3, cur.height as i32 + 2)),
                Size::new(d.u(0, cur.width + 3), d.u(0, cur.height + 3)),
            ),
        };
        // size of the resulting sub image = intersection with the parent box
        cur = Rectangle::new(Point::zero(), cur).intersection(&a).size;
        subs.push(a);
    }
    ImageItem {
        data,
        size,
        big_endian: d.bool(),
        pos: gen::point(d, r),
        subs,
        centered: d.ratio(1, 5),
    }
}

// ---------------------------------------------------------------------------------------------
// Text
// ---------------------------------------------------------------------------------------------

#[derive(Clone, Debug)]
pub struct TextItem<C: Col> {
    pub font: usize,
    pub text: String,
    pub text_color: Option<C>,
    pub background: Option<C>,
    pub underline: DecorationColor<C>,
    pub strikethrough: DecorationColor<C>,
    pub pos: Point,
    pub alignment: Alignment,
    pub baseline: Baseline,
    pub line_height: LineHeight,
    /// Which of the equivalent API routes builds the styles and the `Text` (0 = the plain builders):
    /// bits 0..2 text style, bits 3..4 `Text` constructor, bits 5..6 character style.
    pub route: u32,
    /// `character_spacing` of the copy of the built-in font that is used (0 = the built-in font itself).
    pub spacing: u32,
}

/// Copies of all built-in fonts with `character_spacing` 1..=3 (built-in fonts have none; the spacing
/// fill is a code path of its own in the text renderer).
fn spaced_font(idx: usize, spacing: u32) -> &'static MonoFont<'static> {
    static TABLE: OnceLock<Vec<MonoFont<'static>>> = OnceLock::new();
    let t = TABLE.get_or_init(|| {
        let mut v = Vec::with_capacity(FONTS.len() * 3);
        for (_, f, _) in FONTS.iter() {
            for s in 1..=3u32 {
                v.push(MonoFont { character_spacing: s, ..**f });
            }
        }
        v
    });
    &t[idx * 3 + (spacing as usize - 1)]
}

impl<C: Col> TextItem<C> {
    pub fn font(&self) -> &'static MonoFont<'static> {
        if self.spacing == 0 {
            FONTS[self.font].1
        } else {
            spaced_font(self.font, self.spacing.min(3))
        }
    }
    fn char_style_plain(&self) -> MonoTextStyle<'static, C> {
        let mut b = MonoTextStyleBuilder::new().font(self.font());
        if let Some(c) = self.text_color {
            b = b.text_color(c);
        }
        if let Some(c) = self.background {
            b = b.background_color(c);
        }
        b = match self.underline {
            DecorationColor::None => b,
            DecorationColor::TextColor => b.underline(),
            DecorationColor::Custom(c) => b.underline_with_color(c),
        };
        b = match self.strikethrough {
            DecorationColor::None => b,
            DecorationColor::TextColor => b.strikethrough(),
            DecorationColor::Custom(c) => b.strikethrough_with_color(c),
        };
        b.build()
    }
    pub fn char_style(&self) -> MonoTextStyle<'static, C> {
        use embedded_graphics::text::renderer::CharacterStyle;
        match (self.route >> 5) & 3 {
            0 => self.char_style_plain(),
            // round trip through the builder
            1 => MonoTextStyleBuilder::from(&self.char_style_plain()).build(),
            // start from a fully decorated style and reset / overwrite every attribute
            2 => {
                let full = MonoTextStyleBuilder::new()
                    .font(self.font())
                    .text_color(C::nth(9))
                    .background_color(C::nth(10))
                    .underline_with_color(C::nth(11))
                    .strikethrough()
                    .build();
                let mut b = MonoTextStyleBuilder::from(&full);
                b = match self.text_color {
                    Some(c) => b.text_color(c),
                    None => b.reset_text_color(),
                };
                b = match self.background {
                    Some(c) => b.background_color(c),
                    None => b.reset_background_color(),
                };
                b = match self.underline {
                    DecorationColor::None => b.reset_underline(),
                    DecorationColor::TextColor => b.underline(),
                    DecorationColor::Custom(c) => b.underline_with_color(c),
                };
                b = match self.strikethrough {
                    DecorationColor::None => b.reset_strikethrough(),
                    DecorationColor::TextColor => b.strikethrough(),
                    DecorationColor::Custom(c) => b.strikethrough_with_color(c),
                };
                b.build()
            }
            // MonoTextStyle::new and the CharacterStyle setters
            _ => {
                let mut st = MonoTextStyle::new(self.font(), C::nth(9));
                st.set_text_color(self.text_color);
                st.set_background_color(self.background);
                st.set_underline_color(self.underline);
                st.set_strikethrough_color(self.strikethrough);
                st
            }
        }
    }
    pub fn text_style(&self) -> TextStyle {
        let plain = TextStyleBuilder::new().alignment(self.alignment).baseline(self.baseline).line_height(self.line_height).build();
        match self.route & 7 {
            0 | 1 => plain,
            2 => TextStyleBuilder::new().line_height(self.line_height).baseline(self.baseline).alignment(self.alignment).build(),
            3 => TextStyleBuilder::from(&plain).build(),
            4 => {
                let base = TextStyleBuilder::new().line_height(self.line_height).build();
                TextStyleBuilder::from(&base).alignment(self.alignment).baseline(self.baseline).build()
            }
            5 => {
                let mut st = TextStyle::with_alignment(self.alignment);
                st.baseline = self.baseline;
                st.line_height = self.line_height;
                st
            }
            6 => {
                let mut st = TextStyle::with_baseline(self.baseline);
                st.alignment = self.alignment;
                st.line_height = self.line_height;
                st
            }
            _ => {
                let mut st = TextStyle::default();
                st.alignment = self.alignment;
                st.baseline = self.baseline;
                st.line_height = self.line_height;
                st
            }
        }
    }
    pub fn build(&self) -> Text<'_, MonoTextStyle<'static, C>> {
        match (self.route >> 3) & 3 {
            0 => Text::with_text_style(&self.text, self.pos, self.char_style(), self.text_style()),
            1 => {
                let mut t = Text::new(&self.text, self.pos, self.char_style());
                t.text_style = self.text_style();
                t
            }
            2 => {
                let mut t = Text::with_alignment(&self.text, self.pos, self.char_style(), self.alignment);
                t.text_style.baseline = self.baseline;
                t.text_style.line_height = self.line_height;
                t
            }
            _ => {
                let mut t = Text::with_baseline(&self.text, self.pos, self.char_style(), self.baseline);
                t.text_style.alignment = self.alignment;
                t.text_style.line_height = self.line_height;
                t
            }
        }
    }
    pub fn desc(&self) -> String {
        format!(
            "Text{{font:{}, text:{:?}, pos:{:?}, text_color:{:?}, background:{:?}, underline:{:?}, strikethrough:{:?}, alignment:{:?}, baseline:{:?}, line_height:{:?}}}{}",
            FONTS[self.font].0, self.text, self.pos, self.text_color, self.background, self.underline, self.strikethrough, self.alignment, self.baseline, self.line_height,
            if self.route == 0 && self.spacing == 0 { String::new() } else { format!(" api_route:{} character_spacing:{}", self.route, self.spacing) }
        )
    }
}

pub const UNMAPPED: &[char] = &['\u{1}', '\t', '\u{7f}', '\u{80}', '\u{2603}', '\u{1F600}', '\u{FFFD}', '\u{0}'];
/// The same characters interleaved with one character at every boundary of the UTF-8 encoding lengths
/// and lead bytes (U+7FF / U+800, U+FFFF / U+10000, U+3FFFF, U+FFFFF / U+100000, char::MAX) and around the
/// surrogate gap; none of them is in a built-in mapping. (Entry 2k is UNMAPPED[k], so a tape word that
/// selected UNMAPPED[k] still does in half of its range.)
pub const UNMAPPED_WIDE: &[char] = &[
    '\u{1}', '\u{7FF}', '\t', '\u{800}', '\u{7f}', '\u{FFFF}', '\u{80}', '\u{10000}', '\u{2603}', '\u{3FFFF}', '\u{1F600}', '\u{100000}', '\u{FFFD}', '\u{10FFFF}',
    '\u{0}', '\u{D7FF}',
];

/// A string over the font's mapping with unmapped characters and line breaks.
pub fn gen_string(d: &mut Dec, font: usize, max_len: u32, newlines: bool, crlf: bool) -> String {
    let chars = font_chars(font);
    // one string in twenty is long (60..=120 characters) when the caller allows >= 10
    let n = if max_len >= 10 && d.ratio(1, 20) { d.u(60, 120) } else { d.u(0, max_len) };
    let mut s = String::new();
    for _ in 0..n {
        match d.u(0, 15) {
            0 | 1 if newlines => s.push('\n'),
            2 if newlines && crlf => s.push_str("\r\n"),
            3 => s.push(d.pick(UNMAPPED_WIDE)),
            4 => s.push(' '),
            5..=9 => {
                // printable ASCII (present in every built-in mapping except the katakana half of JIS)
                s.push(char::from_u32(d.u(0x21, 0x7e)).unwrap())
            }
            _ => s.push(chars[d.idx(chars.len())]),
        }
    }
    // auxiliary words 5 and 6: one string in 64 continues with more than 255 characters in one line or,
    // if line breaks are allowed, with more than 255 further lines of 0..=2 characters
    if max_len >= 10 {
        let mode = d.aux_u(6, 0, 127);
        if mode >= 126 {
            let mut x = d.aux_u(5, 0, u32::MAX) | 1;
            let mut next = move || {
                x ^= x << 13;
                x ^= x >> 17;
                x ^= x << 5;
                x
            };
            let n = 256 + next() % 45;
            for _ in 0..n {
                if mode == 126 && newlines {
                    s.push('\n');
                    for _ in 0..next() % 3 {
                        s.push(chars[next() as usize % chars.len()]);
                    }
                } else {
                    s.push(chars[next() as usize % chars.len()]);
                }
            }
        }
    }
    s
}

pub fn gen_decoration<C: Col>(d: &mut Dec, custom: u32) -> DecorationColor<C> {
    // same boundaries as None / None / TextColor / Custom in quarters; the last quarter is split into
    // an own colour, the text colour given explicitly and the background colour
    match d.u(0, 15) {
        0..=7 => DecorationColor::None,
        8..=11 => DecorationColor::TextColor,
        12 | 13 => DecorationColor::Custom(C::nth(custom)),
        14 => DecorationColor::Custom(C::nth(3)),
        _ => DecorationColor::Custom(C::nth(4)),
    }
}

/// Text colour: none in a quarter of the cases, else nth(3), sometimes raw zero / all ones.
pub fn gen_text_color<C: Col>(d: &mut Dec) -> Option<C> {
    match d.u(0, 31) {
        0..=7 => None,
        30 => Some(C::extreme(false)),
        31 => Some(C::extreme(true)),
        _ => Some(C::nth(3)),
    }
}

/// Background colour: present in a third of the cases: nth(4), raw zero / all ones, or the text colour.
pub fn gen_background<C: Col>(d: &mut Dec, text: Option<C>) -> Option<C> {
    match d.u(0, 23) {
        0..=15 => None,
        21 => Some(C::extreme(false)),
        22 => Some(C::extreme(true)),
        23 => Some(text.unwrap_or(C::nth(3))),
        _ => Some(C::nth(4)),
    }
}

pub fn gen_line_height(d: &mut Dec) -> LineHeight {
    match d.u(0, 3) {
        0 | 1 => LineHeight::Percent(100),
        2 => LineHeight::Percent(d.u(0, 400)),
        _ => LineHeight::Pixels(d.u(0, 40)),
    }
}

pub fn gen_text<C: Col>(d: &mut Dec, r: i32, max_len: u32) -> TextItem<C> {
    let font = d.idx(FONTS.len());
    let text = gen_string(d, font, max_len, true, true);
    let text_color = gen_text_color::<C>(d);
    TextItem {
        font,
        text,
        text_color,
        background: gen_background(d, text_color),
        underline: gen_decoration(d, 5),
        strikethrough: gen_decoration(d, 6),
        pos: gen::point(d, r),
        alignment: d.pick(&[Alignment::Left, Alignment::Center, Alignment::Right]),
        baseline: d.pick(&[Baseline::Top, Baseline::Bottom, Baseline::Middle, Baseline::Alphabetic]),
        line_height: gen_line_height(d),
        // auxiliary word 7: half of the cases use the plain builders (low 8 bits); a quarter of the cases
        // use a copy of the font with character_spacing 1 or 2 (bits 8 and 9)
        route: match d.aux_u(7, 0, 1023) & 0xff {
            0..=127 => 0,
            r => r,
        },
        spacing: [0, 0, 0, 0, 0, 0, 1, 2][(d.aux_u(7, 0, 1023) >> 7) as usize],
    }
}

// ---------------------------------------------------------------------------------------------
// Items
// ---------------------------------------------------------------------------------------------

#[derive(Clone, Debug)]
pub struct PolyItem<C: Col> {
    pub pts: Vec<Point>,
    pub offset: Point,
    pub style: PrimitiveStyle<C>,
}

#[derive(Clone, Debug)]
pub enum Item<C: ImgCol> {
    Styled(Shape, PrimitiveStyle<C>),
    Polyline(PolyItem<C>),
    Image(ImageItem),
    Text(TextItem<C>),
}

struct DrawV<'t, D>(&'t mut D);
impl<C: PixelColor, D: DrawTarget<Color = C, Error = Fault>> ImageVisitor<C> for DrawV<'_, D> {
    type Out = Result<(), Fault>;
    fn visit<T: ImageDrawable<Color = C>>(self, img: Image<'_, T>) -> Self::Out {
        img.draw(self.0)
    }
}
struct TransDrawV<'t, D>(&'t mut D, Point, bool);
impl<C: PixelColor, D: DrawTarget<Color = C, Error = Fault>> ImageVisitor<C> for TransDrawV<'_, D> {
    type Out = Result<(), Fault>;
    fn visit<T: ImageDrawable<Color = C>>(self, img: Image<'_, T>) -> Self::Out {
        if self.2 {
            let mut img = img;
            img.translate_mut(self.1);
            img.draw(self.0)
        } else {
            img.translate(self.1).draw(self.0)
        }
    }
}
struct BoxV(Option<Point>);
impl<C: PixelColor> ImageVisitor<C> for BoxV {
    type Out = Rectangle;
    fn visit<T: ImageDrawable<Color = C>>(self, img: Image<'_, T>) -> Self::Out {
        match self.0 {
            None => img.bounding_box(),
            Some(by) => img.translate(by).bounding_box(),
        }
    }
}

impl<C: ImgCol> Item<C> {
    pub fn kind(&self) -> &'static str {
        match self {
            Item::Styled(s, _) => s.kind(),
            Item::Polyline(_) => "polyline",
            Item::Image(i) => {
                if i.subs.is_empty() {
                    "image"
                } else {
                    "sub_image"
                }
            }
            Item::Text(_) => "text",
        }
    }

    pub fn desc(&self) -> String {
        match self {
            Item::Styled(s, st) => format!("{:?} {} stroke_style:{:?} [{}]", s, gen::style_desc(st), st.stroke_style, C::NAME),
            Item::Polyline(p) => format!("Polyline{{pts:{:?}, translate:{:?}}} {} [{}]", p.pts, p.offset, gen::style_desc(&p.style), C::NAME),
            Item::Image(i) => format!(
                "Image<{}>{{size:{:?}, big_endian:{}, pos:{:?}, centered:{}, sub_areas:{:?}, data:{:?}}}",
                C::NAME, i.size, i.big_endian, i.pos, i.centered, i.subs, &i.data[..i.data.len().min(24)]
            ),
            Item::Text(t) => format!("{} [{}]", t.desc(), C::NAME),
        }
    }

    /// `draw()`; for text the returned next position.
    pub fn draw<D: DrawTarget<Color = C, Error = Fault>>(&self, t: &mut D) -> Result<Option<Point>, Fault> {
        match self {
            // (three equivalent routes, chosen by the style's width: `into_styled().draw()`, `Styled::new().draw()`,
            // `StyledDrawable::draw_styled`)
            Item::Styled(s, st) => {
                use embedded_graphics::primitives::{Styled, StyledDrawable};
                match st.stroke_width % 3 {
                    0 => with_shape!(s, |p| p.into_styled(*st).draw(t)).map(|_| None),
                    1 => with_shape!(s, |p| Styled::new(*p, *st).draw(t)).map(|_| None),
                    _ => with_shape!(s, |p| p.draw_styled(st, t)).map(|_| None),
                }
            }
            Item::Polyline(p) => Polyline::new(&p.pts).translate(p.offset).into_styled(p.style).draw(t).map(|_| None),
            Item::Image(i) => C::visit_image(i, DrawV(t)).map(|_| None),
            Item::Text(x) => x.build().draw(t).map(Some),
        }
    }

    /// The same item placed `by` further away (a new item, not the library's `Transform` on a
    /// finished drawable: positions / offsets are changed before the drawable is built).
    pub fn placed(&self, by: Point) -> Item<C> {
        if by == Point::zero() {
            return self.clone();
        }
        match self {
            Item::Styled(s, st) => Item::Styled(s.translate(by), *st),
            Item::Polyline(p) => Item::Polyline(PolyItem { pts: p.pts.clone(), offset: p.offset + by, style: p.style }),
            Item::Image(i) => {
                let mut i = i.clone();
                i.pos += by;
                Item::Image(i)
            }
            Item::Text(x) => {
                let mut x = x.clone();
                x.pos += by;
                Item::Text(x)
            }
        }
    }

    /// `x.translate(by)` (or `translate_mut`) and then `draw()`.
    pub fn draw_translated<D: DrawTarget<Color = C, Error = Fault>>(
        &self,
        by: Point,
        mutating: bool,
        t: &mut D,
    ) -> Result<Option<Point>, Fault> {
        match self {
            Item::Styled(s, st) => {
                let moved = if mutating { s.translate_mut(by) } else { s.translate(by) };
                with_shape!(&moved, |p| p.into_styled(*st).draw(t)).map(|_| None)
            }
            Item::Polyline(p) => {
                let base = Polyline::new(&p.pts).translate(p.offset);
                let moved = if mutating {
                    let mut b = base;
                    b.translate_mut(by);
                    b
                } else {
                    base.translate(by)
                };
                moved.into_styled(p.style).draw(t).map(|_| None)
            }
            Item::Image(i) => C::visit_image(i, TransDrawV(t, by, mutating)).map(|_| None),
            Item::Text(x) => {
                let text = x.build();
                if mutating {
                    let mut text = text;
                    text.translate_mut(by);
                    text.draw(t).map(Some)
                } else {
                    text.translate(by).draw(t).map(Some)
                }
            }
        }
    }

    /// `Styled::translate` (translating the styled object rather than the primitive).
    pub fn draw_styled_translated<D: DrawTarget<Color = C, Error = Fault>>(&self, by: Point, t: &mut D) -> Option<Result<(), Fault>> {
        match self {
            Item::Styled(s, st) => Some(with_shape!(s, |p| p.into_styled(*st).translate(by).draw(t))),
            Item::Polyline(p) => Some(Polyline::new(&p.pts).translate(p.offset).into_styled(p.style).translate(by).draw(t)),
            _ => None,
        }
    }

    pub fn bounding_box(&self) -> Rectangle {
        match self {
            Item::Styled(s, st) => {
                use embedded_graphics::primitives::StyledDimensions;
                if st.stroke_width % 2 == 0 {
                    with_shape!(s, |p| p.into_styled(*st).bounding_box())
                } else {
                    with_shape!(s, |p| p.styled_bounding_box(st))
                }
            }
            Item::Polyline(p) => Polyline::new(&p.pts).translate(p.offset).into_styled(p.style).bounding_box(),
            Item::Image(i) => C::visit_image(i, BoxV(None)),
            Item::Text(x) => x.build().bounding_box(),
        }
    }

    pub fn bounding_box_translated(&self, by: Point) -> Rectangle {
        match self {
            Item::Styled(s, st) => with_shape!(&s.translate(by), |p| p.into_styled(*st).bounding_box()),
            Item::Polyline(p) => Polyline::new(&p.pts).translate(p.offset).translate(by).into_styled(p.style).bounding_box(),
            Item::Image(i) => C::visit_image(i, BoxV(Some(by))),
            Item::Text(x) => x.build().translate(by).bounding_box(),
        }
    }

    /// Feeds `pixels()` to `draw_iter` (styled primitives and polylines only).
    pub fn draw_pixels<D: DrawTarget<Color = C, Error = Fault>>(&self, t: &mut D) -> Option<Result<(), Fault>> {
        match self {
            // (two equivalent routes: the target's draw_iter, or `PixelIteratorExt::draw` on the iterator)
            Item::Styled(s, st) if st.stroke_width % 2 == 0 => {
                use embedded_graphics::iterator::PixelIteratorExt;
                Some(with_shape!(s, |p| p.into_styled(*st).pixels().draw(t)))
            }
            Item::Styled(s, st) => Some(with_shape!(s, |p| t.draw_iter(p.into_styled(*st).pixels()))),
            Item::Polyline(p) => Some(t.draw_iter(Polyline::new(&p.pts).translate(p.offset).into_styled(p.style).pixels())),
            _ => None,
        }
    }

    /// Is the style completely transparent (nothing may be drawn)?
    pub fn is_transparent(&self) -> bool {
        match self {
            Item::Styled(_, st) => st.is_transparent(),
            Item::Polyline(p) => p.style.is_transparent(),
            Item::Image(_) => false,
            Item::Text(x) => x.char_style().is_transparent(),
        }
    }
}

#[derive(Clone, Copy)]
pub struct ItemDom {
    pub r: i32,
    pub max: u32,
    pub max_width: u32,
    pub dotted: bool,
    pub text_len: u32,
}

pub fn gen_styled<C: ImgCol>(d: &mut Dec, kind: u32, dom: ItemDom) -> Item<C> {
    let s = gen::shape_of_kind(d, kind, ShapeDom { r: dom.r, max: dom.max });
    let mut st = gen::style::<C>(d, dom.max_width);
    if dom.dotted && d.ratio(1, 6) {
        st.stroke_style = StrokeStyle::Dotted;
    }
    Item::Styled(s, st)
}

pub fn gen_polyline<C: ImgCol>(d: &mut Dec, dom: ItemDom) -> Item<C> {
    let pts = gen::polyline_points(d, 6, dom.r);
    let offset = if d.bool() { Point::zero() } else { gen::point(d, dom.r) };
    let st = gen::style::<C>(d, dom.max_width);
    Item::Polyline(PolyItem { pts, offset, style: st })
}

/// kind: 0..=7 styled primitive, 8 polyline, 9 image / sub-image, 10 text
pub fn gen_item<C: ImgCol>(d: &mut Dec, kind: u32, dom: ItemDom) -> Item<C> {
    match kind {
        0..=7 => gen_styled(d, kind, dom),
        8 => gen_polyline(d, dom),
        9 => Item::Image(gen_image::<C>(d, dom.r, dom.max.min(17))),
        _ => Item::Text(gen_text::<C>(d, dom.r, dom.text_len)),
    }
}

pub const ITEM_KINDS: u32 = 11;
pub const KIND_NAMES: [&str; 11] = [
    "rectangle", "circle", "ellipse", "rounded_rectangle", "triangle", "line", "arc", "sector", "polyline", "image", "text",
];
