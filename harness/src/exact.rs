//! Exact / reference geometry that shares no code with the library.

use embedded_graphics::geometry::Point;

/// Twice the signed area of (a, b, c); > 0 if c is to the left of a->b in a y-up system.
pub fn orient(a: Point, b: Point, c: Point) -> i64 {
    (b.x as i64 - a.x as i64) * (c.y as i64 - a.y as i64)
        - (b.y as i64 - a.y as i64) * (c.x as i64 - a.x as i64)
}

/// Is `p` inside or on the boundary of the triangle (exact)?
pub fn in_triangle(a: Point, b: Point, c: Point, p: Point) -> bool {
    let d1 = orient(a, b, p);
    let d2 = orient(b, c, p);
    let d3 = orient(c, a, p);
    let neg = d1 < 0 || d2 < 0 || d3 < 0;
    let pos = d1 > 0 || d2 > 0 || d3 > 0;
    !(neg && pos)
}

/// Strictly inside.
pub fn strictly_in_triangle(a: Point, b: Point, c: Point, p: Point) -> bool {
    let d1 = orient(a, b, p);
    let d2 = orient(b, c, p);
    let d3 = orient(c, a, p);
    (d1 > 0 && d2 > 0 && d3 > 0) || (d1 < 0 && d2 < 0 && d3 < 0)
}

/// Squared distance from p to the segment a-b, as f64.
pub fn dist2_point_segment(a: Point, b: Point, p: Point) -> f64 {
    let (ax, ay, bx, by, px, py) = (
        a.x as f64, a.y as f64, b.x as f64, b.y as f64, p.x as f64, p.y as f64,
    );
    let (dx, dy) = (bx - ax, by - ay);
    let l2 = dx * dx + dy * dy;
    if l2 == 0.0 {
        return (px - ax).powi(2) + (py - ay).powi(2);
    }
    let t = (((px - ax) * dx + (py - ay) * dy) / l2).clamp(0.0, 1.0);
    let (qx, qy) = (ax + t * dx, ay + t * dy);
    (px - qx).powi(2) + (py - qy).powi(2)
}

/// Distance from p to the infinite line through a, b (a != b).
pub fn dist_point_line(a: Point, b: Point, p: Point) -> f64 {
    let num = orient(a, b, p).abs() as f64;
    let (dx, dy) = ((b.x - a.x) as f64, (b.y - a.y) as f64);
    num / (dx * dx + dy * dy).sqrt()
}

/// Is the *centre* of pixel p inside the ellipse inscribed in the box [x0, x0+w) x [y0, y0+h),
/// scaled about its centre so that the semi-axes change by `grow` pixels (may be negative)?
/// The ellipse's ideal semi-axes are w/2 and h/2 and its centre is the centre of the box in the
/// continuous plane where pixel (x, y) covers [x, x+1) x [y, y+1) -- in pixel-centre coordinates
/// the centre is (x0 + (w-1)/2, y0 + (h-1)/2).
pub fn ellipse_band(x0: i32, y0: i32, w: u32, h: u32, p: Point, grow: f64) -> bool {
    let a = w as f64 / 2.0 + grow;
    let b = h as f64 / 2.0 + grow;
    if a <= 0.0 || b <= 0.0 {
        return false;
    }
    let cx = x0 as f64 + (w as f64 - 1.0) / 2.0;
    let cy = y0 as f64 + (h as f64 - 1.0) / 2.0;
    let dx = (p.x as f64 - cx) / a;
    let dy = (p.y as f64 - cy) / b;
    dx * dx + dy * dy <= 1.0
}

/// Independent Bresenham-free reference for a thin line: the set of points of the ideal line
/// sampled along the major axis, as (point, minor-axis error numerator, denominator).
/// Returns for each major step the exact minor coordinate as a rational `num/den` (den > 0).
pub fn ideal_minor(start: Point, end: Point, major_index: i64) -> (i64, i64) {
    let dx = end.x as i64 - start.x as i64;
    let dy = end.y as i64 - start.y as i64;
    if dx.abs() >= dy.abs() {
        // x major: y = start.y + dy * i / |dx|
        let den = dx.abs().max(1);
        (start.y as i64 * den + dy * major_index, den)
    } else {
        let den = dy.abs();
        (start.x as i64 * den + dx * major_index, den)
    }
}

/// Angle of the vector (dx, dy) in degrees in e-g's convention, measured with atan2(-dy, dx)?
/// The library measures angles in screen coordinates: 0 deg = +x, 90 deg = -y (up on screen).
/// Determined empirically in the design probes and re-checked by C18's own sanity clause.
pub fn screen_angle_deg(dx: f64, dy: f64) -> f64 {
    let a = (-dy).atan2(dx).to_degrees();
    if a < 0.0 {
        a + 360.0
    } else {
        a
    }
}
