//! Exact / reference geometry that shares no code with the library.

use embedded_graphics::geometry::Point;

/// Twice the signed area of (a, b, c); > 0 if c is to the left of a->b in a y-up system.
pub fn orient(a: Point, b: Point, c: Point) -> i64 {
    (b.x as i64 - a.x as i64) * (c.y as i64 - a.y as i64)
        - (b.y as i64 - a.y as i64) * (c.x as i64 - a.x as i64)
}

/// Is `p` inside or on the boundary of the triangle (exact)?
pub fn in_triangle(a: Point, b: Point, c: Point, p: Point) -> bool {
    let d1 = orient(a, b, p);
    let d2 = orient(b, c, p);
    let d3 = orient(c, a, p);
    let neg = d1 < 0 || d2 < 0 || d3 < 0;
    let pos = d1 > 0 || d2 > 0 || d3 > 0;
    !(neg && pos)
}

/// Strictly inside.
pub fn strictly_in_triangle(a: Point, b: Point, c: Point, p: Point) -> bool {
    let d1 = orient(a, b, p);
    let d2 = orient(b, c, p);
    let d3 = orient(c, a, p);
    (d1 > 0 && d2 > 0 && d3 > 0) || (d1 < 0 && d2 < 0 && d3 < 0)
}

/// Squared distance from p to the segment a-b, as f64.
pub fn dist2_point_segment(a: Point, b: Point, p: Point) -> f64 {
    let (ax, ay, bx, by, px, py) = (
        a.x as f64, a.y as f64, b.x as f64, b.y as f64, p.x as f64, p.y as f64,
    );
    let (dx, dy) = (bx - ax, by - ay);
    let l2 = dx * dx + dy * dy;
    if l2 == 0.0 {
        return (px - ax).powi(2) + (py - ay).powi(2);
    }
    let t = (((px - ax) * dx + (py - ay) * dy) / l2).clamp(0.0, 1.0);
    let (qx, qy) = (ax + t * dx, ay + t * dy);
    (px - qx).powi(2) + (py - qy).powi(2)
}

/// Distance from p to the infinite line through a, b (a != b).
pub fn dist_point_line(a: Point, b: Point, p: Point) -> f64 {
    let num = orient(a, b, p).abs() as f64;
    let (dx, dy) = ((b.x - a.x) as f64, (b.y - a.y) as f64);
    num / (dx * dx + dy * dy).sqrt()
}

/// Is the *centre* of pixel p inside the ellipse inscribed in the box [x0, x0+w) x [y0, y0+h),
/// scaled about its centre so that the semi-axes change by `grow` pixels (may be negative)?
/// The ellipse's ideal semi-axes are w/2 and h/2 and its centre is the centre of the box in the
/// continuous plane where pixel (x, y) covers [x, x+1) x [y, y+1) -- in pixel-centre coordinates
/// the centre is (x0 + (w-1)/2, y0 + (h-1)/2).
pub fn ellipse_band(x0: i32, y0: i32, w: u32, h: u32, p: Point, grow: f64) -> bool {
    let a = w as f64 / 2.0 + grow;
    let b = h as f64 / 2.0 + grow;
    if a <= 0.0 || b <= 0.0 {
        return false;
    }
    let cx = x0 as f64 + (w as f64 - 1.0) / 2.0;
    let cy = y0 as f64 + (h as f64 - 1.0) / 2.0;
    let dx = (p.x as f64 - cx) / a;
    let dy = (p.y as f64 - cy) / b;
    dx * dx + dy * dy <= 1.0
}

/// Independent Bresenham-free reference for a thin line: the set of points of the ideal line
/// sampled along the major axis, as (point, minor-axis error numerator, denominator).
/// Returns for each major step the exact minor coordinate as a rational `num/den` (den > 0).
pub fn ideal_minor(start: Point, end: Point, major_index: i64) -> (i64, i64) {
    let dx = end.x as i64 - start.x as i64;
    let dy = end.y as i64 - start.y as i64;
    if dx.abs() >= dy.abs() {
        // x major: y = start.y + dy * i / |dx|
        let den = dx.abs().max(1);
        (start.y as i64 * den + dy * major_index, den)
    } else {
        let den = dy.abs();
        (start.x as i64 * den + dx * major_index, den)
    }
}

/// Distance from the point (px, py) to the ellipse (x/a)^2 + (y/b)^2 = 1 centred at the origin
/// (a, b > 0), by Eberly's robust bisection ("Distance from a point to an ellipse").
pub fn dist_to_ellipse(a: f64, b: f64, px: f64, py: f64) -> f64 {
    let (px, py) = (px.abs(), py.abs());
    let (e0, e1, y0, y1) = if a >= b { (a, b, px, py) } else { (b, a, py, px) };
    if y1 > 0.0 {
        if y0 > 0.0 {
            let z0 = y0 / e0;
            let z1 = y1 / e1;
            let g = z0 * z0 + z1 * z1 - 1.0;
            if g != 0.0 {
                let r0 = (e0 / e1) * (e0 / e1);
                let sbar = ellipse_root(r0, z0, z1, g);
                let x0 = r0 * y0 / (sbar + r0);
                let x1 = y1 / (sbar + 1.0);
                ((x0 - y0).powi(2) + (x1 - y1).powi(2)).sqrt()
            } else {
                0.0
            }
        } else {
            (y1 - e1).abs()
        }
    } else {
        let numer0 = e0 * y0;
        let denom0 = e0 * e0 - e1 * e1;
        if numer0 < denom0 {
            let xde0 = numer0 / denom0;
            let x0 = e0 * xde0;
            let x1 = e1 * (1.0 - xde0 * xde0).max(0.0).sqrt();
            ((x0 - y0).powi(2) + x1 * x1).sqrt()
        } else {
            (y0 - e0).abs()
        }
    }
}

fn ellipse_root(r0: f64, z0: f64, z1: f64, g: f64) -> f64 {
    let n0 = r0 * z0;
    let mut s0 = z1 - 1.0;
    let mut s1 = if g < 0.0 { 0.0 } else { (n0 * n0 + z1 * z1).sqrt() - 1.0 };
    let mut s = 0.0;
    for _ in 0..1100 {
        s = (s0 + s1) / 2.0;
        if s == s0 || s == s1 {
            break;
        }
        let ratio0 = n0 / (s + r0);
        let ratio1 = z1 / (s + 1.0);
        let g = ratio0 * ratio0 + ratio1 * ratio1 - 1.0;
        if g > 0.0 {
            s0 = s;
        } else if g < 0.0 {
            s1 = s;
        } else {
            break;
        }
    }
    s
}
