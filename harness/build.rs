//! Scans the generated font modules of the *current* /repo tree and emits a table of all
//! built-in fonts: (name, &MonoFont, &StrGlyphMapping).
use std::fmt::Write;
use std::path::Path;

fn main() {
    let dir = Path::new("/repo/src/mono_font/generated");
    println!("cargo:rerun-if-changed=/repo/src/mono_font/generated");
    let mut entries: Vec<_> = std::fs::read_dir(dir)
        .expect("cannot read /repo/src/mono_font/generated")
        .filter_map(|e| e.ok())
        .map(|e| e.path())
        .filter(|p| p.extension().and_then(|e| e.to_str()) == Some("rs"))
        .collect();
    entries.sort();
    let mut out = String::new();
    writeln!(out, "pub static FONTS: &[(&str, &embedded_graphics::mono_font::MonoFont<'static>, &embedded_graphics::mono_font::mapping::StrGlyphMapping<'static>)] = &[").unwrap();
    for path in entries {
        let module = path.file_stem().unwrap().to_str().unwrap().to_string();
        if module == "mod" {
            continue;
        }
        println!("cargo:rerun-if-changed={}", path.display());
        let text = std::fs::read_to_string(&path).unwrap();
        let mut current: Option<String> = None;
        for line in text.lines() {
            let l = line.trim();
            if let Some(rest) = l.strip_prefix("pub const FONT_") {
                let name = rest.split(':').next().unwrap().trim();
                current = Some(format!("FONT_{}", name));
            } else if let Some(rest) = l.strip_prefix("glyph_mapping: &crate::mono_font::mapping::") {
                let mapping = rest.trim_end_matches(',').trim();
                if let Some(name) = current.take() {
                    writeln!(
                        out,
                        "    (\"{m}::{n}\", &embedded_graphics::mono_font::{m}::{n}, &embedded_graphics::mono_font::mapping::{map}),",
                        m = module,
                        n = name,
                        map = mapping
                    )
                    .unwrap();
                }
            }
        }
    }
    writeln!(out, "];").unwrap();
    let dest = Path::new(&std::env::var("OUT_DIR").unwrap()).join("fonts.rs");
    std::fs::write(dest, out).unwrap();

    // the named web colours: (identifier, documented (r, g, b)) from the list in core's web_colors.rs
    let web = "/repo/core/src/pixelcolor/web_colors.rs";
    println!("cargo:rerun-if-changed={}", web);
    let text = std::fs::read_to_string(web).expect("cannot read web_colors.rs");
    let mut out = String::new();
    writeln!(out, "pub fn web_colors<T: embedded_graphics::pixelcolor::WebColors>() -> Vec<(&'static str, (u8, u8, u8), T)> {{\n    vec![").unwrap();
    for line in text.lines() {
        let l = line.trim();
        if let Some(rest) = l.strip_prefix("(CSS_") {
            // (CSS_NAME, "Name", (r, g, b)),
            let ident = format!("CSS_{}", rest.split(',').next().unwrap().trim());
            if let Some(i) = rest.rfind('(') {
                let rgb: Vec<&str> = rest[i + 1..].trim_end_matches(',').trim_end_matches(')').trim_end_matches(')').split(',').map(|t| t.trim()).collect();
                if rgb.len() == 3 && rgb.iter().all(|t| t.parse::<u8>().is_ok()) {
                    writeln!(out, "        (\"{id}\", ({r}, {g}, {b}), T::{id}),", id = ident, r = rgb[0], g = rgb[1], b = rgb[2]).unwrap();
                }
            }
        }
    }
    writeln!(out, "    ]\n}}").unwrap();
    let dest = Path::new(&std::env::var("OUT_DIR").unwrap()).join("web_colors.rs");
    std::fs::write(dest, out).unwrap();
}
